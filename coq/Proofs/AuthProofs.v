(* C18: the authentication handshake.
   (1) the kernel generated from connection.py on this run equals the model;
   (2) one honest side against an arbitrary peer (list of messages / adaptive strategy);
   (3) listener and client against each other, all keys, all challenges. *)
From Coq Require Import ZArith List Bool Lia ZifyBool.
From BV Require Import Lib.AuthBase Gen.K_auth Model.Auth.
Import ListNotations.
Open Scope Z_scope.

(* ------------------------------------------------------------------ *)
(* (1) generated = model                                                *)

Lemma gen_MESSAGE_LENGTH : K_auth.MESSAGE_LENGTH = Auth.MESSAGE_LENGTH.
Proof. reflexivity. Qed.
Lemma gen_CHALLENGE : K_auth.CHALLENGE = Auth.CHALLENGE.
Proof. reflexivity. Qed.
Lemma gen_WELCOME : K_auth.WELCOME = Auth.WELCOME.
Proof. reflexivity. Qed.
Lemma gen_FAILURE : K_auth.FAILURE = Auth.FAILURE.
Proof. reflexivity. Qed.

Lemma gen_deliver : forall mac key urandom k,
    K_auth.deliver_challenge mac key urandom k = Auth.deliver_challenge mac key urandom k.
Proof. reflexivity. Qed.

Lemma gen_answer : forall mac key k,
    K_auth.answer_challenge mac key k = Auth.answer_challenge mac key k.
Proof. reflexivity. Qed.

Lemma gen_same_digest : K_auth.digestmod_deliver = K_auth.digestmod_answer.
Proof. reflexivity. Qed.

Lemma gen_shape :
  K_auth.listener_guard = Auth.listener_guard /\ K_auth.accept_order = Auth.accept_order /\
  K_auth.client_guard = Auth.client_guard /\ K_auth.client_order = Auth.client_order.
Proof. repeat split; reflexivity. Qed.

(* the two endpoints assembled from the generated pieces only *)
Definition gen_do_step mac key u (s : hstep) (k : proc) : proc :=
  match s with
  | Deliver => K_auth.deliver_challenge mac key u k
  | Answer => K_auth.answer_challenge mac key k
  end.
Definition gen_endpoint mac (g : guard) (order : list hstep) (key : keyval) (u : Z -> bytes) : proc :=
  if key_type_error key then Raise TypeError
  else if guard_holds g key then
         match key with
         | KBytes b => fold_right (gen_do_step mac b u) Ret order
         | _ => Raise AssertionError
         end
       else Ret.
Definition gen_listener mac := gen_endpoint mac K_auth.listener_guard K_auth.accept_order.
Definition gen_client mac := gen_endpoint mac K_auth.client_guard K_auth.client_order.

Lemma gen_listener_eq : forall mac key u, gen_listener mac key u = Auth.listener mac key u.
Proof. reflexivity. Qed.
Lemma gen_client_eq : forall mac key u, gen_client mac key u = Auth.client mac key u.
Proof. reflexivity. Qed.

(* ------------------------------------------------------------------ *)
(* bytes                                                                *)

Lemma bytes_eqb_refl : forall a, bytes_eqb a a = true.
Proof. induction a as [|x a IH]; cbn [bytes_eqb]; [reflexivity|]. rewrite Z.eqb_refl, IH. reflexivity. Qed.

Lemma bytes_eqb_true : forall a b, bytes_eqb a b = true -> a = b.
Proof.
  induction a as [|x a IH]; intros [|y b] H; cbn [bytes_eqb] in H; try discriminate; [reflexivity|].
  apply andb_true_iff in H. destruct H as [H1 H2]. apply Z.eqb_eq in H1. subst y.
  f_equal. apply IH. exact H2.
Qed.

Lemma bytes_eqb_eq : forall a b, bytes_eqb a b = true <-> a = b.
Proof. intros a b; split; [apply bytes_eqb_true|intros ->; apply bytes_eqb_refl]. Qed.

Lemma bytes_eqb_neq : forall a b, bytes_eqb a b = false <-> a <> b.
Proof.
  intros a b; split.
  - intros H E. subst b. rewrite bytes_eqb_refl in H. discriminate.
  - intros H. destruct (bytes_eqb a b) eqn:E; [|reflexivity]. apply bytes_eqb_true in E. contradiction.
Qed.

Lemma prefix_ok : forall x, bytes_eqb (firstn (length CHALLENGE) (CHALLENGE ++ x)) CHALLENGE = true.
Proof. intros x. reflexivity. Qed.

Lemma suffix_ok : forall x, skipn (length CHALLENGE) (CHALLENGE ++ x) = x.
Proof. intros x. reflexivity. Qed.

Lemma prefix_inv : forall m, bytes_eqb (firstn (length CHALLENGE) m) CHALLENGE = true ->
                             m = CHALLENGE ++ skipn (length CHALLENGE) m.
Proof.
  intros m H. apply bytes_eqb_true in H.
  rewrite <- H at 1. symmetry. apply firstn_skipn.
Qed.

Lemma welcome_not_failure : bytes_eqb FAILURE WELCOME = false.
Proof. reflexivity. Qed.

Lemma blen_challenge : forall x, blen (CHALLENGE ++ x) = 11 + blen x.
Proof. intros x. unfold blen. rewrite app_length. cbn [length CHALLENGE]. lia. Qed.

Lemma blen_welcome : blen WELCOME = 9.
Proof. reflexivity. Qed.
Lemma blen_failure : blen FAILURE = 9.
Proof. reflexivity. Qed.

(* ------------------------------------------------------------------ *)
(* (2) one honest side against an arbitrary list of peer messages       *)

Section OneSide.
  Variable mac : bytes -> bytes -> bytes.

  (* complete description of deliver_challenge against any peer *)
  Lemma run1_deliver : forall key u k inc,
      run1 (deliver_challenge mac key u k) inc =
      let c := u MESSAGE_LENGTH in
      match inc with
      | [] => ([CHALLENGE ++ c], Starved)
      | r :: rest =>
          if blen r <=? RECV_LIMIT then
            if bytes_eqb r (mac key c)
            then let (s, o) := run1 k rest in ((CHALLENGE ++ c) :: WELCOME :: s, o)
            else ([CHALLENGE ++ c; FAILURE], Raised AuthenticationError)
          else ([CHALLENGE ++ c], Raised OSError)
      end.
  Proof.
    intros key u k [|r rest]; unfold deliver_challenge; cbn [run1]; [reflexivity|].
    destruct (blen r <=? RECV_LIMIT); [|reflexivity].
    destruct (bytes_eqb r (mac key (u MESSAGE_LENGTH))); cbn [run1]; [|reflexivity].
    destruct (run1 k rest); reflexivity.
  Qed.

  (* complete description of answer_challenge against any peer *)
  Lemma run1_answer : forall key k inc,
      run1 (answer_challenge mac key k) inc =
      match inc with
      | [] => ([], Starved)
      | m :: rest =>
          if blen m <=? RECV_LIMIT then
            if bytes_eqb (firstn (length CHALLENGE) m) CHALLENGE then
              let d := mac key (skipn (length CHALLENGE) m) in
              match rest with
              | [] => ([d], Starved)
              | v :: rest' =>
                  if blen v <=? RECV_LIMIT then
                    if bytes_eqb v WELCOME
                    then let (s, o) := run1 k rest' in (d :: s, o)
                    else ([d], Raised AuthenticationError)
                  else ([d], Raised OSError)
              end
            else ([], Raised AssertionError)
          else ([], Raised OSError)
      end.
  Proof.
    intros key k [|m rest]; unfold answer_challenge; cbn [run1]; [reflexivity|].
    destruct (blen m <=? RECV_LIMIT); [|reflexivity].
    destruct (bytes_eqb (firstn (length CHALLENGE) m) CHALLENGE); cbn [run1]; [|reflexivity].
    destruct rest as [|v rest']; [reflexivity|].
    destruct (blen v <=? RECV_LIMIT); [|reflexivity].
    destruct (bytes_eqb v WELCOME); cbn [negb run1]; [|reflexivity].
    destruct (run1 k rest'); reflexivity.
  Qed.

  (* -- the honest side that delivers a challenge hands out a connection only to
        a peer whose answer is exactly mac key challenge *)
  Theorem deliver_returns_only_on_digest : forall key u k inc sent,
      run1 (deliver_challenge mac key u k) inc = (sent, Returned) ->
      exists rest, inc = mac key (u MESSAGE_LENGTH) :: rest.
  Proof.
    intros key u k inc sent H. rewrite run1_deliver in H. cbv zeta in H.
    destruct inc as [|r rest]; [discriminate|].
    destruct (blen r <=? RECV_LIMIT); [|discriminate].
    destruct (bytes_eqb r (mac key (u MESSAGE_LENGTH))) eqn:E; [|discriminate].
    apply bytes_eqb_true in E. subst r. exists rest. reflexivity.
  Qed.

  (* exact characterisation for the listener's handshake: deliver, then answer *)
  Theorem listener_role_returns_iff : forall key u inc sent,
      run1 (role mac accept_order key u) inc = (sent, Returned) <->
      exists x rest,
        inc = mac key (u MESSAGE_LENGTH) :: (CHALLENGE ++ x) :: WELCOME :: rest /\
        blen (mac key (u MESSAGE_LENGTH)) <= RECV_LIMIT /\ blen (CHALLENGE ++ x) <= RECV_LIMIT /\
        sent = [CHALLENGE ++ u MESSAGE_LENGTH; WELCOME; mac key x].
  Proof.
    intros key u inc sent. unfold role, accept_order. cbn [fold_right do_step].
    rewrite run1_deliver. cbv zeta. split.
    - intros H. destruct inc as [|r rest]; [discriminate|].
      destruct (blen r <=? RECV_LIMIT) eqn:L1; [|discriminate].
      destruct (bytes_eqb r (mac key (u MESSAGE_LENGTH))) eqn:E; [|discriminate].
      apply bytes_eqb_true in E. subst r.
      rewrite run1_answer in H.
      destruct rest as [|m rest]; [discriminate|].
      destruct (blen m <=? RECV_LIMIT) eqn:L2; [|discriminate].
      destruct (bytes_eqb (firstn (length CHALLENGE) m) CHALLENGE) eqn:P; [|discriminate].
      cbv zeta in H.
      destruct rest as [|v rest]; [discriminate|].
      destruct (blen v <=? RECV_LIMIT); [|discriminate].
      destruct (bytes_eqb v WELCOME) eqn:W; [|discriminate].
      apply bytes_eqb_true in W. subst v. cbn [run1] in H.
      apply prefix_inv in P.
      exists (skipn (length CHALLENGE) m), rest.
      rewrite <- P. repeat split; try lia. inversion H. reflexivity.
    - intros (x & rest & -> & L1 & L2 & ->).
      replace (blen (mac key (u MESSAGE_LENGTH)) <=? RECV_LIMIT) with true by lia.
      rewrite bytes_eqb_refl, run1_answer.
      replace (blen (CHALLENGE ++ x) <=? RECV_LIMIT) with true by lia.
      rewrite prefix_ok, suffix_ok. cbv zeta.
      replace (blen WELCOME <=? RECV_LIMIT) with true by reflexivity.
      rewrite bytes_eqb_refl. reflexivity.
  Qed.

  (* exact characterisation for the client's handshake: answer, then deliver *)
  Theorem client_role_returns_iff : forall key u inc sent,
      run1 (role mac client_order key u) inc = (sent, Returned) <->
      exists x rest,
        inc = (CHALLENGE ++ x) :: WELCOME :: mac key (u MESSAGE_LENGTH) :: rest /\
        blen (CHALLENGE ++ x) <= RECV_LIMIT /\ blen (mac key (u MESSAGE_LENGTH)) <= RECV_LIMIT /\
        sent = [mac key x; CHALLENGE ++ u MESSAGE_LENGTH; WELCOME].
  Proof.
    intros key u inc sent. unfold role, client_order. cbn [fold_right do_step].
    rewrite run1_answer. split.
    - intros H. destruct inc as [|m rest]; [discriminate|].
      destruct (blen m <=? RECV_LIMIT) eqn:L2; [|discriminate].
      destruct (bytes_eqb (firstn (length CHALLENGE) m) CHALLENGE) eqn:P; [|discriminate].
      cbv zeta in H.
      destruct rest as [|v rest]; [discriminate|].
      destruct (blen v <=? RECV_LIMIT); [|discriminate].
      destruct (bytes_eqb v WELCOME) eqn:W; [|discriminate].
      apply bytes_eqb_true in W. subst v.
      rewrite run1_deliver in H. cbv zeta in H.
      destruct rest as [|r rest]; [discriminate|].
      destruct (blen r <=? RECV_LIMIT) eqn:L1; [|discriminate].
      destruct (bytes_eqb r (mac key (u MESSAGE_LENGTH))) eqn:E; [|discriminate].
      apply bytes_eqb_true in E. subst r. cbn [run1] in H.
      apply prefix_inv in P.
      exists (skipn (length CHALLENGE) m), rest.
      rewrite <- P. repeat split; try lia. inversion H. reflexivity.
    - intros (x & rest & -> & L1 & L2 & ->).
      replace (blen (CHALLENGE ++ x) <=? RECV_LIMIT) with true by lia.
      rewrite prefix_ok, suffix_ok. cbv zeta.
      replace (blen WELCOME <=? RECV_LIMIT) with true by reflexivity.
      rewrite bytes_eqb_refl, run1_deliver. cbv zeta.
      replace (blen (mac key (u MESSAGE_LENGTH)) <=? RECV_LIMIT) with true by lia.
      rewrite bytes_eqb_refl. reflexivity.
  Qed.

  (* endpoints: a non-empty byte key means the full handshake is run *)
  Lemma listener_nonempty : forall b0 b u,
      listener mac (KBytes (b0 :: b)) u = role mac accept_order (b0 :: b) u.
  Proof. reflexivity. Qed.
  Lemma client_bytes : forall b u, client mac (KBytes b) u = role mac client_order b u.
  Proof. reflexivity. Qed.

  (* -- wrong digest refused, for the real endpoints, any peer *)
  Theorem listener_refuses_wrong_digest : forall b0 b u inc sent,
      run1 (listener mac (KBytes (b0 :: b)) u) inc = (sent, Returned) ->
      exists rest, inc = mac (b0 :: b) (u MESSAGE_LENGTH) :: rest.
  Proof.
    intros b0 b u inc sent H. rewrite listener_nonempty in H.
    apply listener_role_returns_iff in H. destruct H as (x & rest & -> & _).
    eexists. reflexivity.
  Qed.

  Theorem client_refuses_wrong_digest : forall b u inc sent,
      run1 (client mac (KBytes b) u) inc = (sent, Returned) ->
      exists m v rest, inc = m :: v :: mac b (u MESSAGE_LENGTH) :: rest.
  Proof.
    intros b u inc sent H. rewrite client_bytes in H.
    apply client_role_returns_iff in H. destruct H as (x & rest & -> & _).
    do 3 eexists. reflexivity.
  Qed.

  (* in particular: replaying the digest of an older challenge c_old is refused
     unless it happens to be the digest of the fresh challenge as well *)
  Corollary listener_refuses_replay : forall b0 b u c_old rest sent,
      mac (b0 :: b) c_old <> mac (b0 :: b) (u MESSAGE_LENGTH) ->
      run1 (listener mac (KBytes (b0 :: b)) u) (mac (b0 :: b) c_old :: rest) <> (sent, Returned).
  Proof.
    intros b0 b u c_old rest sent Hne H.
    apply listener_refuses_wrong_digest in H. destruct H as (r & E). inversion E. contradiction.
  Qed.

  (* -- malformed messages *)
  Theorem oversize_rejected : forall key u k m rest,
      RECV_LIMIT < blen m ->
      run1 (answer_challenge mac key k) (m :: rest) = ([], Raised OSError) /\
      run1 (deliver_challenge mac key u k) (m :: rest) =
      ([CHALLENGE ++ u MESSAGE_LENGTH], Raised OSError).
  Proof.
    intros key u k m rest H. rewrite run1_answer, run1_deliver. cbv zeta.
    replace (blen m <=? RECV_LIMIT) with false by lia. split; reflexivity.
  Qed.

  Theorem oversize_verdict_rejected : forall key k x v rest,
      blen (CHALLENGE ++ x) <= RECV_LIMIT -> RECV_LIMIT < blen v ->
      run1 (answer_challenge mac key k) ((CHALLENGE ++ x) :: v :: rest) = ([mac key x], Raised OSError).
  Proof.
    intros key k x v rest H1 H2. rewrite run1_answer.
    replace (blen (CHALLENGE ++ x) <=? RECV_LIMIT) with true by lia.
    rewrite prefix_ok, suffix_ok. cbv zeta.
    replace (blen v <=? RECV_LIMIT) with false by lia. reflexivity.
  Qed.

  (* a first message that does not start with CHALLENGE: AssertionError and, in
     particular, no digest of peer-chosen data is sent *)
  Theorem wrong_prefix_rejected : forall key k m rest,
      blen m <= RECV_LIMIT -> firstn (length CHALLENGE) m <> CHALLENGE ->
      run1 (answer_challenge mac key k) (m :: rest) = ([], Raised AssertionError).
  Proof.
    intros key k m rest H1 H2. rewrite run1_answer.
    replace (blen m <=? RECV_LIMIT) with true by lia.
    apply bytes_eqb_neq in H2. rewrite H2. reflexivity.
  Qed.

  (* anything but WELCOME as verdict (FAILURE, a digest, garbage): AuthenticationError *)
  Theorem bad_verdict_rejected : forall key k x v rest,
      blen (CHALLENGE ++ x) <= RECV_LIMIT -> blen v <= RECV_LIMIT -> v <> WELCOME ->
      run1 (answer_challenge mac key k) ((CHALLENGE ++ x) :: v :: rest) =
      ([mac key x], Raised AuthenticationError).
  Proof.
    intros key k x v rest H1 H2 H3. rewrite run1_answer.
    replace (blen (CHALLENGE ++ x) <=? RECV_LIMIT) with true by lia.
    rewrite prefix_ok, suffix_ok. cbv zeta.
    replace (blen v <=? RECV_LIMIT) with true by lia.
    apply bytes_eqb_neq in H3. rewrite H3. reflexivity.
  Qed.

  (* wrong digest: FAILURE is sent, WELCOME is not, AuthenticationError *)
  Theorem wrong_digest_outcome : forall key u k r rest,
      blen r <= RECV_LIMIT -> r <> mac key (u MESSAGE_LENGTH) ->
      run1 (deliver_challenge mac key u k) (r :: rest) =
      ([CHALLENGE ++ u MESSAGE_LENGTH; FAILURE], Raised AuthenticationError).
  Proof.
    intros key u k r rest H1 H2. rewrite run1_deliver. cbv zeta.
    replace (blen r <=? RECV_LIMIT) with true by lia.
    apply bytes_eqb_neq in H2. rewrite H2. reflexivity.
  Qed.

  (* -- key type: TypeError, nothing is sent, the key is not looked at further *)
  Theorem key_type_listener : forall t u inc,
      listener mac (KOther t) u = Raise TypeError /\
      run1 (listener mac (KOther t) u) inc = ([], Raised TypeError).
  Proof. intros t u inc. split; reflexivity. Qed.

  Theorem key_type_client : forall t u inc,
      client mac (KOther t) u = Raise TypeError /\
      run1 (client mac (KOther t) u) inc = ([], Raised TypeError).
  Proof. intros t u inc. split; reflexivity. Qed.

  (* -- observation outside the property: falsy keys *)
  Lemma listener_empty_key_skips : forall u inc,
      run1 (listener mac (KBytes []) u) inc = ([], Returned) /\
      run1 (listener mac KNone u) inc = ([], Returned).
  Proof. intros u inc. split; reflexivity. Qed.

  Lemma client_empty_key_authenticates : forall u,
      client mac (KBytes []) u = role mac client_order [] u /\
      client mac KNone u = Ret.
  Proof. intros u. split; reflexivity. Qed.

  (* -- adaptive peers: whatever strategy the peer follows, the honest side ends
        exactly as against the list of messages the strategy delivered *)
  Lemma run_strat_run1 : forall p st sent n,
      let '(s, r, o) := run_strat p st sent n in
      s = sent ++ fst (run1 p r) /\ o = snd (run1 p r).
  Proof.
    induction p as [m k IH|mx k IH| |e]; intros st sent n; cbn [run_strat run1].
    - specialize (IH st (sent ++ [m]) n).
      destruct (run_strat k st (sent ++ [m]) n) as [[s r] o].
      destruct IH as [-> ->]. destruct (run1 k r) as [s1 o1]. cbn [fst snd].
      rewrite <- app_assoc. split; reflexivity.
    - destruct (st sent n) as [m|]; cbn [run1 fst snd].
      + destruct (blen m <=? mx) eqn:L.
        * specialize (IH m st sent (S n)).
          destruct (run_strat (k m) st sent (S n)) as [[s r] o].
          destruct IH as [-> ->]. cbn [run1]. rewrite L. split; reflexivity.
        * cbn [run1]. rewrite L. cbn [fst snd]. rewrite app_nil_r. split; reflexivity.
      + rewrite app_nil_r. split; reflexivity.
    - cbn [fst snd]. rewrite app_nil_r. split; reflexivity.
    - cbn [fst snd]. rewrite app_nil_r. split; reflexivity.
  Qed.

  Theorem adaptive_peer_needs_digest : forall st b0 b u s r,
      run_strat (listener mac (KBytes (b0 :: b)) u) st [] 0 = (s, r, Returned) ->
      exists rest, r = mac (b0 :: b) (u MESSAGE_LENGTH) :: rest.
  Proof.
    intros st b0 b u s r H.
    pose proof (run_strat_run1 (listener mac (KBytes (b0 :: b)) u) st [] 0) as L.
    rewrite H in L. destruct L as [_ L].
    destruct (run1 (listener mac (KBytes (b0 :: b)) u) r) as [s1 o1] eqn:E. cbn [snd] in L. subst o1.
    apply listener_refuses_wrong_digest in E. exact E.
  Qed.

  Theorem adaptive_server_needs_digest : forall st b u s r,
      run_strat (client mac (KBytes b) u) st [] 0 = (s, r, Returned) ->
      exists m v rest, r = m :: v :: mac b (u MESSAGE_LENGTH) :: rest.
  Proof.
    intros st b u s r H.
    pose proof (run_strat_run1 (client mac (KBytes b) u) st [] 0) as L.
    rewrite H in L. destruct L as [_ L].
    destruct (run1 (client mac (KBytes b) u) r) as [s1 o1] eqn:E. cbn [snd] in L. subst o1.
    apply client_refuses_wrong_digest in E. exact E.
  Qed.
End OneSide.

(* ------------------------------------------------------------------ *)
(* (3) listener against client                                          *)

Section TwoSides.
  Variable mac : bytes -> bytes -> bytes.

  Lemma r2_a_send : forall f m k b qa qb sa sb,
      run2 (S f) (Send m k) b qa qb sa sb = run2 f k b qa (qb ++ [m]) (sa ++ [m]) sb.
  Proof. reflexivity. Qed.
  Lemma r2_a_recv : forall f n k m r b qb sa sb,
      run2 (S f) (Recv n k) b (m :: r) qb sa sb = run2 f (deliver_msg n k m) b r qb sa sb.
  Proof. reflexivity. Qed.
  Lemma r2_b_send : forall f n ka m k qb sa sb,
      run2 (S f) (Recv n ka) (Send m k) [] qb sa sb = run2 f (Recv n ka) k [m] qb sa (sb ++ [m]).
  Proof. reflexivity. Qed.
  Lemma r2_b_recv : forall f n ka n' k m r sa sb,
      run2 (S f) (Recv n ka) (Recv n' k) [] (m :: r) sa sb =
      run2 f (Recv n ka) (deliver_msg n' k m) [] r sa sb.
  Proof. reflexivity. Qed.
  Lemma r2_b_send_ret : forall f m k qa qb sa sb,
      run2 (S f) Ret (Send m k) qa qb sa sb = run2 f Ret k (qa ++ [m]) qb sa (sb ++ [m]).
  Proof. intros. cbn [run2]. destruct qa; reflexivity. Qed.
  Lemma r2_b_send_raise : forall f e m k qa qb sa sb,
      run2 (S f) (Raise e) (Send m k) qa qb sa sb = run2 f (Raise e) k (qa ++ [m]) qb sa (sb ++ [m]).
  Proof. intros. cbn [run2]. destruct qa; reflexivity. Qed.
  Lemma r2_b_recv_raise : forall f e n' k m r qa sa sb,
      run2 (S f) (Raise e) (Recv n' k) qa (m :: r) sa sb =
      run2 f (Raise e) (deliver_msg n' k m) qa r sa sb.
  Proof. intros. cbn [run2]. destruct qa; reflexivity. Qed.
  Lemma r2_done : forall f a b qa sa sb,
      (a = Ret \/ exists e, a = Raise e) -> (b = Ret \/ exists e, b = Raise e) ->
      run2 (S f) a b qa [] sa sb = ((final a, sa), (final b, sb)).
  Proof.
    intros f a b qa sa sb [->|[e ->]] [->|[e' ->]]; cbn [run2]; destruct qa; reflexivity.
  Qed.

  Lemma deliver_msg_ok : forall n k m, blen m <= n -> deliver_msg n k m = k m.
  Proof. intros n k m H. unfold deliver_msg. replace (blen m <=? n) with true by lia. reflexivity. Qed.

  (* the complete outcome of a handshake between a listener with key kl and a
     client with key kc (byte strings, kl non-empty), for all challenge sources:
     (listener's outcome, what it sent), (client's outcome, what it sent) *)
  Definition expected (kl kc cl cc : bytes) :=
    if bytes_eqb (mac kc cl) (mac kl cl) then
      if bytes_eqb (mac kl cc) (mac kc cc) then
        ((Returned, [CHALLENGE ++ cl; WELCOME; mac kl cc]),
         (Returned, [mac kc cl; CHALLENGE ++ cc; WELCOME]))
      else
        ((Raised AuthenticationError, [CHALLENGE ++ cl; WELCOME; mac kl cc]),
         (Raised AuthenticationError, [mac kc cl; CHALLENGE ++ cc; FAILURE]))
    else
      ((Raised AuthenticationError, [CHALLENGE ++ cl; FAILURE]),
       (Raised AuthenticationError, [mac kc cl])).

  Theorem handshake_outcome : forall n k0 k kc ul uc,
      let kl := k0 :: k in
      let cl := ul MESSAGE_LENGTH in
      let cc := uc MESSAGE_LENGTH in
      blen cl = MESSAGE_LENGTH -> blen cc = MESSAGE_LENGTH ->
      blen (mac kc cl) <= RECV_LIMIT -> blen (mac kl cc) <= RECV_LIMIT ->
      handshake mac (13 + n) (KBytes kl) (KBytes kc) ul uc = expected kl kc cl cc.
  Proof.
    intros n k0 k kc ul uc kl cl cc Hcl Hcc Hd1 Hd2.
    unfold handshake. subst kl. rewrite listener_nonempty, client_bytes.
    set (kl := k0 :: k) in *.
    unfold role, accept_order, client_order. cbn [fold_right do_step].
    unfold deliver_challenge, answer_challenge. fold cl. fold cc.
    assert (Lcl : blen (CHALLENGE ++ cl) <= RECV_LIMIT)
      by (rewrite blen_challenge, Hcl; unfold MESSAGE_LENGTH, RECV_LIMIT; lia).
    assert (Lcc : blen (CHALLENGE ++ cc) <= RECV_LIMIT)
      by (rewrite blen_challenge, Hcc; unfold MESSAGE_LENGTH, RECV_LIMIT; lia).
    assert (Lw : blen WELCOME <= RECV_LIMIT) by (rewrite blen_welcome; unfold RECV_LIMIT; lia).
    assert (Lf : blen FAILURE <= RECV_LIMIT) by (rewrite blen_failure; unfold RECV_LIMIT; lia).
    change (13 + n)%nat with (S (S (S (S (S (S (S (S (S (S (S (S (S n))))))))))))).
    unfold expected.
    (* 1: listener sends its challenge *)
    rewrite r2_a_send. cbn [app].
    (* 2: client receives it *)
    rewrite r2_b_recv, (deliver_msg_ok _ _ _ Lcl). cbv beta.
    rewrite prefix_ok, suffix_ok.
    (* 3: client sends its digest *)
    rewrite r2_b_send. cbn [app].
    (* 4: listener receives and compares *)
    rewrite r2_a_recv, (deliver_msg_ok _ _ _ Hd1). cbv beta.
    destruct (bytes_eqb (mac kc cl) (mac kl cl)) eqn:E1.
    - (* 5: WELCOME *)
      rewrite r2_a_send. cbn [app].
      (* 6: client receives the verdict *)
      rewrite r2_b_recv, (deliver_msg_ok _ _ _ Lw). cbv beta.
      rewrite bytes_eqb_refl. cbn [negb].
      (* 7: client sends its challenge *)
      rewrite r2_b_send. cbn [app].
      (* 8: listener receives it *)
      rewrite r2_a_recv, (deliver_msg_ok _ _ _ Lcc). cbv beta.
      rewrite prefix_ok, suffix_ok.
      (* 9: listener sends its digest *)
      rewrite r2_a_send. cbn [app].
      (* 10: client receives and compares *)
      rewrite r2_b_recv, (deliver_msg_ok _ _ _ Hd2). cbv beta.
      destruct (bytes_eqb (mac kl cc) (mac kc cc)) eqn:E2.
      + rewrite r2_b_send. cbn [app].
        rewrite r2_a_recv, (deliver_msg_ok _ _ _ Lw). cbv beta.
        rewrite bytes_eqb_refl. cbn [negb].
        rewrite r2_done by (left; reflexivity). reflexivity.
      + rewrite r2_b_send. cbn [app].
        rewrite r2_a_recv, (deliver_msg_ok _ _ _ Lf). cbv beta.
        rewrite welcome_not_failure. cbn [negb].
        rewrite r2_done by (right; eexists; reflexivity). reflexivity.
    - (* 5: FAILURE, listener raises *)
      rewrite r2_a_send. cbn [app].
      rewrite r2_b_recv_raise, (deliver_msg_ok _ _ _ Lf). cbv beta.
      rewrite welcome_not_failure. cbn [negb].
      rewrite r2_done by (right; eexists; reflexivity). reflexivity.
  Qed.

  (* -- same key: both sides are handed a connection, whatever the challenges *)
  Theorem same_key_succeeds : forall n k0 k ul uc,
      let key := k0 :: k in
      blen (ul MESSAGE_LENGTH) = MESSAGE_LENGTH -> blen (uc MESSAGE_LENGTH) = MESSAGE_LENGTH ->
      blen (mac key (ul MESSAGE_LENGTH)) <= RECV_LIMIT -> blen (mac key (uc MESSAGE_LENGTH)) <= RECV_LIMIT ->
      exists tl tc,
        handshake mac (13 + n) (KBytes key) (KBytes key) ul uc = ((Returned, tl), (Returned, tc)).
  Proof.
    intros n k0 k ul uc key H1 H2 H3 H4.
    pose proof (handshake_outcome n k0 k key ul uc H1 H2 H3 H4) as HO. cbv zeta in HO.
    subst key. rewrite HO.
    unfold expected. rewrite !bytes_eqb_refl. do 2 eexists. reflexivity.
  Qed.

  Definition both_returned (r : (outcome * list bytes) * (outcome * list bytes)) : Prop :=
    fst (fst r) = Returned /\ fst (snd r) = Returned.
  Definition both_auth_error (r : (outcome * list bytes) * (outcome * list bytes)) : Prop :=
    fst (fst r) = Raised AuthenticationError /\ fst (snd r) = Raised AuthenticationError.

  (* -- exactness: both succeed iff the two digest equations hold; otherwise BOTH
        raise AuthenticationError (so nobody is handed a connection) *)
  Theorem mutual_exact : forall n k0 k kc ul uc,
      let kl := k0 :: k in
      let cl := ul MESSAGE_LENGTH in
      let cc := uc MESSAGE_LENGTH in
      blen cl = MESSAGE_LENGTH -> blen cc = MESSAGE_LENGTH ->
      blen (mac kc cl) <= RECV_LIMIT -> blen (mac kl cc) <= RECV_LIMIT ->
      let r := handshake mac (13 + n) (KBytes kl) (KBytes kc) ul uc in
      (both_returned r <-> mac kc cl = mac kl cl /\ mac kl cc = mac kc cc) /\
      (both_returned r \/ both_auth_error r).
  Proof.
    intros n k0 k kc ul uc kl cl cc H1 H2 H3 H4 r.
    pose proof (handshake_outcome n k0 k kc ul uc H1 H2 H3 H4) as HO. cbv zeta in HO.
    subst r. fold kl cl cc in HO. rewrite HO. unfold expected, both_returned, both_auth_error.
    destruct (bytes_eqb (mac kc cl) (mac kl cl)) eqn:E1.
    - apply bytes_eqb_true in E1.
      destruct (bytes_eqb (mac kl cc) (mac kc cc)) eqn:E2.
      + apply bytes_eqb_true in E2. cbn [fst snd]. split; [split; auto|left; auto].
      + apply bytes_eqb_neq in E2. cbn [fst snd]. split; [|right; auto].
        split; [intros [A _]; discriminate|intros [_ B]; contradiction].
    - apply bytes_eqb_neq in E1. cbn [fst snd]. split; [|right; auto].
      split; [intros [A _]; discriminate|intros [A _]; contradiction].
  Qed.

  (* -- who detects the mismatch, and what is on the wire *)
  Theorem mismatch_first_direction : forall n k0 k kc ul uc,
      let kl := k0 :: k in
      let cl := ul MESSAGE_LENGTH in
      let cc := uc MESSAGE_LENGTH in
      blen cl = MESSAGE_LENGTH -> blen cc = MESSAGE_LENGTH ->
      blen (mac kc cl) <= RECV_LIMIT -> blen (mac kl cc) <= RECV_LIMIT ->
      mac kc cl <> mac kl cl ->
      (* the listener detects it in deliver_challenge, sends FAILURE and raises; the
         client raises in answer_challenge and never sends its own challenge *)
      handshake mac (13 + n) (KBytes kl) (KBytes kc) ul uc =
      ((Raised AuthenticationError, [CHALLENGE ++ cl; FAILURE]),
       (Raised AuthenticationError, [mac kc cl])).
  Proof.
    intros n k0 k kc ul uc kl cl cc H1 H2 H3 H4 Hne.
    pose proof (handshake_outcome n k0 k kc ul uc H1 H2 H3 H4) as HO. cbv zeta in HO.
    fold kl cl cc in HO. rewrite HO. unfold expected.
    apply bytes_eqb_neq in Hne. rewrite Hne. reflexivity.
  Qed.

  Theorem mismatch_second_direction : forall n k0 k kc ul uc,
      let kl := k0 :: k in
      let cl := ul MESSAGE_LENGTH in
      let cc := uc MESSAGE_LENGTH in
      blen cl = MESSAGE_LENGTH -> blen cc = MESSAGE_LENGTH ->
      blen (mac kc cl) <= RECV_LIMIT -> blen (mac kl cc) <= RECV_LIMIT ->
      mac kc cl = mac kl cl -> mac kl cc <> mac kc cc ->
      (* the client detects it in deliver_challenge, sends FAILURE and raises; the
         listener, which had already sent WELCOME, raises in answer_challenge *)
      handshake mac (13 + n) (KBytes kl) (KBytes kc) ul uc =
      ((Raised AuthenticationError, [CHALLENGE ++ cl; WELCOME; mac kl cc]),
       (Raised AuthenticationError, [mac kc cl; CHALLENGE ++ cc; FAILURE])).
  Proof.
    intros n k0 k kc ul uc kl cl cc H1 H2 H3 H4 He Hne.
    pose proof (handshake_outcome n k0 k kc ul uc H1 H2 H3 H4) as HO. cbv zeta in HO.
    fold kl cl cc in HO. rewrite HO. unfold expected.
    rewrite He, bytes_eqb_refl. apply bytes_eqb_neq in Hne. rewrite Hne. reflexivity.
  Qed.

  (* -- under "different keys give different digests on at least one of the two
        challenges", success is equivalent to holding the same key.
        SUPERSEDED (audit 2026-09-23: this hypothesis is the contrapositive of the
        conclusion): Props/C18.v now quotes AuthKeyProofs.code_iff_same_normalised_key /
        code_iff_same_key_literal, whose hypotheses are structural (key normalisation,
        key-collision freeness).  Kept as a lemma; no longer quoted. *)
  Theorem iff_same_key : forall n k0 k kc ul uc,
      let kl := k0 :: k in
      let cl := ul MESSAGE_LENGTH in
      let cc := uc MESSAGE_LENGTH in
      blen cl = MESSAGE_LENGTH -> blen cc = MESSAGE_LENGTH ->
      blen (mac kc cl) <= RECV_LIMIT -> blen (mac kl cc) <= RECV_LIMIT ->
      (kl <> kc -> mac kc cl <> mac kl cl \/ mac kl cc <> mac kc cc) ->
      let r := handshake mac (13 + n) (KBytes kl) (KBytes kc) ul uc in
      (both_returned r <-> kl = kc) /\ (kl <> kc -> both_auth_error r).
  Proof.
    intros n k0 k kc ul uc kl cl cc H1 H2 H3 H4 Hinj r.
    pose proof (mutual_exact n k0 k kc ul uc H1 H2 H3 H4) as HM. cbv zeta in HM.
    fold kl cl cc in HM. fold r in HM. destruct HM as [Hiff Hor].
    assert (Hdir : both_returned r -> kl = kc).
    { intros Hb. apply Hiff in Hb. destruct Hb as [A B].
      destruct (bytes_eqb kl kc) eqn:E; [apply bytes_eqb_true; exact E|].
      apply bytes_eqb_neq in E. destruct (Hinj E) as [X|X]; contradiction. }
    split; [split; [exact Hdir|]|].
    - intros E. apply Hiff. rewrite <- E. split; reflexivity.
    - intros Hne. destruct Hor as [Hb|Hb]; [|exact Hb]. apply Hdir in Hb. contradiction.
  Qed.
End TwoSides.

(* ------------------------------------------------------------------ *)
(* the hypotheses are satisfiable: a toy MAC that is injective in the key *)

Definition toy_mac (k m : bytes) : bytes := k.
Definition const20 (b : Z) (n : Z) : bytes := repeat b (Z.to_nat n).

Lemma toy_no_collision : forall kl kc cl cc,
    kl <> kc -> toy_mac kc cl <> toy_mac kl cl \/ toy_mac kl cc <> toy_mac kc cc.
Proof. intros kl kc cl cc H. left. unfold toy_mac. intros E. apply H. symmetry. exact E. Qed.

Lemma toy_different_keys :
  handshake toy_mac 13 (KBytes [1; 2; 3]) (KBytes [1; 2; 4]) (const20 7) (const20 9) =
  ((Raised AuthenticationError, [CHALLENGE ++ const20 7 20; FAILURE]),
   (Raised AuthenticationError, [[1; 2; 4]])).
Proof. vm_compute. reflexivity. Qed.

Lemma toy_same_key :
  handshake toy_mac 13 (KBytes [1; 2; 3]) (KBytes [1; 2; 3]) (const20 7) (const20 9) =
  ((Returned, [CHALLENGE ++ const20 7 20; WELCOME; [1; 2; 3]]),
   (Returned, [[1; 2; 3]; CHALLENGE ++ const20 9 20; WELCOME])).
Proof. vm_compute. reflexivity. Qed.

(* the empty-key observation, both sides honest: the listener returns an
   unauthenticated connection at once, the client waits for a challenge *)
Lemma empty_keys_observation : forall mac ul uc n,
    handshake mac (2 + n) (KBytes []) (KBytes []) ul uc = ((Returned, []), (Starved, [])).
Proof. intros. reflexivity. Qed.

(* ------------------------------------------------------------------ *)
(* transport to the endpoints assembled from the generated definitions;
   constants written out as in the source                               *)

Definition code_listener := gen_listener.
Definition code_client := gen_client.
Definition code_handshake mac (fuel : nat) (kl kc : keyval) (ul uc : Z -> bytes) :=
  run2 fuel (code_listener mac kl ul) (code_client mac kc uc) [] [] [] [].

Lemma code_handshake_eq : forall mac fuel kl kc ul uc,
    code_handshake mac fuel kl kc ul uc = handshake mac fuel kl kc ul uc.
Proof.
  intros. unfold code_handshake, code_listener, code_client, handshake.
  rewrite gen_listener_eq, gen_client_eq. reflexivity.
Qed.

Lemma code_same_key : forall mac n k0 k ul uc,
    let key := k0 :: k in
    blen (ul 20) = 20 -> blen (uc 20) = 20 ->
    blen (mac key (ul 20)) <= 256 -> blen (mac key (uc 20)) <= 256 ->
    exists tl tc,
      code_handshake mac (13 + n) (KBytes key) (KBytes key) ul uc = ((Returned, tl), (Returned, tc)).
Proof.
  intros mac n k0 k ul uc key H1 H2 H3 H4. rewrite code_handshake_eq.
  exact (same_key_succeeds mac n k0 k ul uc H1 H2 H3 H4).
Qed.

Lemma code_mutual_exact : forall mac n k0 k kc ul uc,
    let kl := k0 :: k in
    let cl := ul 20 in
    let cc := uc 20 in
    blen cl = 20 -> blen cc = 20 -> blen (mac kc cl) <= 256 -> blen (mac kl cc) <= 256 ->
    let r := code_handshake mac (13 + n) (KBytes kl) (KBytes kc) ul uc in
    ((fst (fst r) = Returned /\ fst (snd r) = Returned)
     <-> mac kc cl = mac kl cl /\ mac kl cc = mac kc cc) /\
    ((fst (fst r) = Returned /\ fst (snd r) = Returned) \/
     (fst (fst r) = Raised AuthenticationError /\ fst (snd r) = Raised AuthenticationError)).
Proof.
  intros mac n k0 k kc ul uc kl cl cc H1 H2 H3 H4 r. subst r. rewrite code_handshake_eq.
  exact (mutual_exact mac n k0 k kc ul uc H1 H2 H3 H4).
Qed.

Lemma code_mismatch_first : forall mac n k0 k kc ul uc,
    let kl := k0 :: k in
    let cl := ul 20 in
    let cc := uc 20 in
    blen cl = 20 -> blen cc = 20 -> blen (mac kc cl) <= 256 -> blen (mac kl cc) <= 256 ->
    mac kc cl <> mac kl cl ->
    code_handshake mac (13 + n) (KBytes kl) (KBytes kc) ul uc =
    ((Raised AuthenticationError, [K_auth.CHALLENGE ++ cl; K_auth.FAILURE]),
     (Raised AuthenticationError, [mac kc cl])).
Proof.
  intros mac n k0 k kc ul uc kl cl cc H1 H2 H3 H4 H5. rewrite code_handshake_eq.
  exact (mismatch_first_direction mac n k0 k kc ul uc H1 H2 H3 H4 H5).
Qed.

Lemma code_mismatch_second : forall mac n k0 k kc ul uc,
    let kl := k0 :: k in
    let cl := ul 20 in
    let cc := uc 20 in
    blen cl = 20 -> blen cc = 20 -> blen (mac kc cl) <= 256 -> blen (mac kl cc) <= 256 ->
    mac kc cl = mac kl cl -> mac kl cc <> mac kc cc ->
    code_handshake mac (13 + n) (KBytes kl) (KBytes kc) ul uc =
    ((Raised AuthenticationError, [K_auth.CHALLENGE ++ cl; K_auth.WELCOME; mac kl cc]),
     (Raised AuthenticationError, [mac kc cl; K_auth.CHALLENGE ++ cc; K_auth.FAILURE])).
Proof.
  intros mac n k0 k kc ul uc kl cl cc H1 H2 H3 H4 H5 H6. rewrite code_handshake_eq.
  exact (mismatch_second_direction mac n k0 k kc ul uc H1 H2 H3 H4 H5 H6).
Qed.

Lemma code_iff_same_key : forall mac n k0 k kc ul uc,
    let kl := k0 :: k in
    let cl := ul 20 in
    let cc := uc 20 in
    blen cl = 20 -> blen cc = 20 -> blen (mac kc cl) <= 256 -> blen (mac kl cc) <= 256 ->
    (kl <> kc -> mac kc cl <> mac kl cl \/ mac kl cc <> mac kc cc) ->
    let r := code_handshake mac (13 + n) (KBytes kl) (KBytes kc) ul uc in
    ((fst (fst r) = Returned /\ fst (snd r) = Returned) <-> kl = kc) /\
    (kl <> kc ->
     fst (fst r) = Raised AuthenticationError /\ fst (snd r) = Raised AuthenticationError).
Proof.
  intros mac n k0 k kc ul uc kl cl cc H1 H2 H3 H4 H5 r. subst r. rewrite code_handshake_eq.
  exact (iff_same_key mac n k0 k kc ul uc H1 H2 H3 H4 H5).
Qed.

Lemma code_toy_witness :
  code_handshake toy_mac 13 (KBytes [1; 2; 3]) (KBytes [1; 2; 4]) (const20 7) (const20 9) =
  ((Raised AuthenticationError, [K_auth.CHALLENGE ++ const20 7 20; K_auth.FAILURE]),
   (Raised AuthenticationError, [[1; 2; 4]])) /\
  code_handshake toy_mac 13 (KBytes [1; 2; 3]) (KBytes [1; 2; 3]) (const20 7) (const20 9) =
  ((Returned, [K_auth.CHALLENGE ++ const20 7 20; K_auth.WELCOME; [1; 2; 3]]),
   (Returned, [[1; 2; 3]; K_auth.CHALLENGE ++ const20 9 20; K_auth.WELCOME])).
Proof. split; vm_compute; reflexivity. Qed.

Lemma code_empty_key_observation : forall mac ul uc n inc,
    run1 (code_listener mac (KBytes []) ul) inc = ([], Returned) /\
    code_handshake mac (2 + n) (KBytes []) (KBytes []) ul uc = ((Returned, []), (Starved, [])).
Proof. intros. split; reflexivity. Qed.

(* ------------------------------------------------------------------ *)
(* (SUPERSEDED by AuthKeyProofs.code_iff_same_key_refuted_any_mac, which holds for EVERY
   mac that normalises its key; this `exists mac` form is no longer quoted.)
   Without the no-collision hypothesis "success IFF same key" is FALSE: a MAC
   that normalises its key the way HMAC does (zero-padding to a block; here a
   block of 4) makes the distinct keys [1;2;3] and [1;2;3;0] authenticate each
   other.  (For the real HMAC-MD5 the same happens with b'k' / b'k\0'; the
   correspondence harness exhibits it on the real code.) *)
Definition pad_mac (k m : bytes) : bytes := firstn 4 (k ++ repeat 0 4) ++ m.

Lemma code_iff_same_key_refuted :
  exists mac kl kc ul uc,
    kl <> kc /\ kl <> [] /\ kc <> [] /\
    blen (ul 20) = 20 /\ blen (uc 20) = 20 /\
    blen (mac kc (ul 20)) <= 256 /\ blen (mac kl (uc 20)) <= 256 /\
    fst (fst (code_handshake mac 13 (KBytes kl) (KBytes kc) ul uc)) = Returned /\
    fst (snd (code_handshake mac 13 (KBytes kl) (KBytes kc) ul uc)) = Returned.
Proof.
  exists pad_mac, [1; 2; 3], [1; 2; 3; 0], (const20 7), (const20 9).
  repeat split; try discriminate; vm_compute; try reflexivity; discriminate.
Qed.
