(* C15, atomicity: `with v.get_lock(): v.value += 1` loses no update, for any number of
   threads, any number of iterations per thread and any interleaving. *)
From Coq Require Import ZArith List Bool Lia ZifyBool Arith.
From BV Require Import Lib.PyVal Model.Heap Model.SharedMem.
Import ListNotations.
Open Scope Z_scope.

(* lock depth a thread holds when it is about to execute instruction pc of incr_prog *)
Definition depth_at (pc : nat) : nat :=
  match pc with
  | 1 => 1 | 2 => 2 | 3 => 2 | 4 => 1 | 5 => 2 | 6 => 2 | 7 => 1 | _ => 0
  end%nat.

Definition holds_read (pc : nat) : bool :=      (* the register holds the current value *)
  match pc with 3 | 4 | 5 => true | _ => false end%nat.
Definition wrote (pc : nat) : bool :=           (* this iteration's store has been done *)
  match pc with 6 | 7 => true | _ => false end%nat.

(* completed increments of one thread, k = iterations it was started with *)
Definition contrib (k : nat) (t : thread) : Z :=
  Z.of_nat k - Z.of_nat (t_left t) + (if wrote (t_pc t) then 1 else 0).

Fixpoint total (k : nat) (l : list thread) : Z :=
  match l with [] => 0 | t :: r => contrib k t + total k r end.

Definition tinv (w : world) (i : nat) (t : thread) : Prop :=
  (t_pc t < 8)%nat /\
  (t_pc t = 0%nat -> forall d, w_owner w <> Some (i, d)) /\
  (t_pc t <> 0%nat -> w_owner w = Some (i, depth_at (t_pc t)) /\ (0 < t_left t)%nat) /\
  (holds_read (t_pc t) = true -> t_reg t = w_val w).

Definition WInv (k : nat) (v0 : Z) (w : world) : Prop :=
  (forall i t, nth_error (w_threads w) i = Some t -> tinv w i t /\ (t_left t <= k)%nat) /\
  w_val w = v0 + total k (w_threads w).

Lemma nth_set_nth_same {A} (l : list A) i x t :
  nth_error l i = Some t -> nth_error (set_nth l i x) i = Some x.
Proof.
  revert i. induction l as [|y r IH]; intros [|i]; cbn; try discriminate; auto.
Qed.

Lemma nth_set_nth_other {A} (l : list A) i j x : i <> j -> nth_error (set_nth l i x) j = nth_error l j.
Proof.
  revert i j. induction l as [|y r IH]; intros [|i] [|j] H; cbn; try reflexivity; try congruence.
  apply IH. congruence.
Qed.

Lemma total_set_nth k l i t x : nth_error l i = Some t ->
  total k (set_nth l i x) = total k l - contrib k t + contrib k x.
Proof.
  revert i. induction l as [|y r IH]; intros [|i]; cbn [nth_error set_nth total]; try discriminate.
  - intros H; inversion H; subst. lia.
  - intros H. rewrite (IH _ H). lia.
Qed.

Lemma init_inv k v0 n : WInv k v0 (world_init v0 n k).
Proof.
  split.
  - intros i t H. unfold world_init in H. cbn [w_threads] in H.
    apply nth_error_In, repeat_spec in H. subst t. split; [|cbn [t_left]; lia].
    unfold tinv. cbn [t_pc t_left t_reg w_owner w_val holds_read].
    split; [lia|]. split; [intros _ d; discriminate|]. split; [intros H; exfalso; apply H; reflexivity|discriminate].
  - unfold world_init. cbn [w_val w_threads]. induction n as [|m IH]; cbn [repeat total]; [lia|].
    unfold contrib at 1. cbn. lia.
Qed.

(* whoever can take a step: all other threads are outside the critical section *)
Lemma others_outside k v0 w i t w' :
  WInv k v0 w -> nth_error (w_threads w) i = Some t -> wstep incr_prog w i = Some w' ->
  forall j u, j <> i -> nth_error (w_threads w) j = Some u -> t_pc u = 0%nat.
Proof.
  intros [HT _] Hi Hs j u Hne Hj.
  destruct (Nat.eq_dec (t_pc u) 0) as [|Hpc]; [assumption|exfalso].
  destruct (HT j u Hj) as [[_ [_ [Hown _]]] _]. destruct (Hown Hpc) as [Ho _].
  destruct (HT i t Hi) as [[Hlt [H0 [Hn0 _]]] _].
  destruct (Nat.eq_dec (t_pc t) 0) as [Hz|Hnz].
  - (* i is at the outer Acq: the lock would have to be free or its own *)
    unfold wstep in Hs. rewrite Hi in Hs. destruct (Nat.eqb (t_left t) 0); [discriminate|].
    rewrite Hz in Hs. cbn [nth_error incr_prog] in Hs. rewrite Ho in Hs.
    destruct (Nat.eqb j i) eqn:E; [apply Nat.eqb_eq in E; contradiction|discriminate].
  - destruct (Hn0 Hnz) as [Ho' _]. rewrite Ho in Ho'. inversion Ho'. contradiction.
Qed.

Lemma step_inv k v0 w i w' : WInv k v0 w -> wstep incr_prog w i = Some w' -> WInv k v0 w'.
Proof.
  intros HW Hs. pose proof HW as [HT HV].
  unfold wstep in Hs. destruct (nth_error (w_threads w) i) as [t|] eqn:Hi; [|discriminate].
  pose proof (others_outside k v0 w i t w' HW Hi) as Hout.
  unfold wstep in Hout. rewrite Hi in Hout.
  destruct (Nat.eqb (t_left t) 0) eqn:El; [discriminate|]. apply Nat.eqb_neq in El.
  destruct (HT i t Hi) as [[Hlt [H0 [Hn0 Hrd]]] Hk].
  (* a generic closing argument: given the new world, re-establish the invariant *)
  assert (Hclose : forall own' val' t',
      w' = mk_world own' val' (set_nth (w_threads w) i t') ->
      tinv w' i t' -> (t_left t' <= k)%nat ->
      (forall j d, j <> i -> own' <> Some (j, d)) ->
      val' = w_val w - contrib k t + contrib k t' ->
      (forall j u, j <> i -> nth_error (w_threads w) j = Some u -> t_pc u = 0%nat) ->
      WInv k v0 w').
  { intros own' val' t' -> Hti Hk' Hown Hval Hothers. split.
    - intros j u Hj. cbn [w_threads] in Hj. destruct (Nat.eq_dec i j) as [<-|Hne].
      + rewrite (nth_set_nth_same _ _ _ _ Hi) in Hj. inversion Hj; subst u. split; assumption.
      + rewrite nth_set_nth_other in Hj by assumption.
        destruct (HT j u Hj) as [_ Hku]. split; [|assumption].
        pose proof (Hothers j u (not_eq_sym Hne) Hj) as Hz. unfold tinv. rewrite Hz. cbn [w_owner w_val].
        split; [lia|]. split; [intros _ d; apply Hown; congruence|].
        split; [intros H; exfalso; apply H; reflexivity|cbn; discriminate].
    - cbn [w_val w_threads]. rewrite (total_set_nth _ _ _ _ _ Hi). lia. }
  (* case analysis on the program counter *)
  remember (t_pc t) as pc eqn:Hpc.
  assert (Hadv : forall t0, t_pc t0 = pc -> t_left t0 = t_left t ->
            advance incr_prog t0 = if Nat.eqb (S pc) 8 then mk_thread 0 (t_reg t0) (pred (t_left t))
                                   else mk_thread (S pc) (t_reg t0) (t_left t)).
  { intros t0 E1 E2. unfold advance. rewrite E1, E2. reflexivity. }
  destruct pc as [|[|[|[|[|[|[|[|pc]]]]]]]]; [| | | | | | | |lia];
    cbn [nth_error incr_prog] in Hs, Hout.
  - (* 0: outer Acq *)
    assert (Hfree : w_owner w = None).
    { destruct (w_owner w) as [[o d]|] eqn:Eo; [|reflexivity].
      destruct (Nat.eqb o i) eqn:E; [|discriminate]. apply Nat.eqb_eq in E; subst o.
      exfalso. eapply (H0 eq_refl). reflexivity. }
    rewrite Hfree in Hs, Hout. specialize (Hout Hs). injection Hs as Hw'. rewrite (Hadv t (eq_sym Hpc) eq_refl) in Hw'. cbn [Nat.eqb] in Hw'. subst w'.
    eapply Hclose; [reflexivity| | | | |exact Hout].
    + unfold tinv. cbn. split; [lia|]. split; [discriminate|]. split; [intros _; split; [reflexivity|lia]|discriminate].
    + cbn. assumption.
    + intros j d Hne E. congruence.
    + unfold contrib. rewrite <- Hpc. cbn. lia.
  - (* 1: inner Acq of getvalue *)
    destruct (Hn0 ltac:(lia)) as [Ho Hl]. rewrite Ho in Hs, Hout. rewrite Nat.eqb_refl in Hs, Hout.
    specialize (Hout Hs). injection Hs as Hw'. rewrite (Hadv t (eq_sym Hpc) eq_refl) in Hw'. cbn [Nat.eqb] in Hw'. subst w'.
    eapply Hclose; [reflexivity| | | | |exact Hout].
    + unfold tinv. cbn. split; [lia|]. split; [discriminate|]. split; [intros _; split; [reflexivity|lia]|discriminate].
    + cbn. assumption.
    + intros j d Hne E. congruence.
    + unfold contrib. rewrite <- Hpc. cbn. lia.
  - (* 2: Read *)
    destruct (Hn0 ltac:(lia)) as [Ho Hl].
    specialize (Hout Hs). injection Hs as Hw'. rewrite (Hadv (mk_thread 2 (w_val w) (t_left t)) eq_refl eq_refl) in Hw'. cbn [Nat.eqb t_reg] in Hw'. subst w'.
    eapply Hclose; [reflexivity| | | | |exact Hout].
    + unfold tinv. cbn. split; [lia|]. split; [discriminate|]. split; [intros _; split; [exact Ho|lia]|reflexivity].
    + cbn. assumption.
    + intros j d Hne E. congruence.
    + unfold contrib. rewrite <- Hpc. cbn. lia.
  - (* 3: Rel of getvalue *)
    destruct (Hn0 ltac:(lia)) as [Ho Hl]. rewrite Ho in Hs, Hout. rewrite Nat.eqb_refl in Hs, Hout.
    specialize (Hout Hs). injection Hs as Hw'. rewrite (Hadv t (eq_sym Hpc) eq_refl) in Hw'. cbn [Nat.eqb depth_at pred] in Hw'. subst w'.
    eapply Hclose; [reflexivity| | | | |exact Hout].
    + unfold tinv. cbn. split; [lia|]. split; [discriminate|]. split; [intros _; split; [reflexivity|lia]|intros _; apply Hrd; reflexivity].
    + cbn. assumption.
    + intros j d Hne E. congruence.
    + unfold contrib. rewrite <- Hpc. cbn. lia.
  - (* 4: inner Acq of setvalue *)
    destruct (Hn0 ltac:(lia)) as [Ho Hl]. rewrite Ho in Hs, Hout. rewrite Nat.eqb_refl in Hs, Hout.
    specialize (Hout Hs). injection Hs as Hw'. rewrite (Hadv t (eq_sym Hpc) eq_refl) in Hw'. cbn [Nat.eqb depth_at] in Hw'. subst w'.
    eapply Hclose; [reflexivity| | | | |exact Hout].
    + unfold tinv. cbn. split; [lia|]. split; [discriminate|]. split; [intros _; split; [reflexivity|lia]|intros _; apply Hrd; reflexivity].
    + cbn. assumption.
    + intros j d Hne E. congruence.
    + unfold contrib. rewrite <- Hpc. cbn. lia.
  - (* 5: Write *)
    destruct (Hn0 ltac:(lia)) as [Ho Hl]. pose proof (Hrd eq_refl) as Hreg.
    specialize (Hout Hs). injection Hs as Hw'. rewrite (Hadv t (eq_sym Hpc) eq_refl) in Hw'. cbn [Nat.eqb] in Hw'. subst w'.
    eapply Hclose; [reflexivity| | | | |exact Hout].
    + unfold tinv. cbn. split; [lia|]. split; [discriminate|]. split; [intros _; split; [exact Ho|lia]|discriminate].
    + cbn. assumption.
    + intros j d Hne E. congruence.
    + unfold contrib. rewrite <- Hpc. cbn. lia.
  - (* 6: Rel of setvalue *)
    destruct (Hn0 ltac:(lia)) as [Ho Hl]. rewrite Ho in Hs, Hout. rewrite Nat.eqb_refl in Hs, Hout.
    specialize (Hout Hs). injection Hs as Hw'. rewrite (Hadv t (eq_sym Hpc) eq_refl) in Hw'. cbn [Nat.eqb depth_at pred] in Hw'. subst w'.
    eapply Hclose; [reflexivity| | | | |exact Hout].
    + unfold tinv. cbn. split; [lia|]. split; [discriminate|]. split; [intros _; split; [reflexivity|lia]|discriminate].
    + cbn. assumption.
    + intros j d Hne E. congruence.
    + unfold contrib. rewrite <- Hpc. cbn. lia.
  - (* 7: outer Rel; the iteration is complete *)
    destruct (Hn0 ltac:(lia)) as [Ho Hl]. rewrite Ho in Hs, Hout. rewrite Nat.eqb_refl in Hs, Hout.
    specialize (Hout Hs). injection Hs as Hw'. rewrite (Hadv t (eq_sym Hpc) eq_refl) in Hw'. cbn [Nat.eqb depth_at] in Hw'. subst w'.
    eapply Hclose; [reflexivity| | | | |exact Hout].
    + unfold tinv. cbn. split; [lia|]. split; [intros _ d; discriminate|]. split; [intros H; exfalso; apply H; reflexivity|discriminate].
    + cbn. lia.
    + intros j d Hne E. discriminate.
    + unfold contrib. rewrite <- Hpc. cbn. lia.
Qed.

Lemma run_inv k v0 sched : forall w, WInv k v0 w -> WInv k v0 (wrun incr_prog w sched).
Proof.
  induction sched as [|i r IH]; intros w HW; cbn [wrun]; [assumption|].
  destruct (wstep incr_prog w i) as [w'|] eqn:E; [apply IH; eapply step_inv; eassumption|apply IH; assumption].
Qed.

Lemma total_done k l : (forall t, In t l -> t_left t = 0%nat /\ t_pc t = 0%nat) ->
  total k l = Z.of_nat (length l) * Z.of_nat k.
Proof.
  induction l as [|t r IH]; intros H; cbn [total length]; [lia|].
  rewrite IH by (intros u Hu; apply H; right; assumption).
  destruct (H t (or_introl eq_refl)) as [Hl Hp]. unfold contrib. rewrite Hl, Hp. cbn [wrote]. rewrite Nat2Z.inj_succ. nia.
Qed.

Lemma wrun_nthreads sched : forall w, length (w_threads (wrun incr_prog w sched)) = length (w_threads w).
Proof.
  assert (Hlen : forall {A} (l : list A) i x, length (set_nth l i x) = length l).
  { intros A l. induction l as [|y r IH]; intros [|i] x; cbn; auto. }
  induction sched as [|i r IH]; intros w; cbn [wrun]; [reflexivity|].
  destruct (wstep incr_prog w i) as [w'|] eqn:E; [|apply IH].
  rewrite IH. unfold wstep in E.
  destruct (nth_error (w_threads w) i) as [t|]; [|discriminate].
  destruct (Nat.eqb (t_left t) 0); [discriminate|].
  destruct (nth_error incr_prog (t_pc t)) as [[| | |]|]; try discriminate.
  - destruct (w_owner w) as [[o d]|]; [destruct (Nat.eqb o i); [|discriminate]|]; inversion E; cbn; apply Hlen.
  - destruct (w_owner w) as [[o d]|]; [destruct (Nat.eqb o i); [|discriminate]|discriminate]; inversion E; cbn; apply Hlen.
  - inversion E; cbn; apply Hlen.
  - inversion E; cbn; apply Hlen.
Qed.

(* no lost update: at every moment the value is the initial one plus the number of completed
   stores, and once all threads are finished it is v0 + n*k *)
Theorem no_lost_update n k v0 sched :
  let w := wrun incr_prog (world_init v0 n k) sched in
  w_val w = v0 + total k (w_threads w) /\
  (all_done w = true -> w_val w = v0 + Z.of_nat n * Z.of_nat k).
Proof.
  intros w. pose proof (run_inv k v0 sched _ (init_inv k v0 n)) as [HT HV]. fold w in HT, HV.
  split; [assumption|]. intros Hd. rewrite HV. f_equal.
  rewrite total_done.
  - unfold w. rewrite wrun_nthreads. unfold world_init. cbn [w_threads]. rewrite repeat_length. reflexivity.
  - intros t Ht. unfold all_done in Hd. rewrite forallb_forall in Hd. specialize (Hd t Ht).
    apply Nat.eqb_eq in Hd. split; [assumption|].
    apply In_nth_error in Ht as [i Hi]. destruct (HT i t Hi) as [[_ [_ [Hn0 _]]] _].
    destruct (Nat.eq_dec (t_pc t) 0) as [|Hne]; [assumption|]. destruct (Hn0 Hne). lia.
Qed.

(* mutual exclusion as such: at most one thread is between its outer Acq and outer Rel *)
Theorem mutual_exclusion n k v0 sched i j ti tj :
  let w := wrun incr_prog (world_init v0 n k) sched in
  nth_error (w_threads w) i = Some ti -> nth_error (w_threads w) j = Some tj ->
  t_pc ti <> 0%nat -> t_pc tj <> 0%nat -> i = j.
Proof.
  intros w Hi Hj Pi Pj. pose proof (run_inv k v0 sched _ (init_inv k v0 n)) as [HT _]. fold w in HT.
  destruct (HT i ti Hi) as [[_ [_ [Hni _]]] _]. destruct (HT j tj Hj) as [[_ [_ [Hnj _]]] _].
  destruct (Hni Pi) as [Ei _]. destruct (Hnj Pj) as [Ej _]. rewrite Ei in Ej. inversion Ej. reflexivity.
Qed.


(* ---- no deadlock ---- *)
(* the lock owner is always an existing thread inside its critical section *)
Definition OInv (w : world) : Prop :=
  forall o d, w_owner w = Some (o, d) ->
              exists t, nth_error (w_threads w) o = Some t /\ t_pc t <> 0%nat.

Lemma step_shape w i w' : wstep incr_prog w i = Some w' ->
  (w_owner w' = None \/ (exists d, w_owner w' = Some (i, d)) \/ w_owner w' = w_owner w) /\
  exists t t', nth_error (w_threads w) i = Some t /\ w_threads w' = set_nth (w_threads w) i t'.
Proof.
  unfold wstep. destruct (nth_error (w_threads w) i) as [t|] eqn:Hi; [|discriminate].
  destruct (Nat.eqb (t_left t) 0); [discriminate|].
  destruct (nth_error incr_prog (t_pc t)) as [[| | |]|]; try discriminate.
  - destruct (w_owner w) as [[o d]|]; [destruct (Nat.eqb o i); [|discriminate]|];
      intros H; inversion H; cbn; (split; [right; left; eexists; reflexivity|eauto]).
  - destruct (w_owner w) as [[o d]|]; [destruct (Nat.eqb o i); [|discriminate]|discriminate].
    intros H; inversion H; cbn. split; [|eauto].
    destruct d as [|[|d']]; [right; left; eexists; reflexivity|left; reflexivity|right; left; eexists; reflexivity].
  - intros H; inversion H; cbn. split; [right; right; reflexivity|eauto].
  - intros H; inversion H; cbn. split; [right; right; reflexivity|eauto].
Qed.

Lemma step_oinv k v0 w i w' : WInv k v0 w -> OInv w -> wstep incr_prog w i = Some w' -> OInv w'.
Proof.
  intros HW HO Hs. pose proof (step_inv k v0 w i w' HW Hs) as [HT' _].
  destruct (step_shape w i w' Hs) as [Hown [t [t' [Hi Hth]]]].
  assert (Hi' : nth_error (w_threads w') i = Some t') by (rewrite Hth; eapply nth_set_nth_same; eassumption).
  assert (Hmine : forall d, w_owner w' = Some (i, d) -> exists u, nth_error (w_threads w') i = Some u /\ t_pc u <> 0%nat).
  { intros d Ho. exists t'. split; [assumption|]. destruct (HT' i t' Hi') as [[_ [H0 _]] _].
    intros Hz. eapply (H0 Hz). exact Ho. }
  intros o d Ho. destruct Hown as [Hn|[[d' Hd]|Hsame]].
  - rewrite Hn in Ho. discriminate.
  - rewrite Hd in Ho. inversion Ho; subst o d'. eapply Hmine. exact Hd.
  - destruct (Nat.eq_dec o i) as [->|Hne]; [eapply Hmine; exact Ho|].
    rewrite Hsame in Ho. destruct (HO o d Ho) as [u [Hu Hpc]].
    exists u. split; [|assumption]. rewrite Hth. rewrite nth_set_nth_other by congruence. assumption.
Qed.

Lemma run_inv2 k v0 sched : forall w, WInv k v0 w -> OInv w ->
  WInv k v0 (wrun incr_prog w sched) /\ OInv (wrun incr_prog w sched).
Proof.
  induction sched as [|i r IH]; intros w HW HO; cbn [wrun]; [split; assumption|].
  destruct (wstep incr_prog w i) as [w'|] eqn:E; [|apply IH; assumption].
  apply IH; [eapply step_inv; eassumption|eapply step_oinv; eassumption].
Qed.

Theorem no_deadlock n k v0 sched :
  let w := wrun incr_prog (world_init v0 n k) sched in
  all_done w = false -> exists i w', wstep incr_prog w i = Some w'.
Proof.
  intros w Hnd.
  destruct (run_inv2 k v0 sched _ (init_inv k v0 n)) as [[HT _] HO]; [intros o d H; discriminate|].
  fold w in HT, HO.
  destruct (w_owner w) as [[o d]|] eqn:Eo.
  - destruct (HO o d Eo) as [t [Ht Hpc]].
    destruct (HT o t Ht) as [[Hlt [_ [Hn0 _]]] _]. destruct (Hn0 Hpc) as [Hown Hl].
    exists o. unfold wstep. rewrite Ht. destruct (Nat.eqb (t_left t) 0) eqn:El; [apply Nat.eqb_eq in El; lia|].
    rewrite Eo in Hown. inversion Hown as [Hd].
    destruct (t_pc t) as [|[|[|[|[|[|[|[|pc]]]]]]]]; try lia; try (exfalso; apply Hpc; reflexivity);
      cbn [nth_error incr_prog]; rewrite ?Eo, ?Nat.eqb_refl; eexists; reflexivity.
  - assert (exists j u, nth_error (w_threads w) j = Some u /\ t_left u <> 0%nat) as [j [u [Hj Hl]]].
    { unfold all_done in Hnd. clear - Hnd. induction (w_threads w) as [|x r IH]; cbn in Hnd; [discriminate|].
      destruct (Nat.eqb (t_left x) 0) eqn:E; cbn in Hnd.
      - destruct (IH Hnd) as [j [u [Hj Hl]]]. exists (S j), u. split; assumption.
      - exists O, x. split; [reflexivity|apply Nat.eqb_neq; assumption]. }
    destruct (HT j u Hj) as [[_ [_ [Hn0 _]]] _].
    assert (Hpc : t_pc u = 0%nat).
    { destruct (Nat.eq_dec (t_pc u) 0) as [|Hne]; [assumption|]. destruct (Hn0 Hne) as [E _]. rewrite Eo in E. discriminate. }
    exists j. unfold wstep. rewrite Hj. destruct (Nat.eqb (t_left u) 0) eqn:El; [apply Nat.eqb_eq in El; contradiction|].
    rewrite Hpc. cbn [nth_error incr_prog]. rewrite Eo. eexists; reflexivity.
Qed.

(* the lock is what makes it work: without the outer `with`, two threads can lose an update
   (each access is still individually locked) *)
Theorem unlocked_loses_update :
  exists sched, let w := wrun incr_unlocked_prog (world_init 0 2 1) sched in
                all_done w = true /\ w_val w = 1.
Proof.
  exists [0; 0; 0; 1; 1; 1; 0; 0; 0; 1; 1; 1]%nat. vm_compute. split; reflexivity.
Qed.
