(* C14, part 2: the index invariant.  _lengths, _len_to_seq, _start_to_block and
   _stop_to_block describe one duplicate-free list of free blocks F; removing a block
   (Heap._absorb, the found-branch of Heap._malloc) and inserting one (tail of
   Heap._free) never raise and change F by exactly that block. *)
From Coq Require Import ZArith List Bool Lia ZifyBool Permutation.
From BV Require Import Lib.PyVal Model.Heap Proofs.HeapLib.
Import ListNotations.
Open Scope Z_scope.

Lemma zeqb_spec (a b : Z) : Z.eqb a b = true <-> a = b.
Proof. apply Z.eqb_eq. Qed.
Lemma key_eqb_spec (a b : key) : key_eqb a b = true <-> a = b.
Proof.
  destruct a as [a1 a2], b as [b1 b2]. unfold key_eqb. cbn [fst snd].
  rewrite andb_true_iff, !Z.eqb_eq. split; [intros [-> ->]; reflexivity|intros H; inversion H; auto].
Qed.
Lemma block_eqb_spec (a b : block) : block_eqb a b = true <-> a = b.
Proof.
  destruct a as [[a1 a2] a3], b as [[b1 b2] b3]. unfold block_eqb, b_arena, b_start, b_stop. cbn [fst snd].
  rewrite !andb_true_iff, !Z.eqb_eq. split; [intros [[-> ->] ->]; reflexivity|intros H; inversion H; auto].
Qed.

Definition Fd (d : list (Z * list block)) : list block := concat (map snd d).

Lemma Fd_perm d d' : Permutation d d' -> Permutation (Fd d) (Fd d').
Proof. intros H. apply perm_concat, Permutation_map, H. Qed.

Record LInv (ls : list Z) (d : list (Z * list block)) : Prop := {
  l_sorted : allpairs Z.lt ls;
  l_keys : forall l, In l ls <-> In l (map fst d);
  l_nodupk : NoDup (map fst d);
  l_seq : forall l seq, In (l, seq) d -> seq <> [] /\ forall b, In b seq -> blen b = l }.

Definition KInv (kf : block -> key) (d : list (key * block)) (Fl : list block) : Prop :=
  NoDup (map fst d) /\ forall k b, In (k, b) d <-> In b Fl /\ k = kf b.

Record IdxInv (h : heap) : Prop := {
  i_l : LInv (lengths h) (l2s h);
  i_nd : NoDup (F h);
  i_s : KInv skey (s2b h) (F h);
  i_e : KInv ekey (e2b h) (F h) }.

Definition frame (h h' : heap) : Prop :=
  alloc h' = alloc h /\ arenas h' = arenas h /\ nsize h' = nsize h /\ pending h' = pending h.

Lemma LInv_perm ls d d' : Permutation d d' -> LInv ls d -> LInv ls d'.
Proof.
  intros HP [H1 H2 H3 H4]. constructor.
  - assumption.
  - intros l. rewrite H2. split; apply Permutation_in; [|apply Permutation_sym]; apply Permutation_map, HP.
  - eapply perm_keys_nodup; eassumption.
  - intros l seq Hin. apply H4. eapply Permutation_in; [apply Permutation_sym; eassumption|assumption].
Qed.

Lemma LInv_remove_last ls ls' len seq rest :
  LInv ls ((len, seq) :: rest) -> Permutation ls (len :: ls') -> allpairs Z.lt ls' -> LInv ls' rest.
Proof.
  intros [H1 H2 H3 H4] HP Hs. cbn in H3. inversion H3 as [|? ? Hni Hnd]; subst.
  assert (Hndl : NoDup (len :: ls')) by (eapply Permutation_NoDup; [eassumption|apply allpairs_lt_nodup; assumption]).
  inversion Hndl as [|? ? Hni' _]; subst.
  constructor.
  - assumption.
  - intros l. split.
    + intros Hl. assert (Hl2 : In l ls) by (eapply Permutation_in; [apply Permutation_sym; eassumption|right; assumption]).
      apply H2 in Hl2. cbn in Hl2. destruct Hl2 as [->|]; [contradiction|assumption].
    + intros Hl. assert (Hl2 : In l ls) by (apply H2; cbn; right; assumption).
      eapply Permutation_in in Hl2; [|eassumption]. destruct Hl2 as [<-|]; [contradiction|assumption].
  - assumption.
  - intros l s Hin. apply H4. right; assumption.
Qed.

Lemma LInv_replace ls len seq seq' rest :
  LInv ls ((len, seq) :: rest) -> seq' <> [] -> (forall b, In b seq' -> blen b = len) ->
  LInv ls ((len, seq') :: rest).
Proof.
  intros [H1 H2 H3 H4] Hne Hl. constructor; try assumption.
  intros l s [Heq|Hin]; [inversion Heq; subst; split; assumption|apply H4; right; assumption].
Qed.

Lemma LInv_new ls d len b :
  LInv ls d -> ~ In len (map fst d) -> blen b = len -> LInv (insort ls len) ((len, [b]) :: d).
Proof.
  intros [H1 H2 H3 H4] Hni Hb. constructor.
  - apply insort_sorted; [assumption|]. rewrite H2. assumption.
  - intros l. cbn. split.
    + intros Hl. eapply Permutation_in in Hl; [|apply insort_perm].
      destruct Hl as [<-|Hl]; [left; reflexivity|right; apply H2; assumption].
    + intros [<-|Hl]; (eapply Permutation_in; [apply Permutation_sym, insort_perm|]); [left; reflexivity|right; apply H2; assumption].
  - cbn. constructor; assumption.
  - intros l s [Heq|Hin]; [|apply H4; assumption].
    inversion Heq; subst. split; [discriminate|]. intros b0 [<-|[]]. reflexivity.
Qed.

(* ---- key dicts ---- *)
Lemma KInv_get kf d Fl k b : KInv kf d Fl -> dget key_eqb k d = Some b -> In b Fl /\ k = kf b.
Proof. intros [_ H] Hg. apply H. eapply dget_some_in; [apply key_eqb_spec|eassumption]. Qed.

Lemma KInv_get_in kf d Fl b : KInv kf d Fl -> In b Fl -> dget key_eqb (kf b) d = Some b.
Proof. intros [Hnd H] Hin. apply dget_in_nodup; [apply key_eqb_spec|assumption|]. apply H; auto. Qed.

Lemma KInv_get_none kf d Fl k : KInv kf d Fl -> dget key_eqb k d = None -> forall b, In b Fl -> kf b <> k.
Proof.
  intros HK Hg b Hin Heq. subst k. rewrite (KInv_get_in _ _ _ _ HK Hin) in Hg. discriminate.
Qed.

Lemma KInv_ext kf d Fl Fl2 : (forall x, In x Fl <-> In x Fl2) -> KInv kf d Fl -> KInv kf d Fl2.
Proof. intros Hext [H1 H2]. split; [assumption|]. intros k b. rewrite H2, Hext. reflexivity. Qed.

Lemma KInv_remove kf d Fl Fl' b :
  KInv kf d Fl -> NoDup Fl -> Permutation Fl (b :: Fl') ->
  exists d', ddel key_eqb (kf b) d = Some d' /\ KInv kf d' Fl'.
Proof.
  intros HK Hnd HP.
  assert (Hb : In b Fl) by (eapply Permutation_in; [apply Permutation_sym; eassumption|left; reflexivity]).
  pose proof (KInv_get_in _ _ _ _ HK Hb) as Hg.
  destruct (dget_some_ddel key_eqb key_eqb_spec _ _ _ Hg) as [d' [Hd HPd]].
  exists d'. split; [assumption|]. destruct HK as [HK1 HK2].
  assert (Hnd2 : NoDup (map fst ((kf b, b) :: d'))) by (eapply perm_keys_nodup; eassumption).
  cbn in Hnd2. inversion Hnd2 as [|? ? Hni Hnd3]; subst.
  assert (HndF : NoDup (b :: Fl')) by (eapply Permutation_NoDup; eassumption).
  inversion HndF as [|? ? HniF _]; subst.
  split; [assumption|]. intros k x. split.
  - intros Hin. assert (Hin2 : In (k, x) d) by (eapply Permutation_in; [apply Permutation_sym; eassumption|right; assumption]).
    apply HK2 in Hin2. destruct Hin2 as [Hx ->]. split; [|reflexivity].
    eapply Permutation_in in Hx; [|eassumption]. destruct Hx as [<-|Hx]; [|assumption].
    exfalso. apply Hni. change (kf b) with (fst (kf b, b)). apply in_map. assumption.
  - intros [Hx ->]. assert (Hin : In (kf x, x) d).
    { apply HK2. split; [|reflexivity]. eapply Permutation_in; [apply Permutation_sym; eassumption|right; assumption]. }
    eapply Permutation_in in Hin; [|eassumption]. destruct Hin as [Heq|Hin]; [|assumption].
    inversion Heq; subst. contradiction.
Qed.

Lemma KInv_insert kf d Fl b :
  KInv kf d Fl -> (forall x, In x Fl -> kf x <> kf b) ->
  KInv kf (dset key_eqb (kf b) b d) (b :: Fl).
Proof.
  intros HK Hfresh.
  assert (Hg : dget key_eqb (kf b) d = None).
  { destruct (dget key_eqb (kf b) d) as [x|] eqn:E; [|reflexivity].
    destruct (KInv_get _ _ _ _ _ HK E) as [Hx Hk]. exfalso. eapply Hfresh; eauto. }
  unfold dset. rewrite (ddel_none key_eqb _ _ Hg).
  destruct HK as [HK1 HK2]. split.
  - cbn. constructor; [|assumption]. apply (dget_none key_eqb key_eqb_spec). assumption.
  - intros k x. cbn. rewrite HK2. split.
    + intros [Heq|[Hx ->]]; [inversion Heq; subst; auto|auto].
    + intros [[<-|Hx] ->]; [left; reflexivity|right; auto].
Qed.

(* ---- locating a free block in _len_to_seq ---- *)
Lemma F_locate h b : IdxInv h -> In b (F h) ->
  exists seq rest, dget Z.eqb (blen b) (l2s h) = Some seq /\ In b seq /\
                   ddel Z.eqb (blen b) (l2s h) = Some rest /\
                   Permutation (l2s h) ((blen b, seq) :: rest).
Proof.
  intros [HL _ _ _] Hin. unfold F in Hin.
  apply in_concat in Hin as [seq [Hseq Hb]]. apply in_map_iff in Hseq as [[len seq0] [Heq Hent]].
  cbn in Heq; subst seq0.
  assert (Hlen : blen b = len) by (apply (l_seq _ _ HL) in Hent; apply Hent; assumption).
  subst len.
  assert (Hget : dget Z.eqb (blen b) (l2s h) = Some seq)
    by (apply dget_in_nodup; [apply zeqb_spec|apply (l_nodupk _ _ HL)|assumption]).
  destruct (dget_some_ddel Z.eqb zeqb_spec _ _ _ Hget) as [rest [Hdel HP]].
  exists seq, rest. auto.
Qed.

(* common core of _absorb and of the found-branch of _malloc: the state after the block
   has been taken out of its length class and the length class possibly deleted *)
Lemma remove_core h b seq seq' rest ls' d1 d2 :
  IdxInv h ->
  Permutation (l2s h) ((blen b, seq) :: rest) ->
  Permutation seq (b :: seq') ->
  (seq' = [] -> Permutation (lengths h) (blen b :: ls') /\ allpairs Z.lt ls') ->
  ddel key_eqb (skey b) (s2b h) = Some d1 ->
  ddel key_eqb (ekey b) (e2b h) = Some d2 ->
  let h' := if is_nil seq'
            then mk_heap ls' rest d1 d2 (alloc h) (arenas h) (nsize h) (pending h)
            else mk_heap (lengths h) ((blen b, seq') :: rest) d1 d2 (alloc h) (arenas h) (nsize h) (pending h) in
  IdxInv h' /\ Permutation (F h) (b :: F h').
Proof.
  intros [HL Hnd Hs He] HP Hseq Hls Hd1 Hd2 h'.
  assert (HF : Permutation (F h) (b :: seq' ++ Fd rest)).
  { unfold F. eapply Permutation_trans; [apply Fd_perm; eassumption|].
    unfold Fd. cbn [map snd concat]. change (b :: seq' ++ concat (map snd rest)) with ((b :: seq') ++ concat (map snd rest)).
    apply Permutation_app_tail. assumption. }
  assert (HF' : F h' = seq' ++ Fd rest).
  { subst h'. destruct seq'; cbn [is_nil]; unfold F; cbn [l2s]; reflexivity. }
  assert (HndF : NoDup (b :: seq' ++ Fd rest)) by (eapply Permutation_NoDup; eassumption).
  destruct (KInv_remove _ _ _ _ _ Hs Hnd HF) as [d1' [Hd1' HK1]].
  destruct (KInv_remove _ _ _ _ _ He Hnd HF) as [d2' [Hd2' HK2]].
  rewrite Hd1 in Hd1'. inversion Hd1'; subst d1'. rewrite Hd2 in Hd2'. inversion Hd2'; subst d2'.
  split; [|rewrite HF'; assumption].
  pose proof (LInv_perm _ _ _ HP HL) as HL2.
  constructor; rewrite ?HF'.
  - subst h'. destruct seq' as [|x seq'']; cbn [is_nil lengths l2s].
    + destruct (Hls eq_refl) as [HPl Hsl]. eapply LInv_remove_last; eassumption.
    + eapply LInv_replace; [eassumption|discriminate|].
      intros b0 Hb0. apply (l_seq _ _ HL2 (blen b) seq); [left; reflexivity|].
      eapply Permutation_in; [apply Permutation_sym; eassumption|right; assumption].
  - inversion HndF; assumption.
  - subst h'. destruct seq'; cbn [is_nil s2b]; assumption.
  - subst h'. destruct seq'; cbn [is_nil e2b]; assumption.
Qed.

Lemma absorb_ok h b : IdxInv h -> In b (F h) ->
  exists h', absorb h b = OK h' /\ IdxInv h' /\ Permutation (F h) (b :: F h') /\ frame h h'.
Proof.
  intros HI Hin.
  destruct (F_locate h b HI Hin) as [seq [rest [Hget [Hb [Hdel HP]]]]].
  destruct (remove1_in block_eqb block_eqb_spec b seq Hb) as [seq' Hrem].
  pose proof (remove1_some block_eqb block_eqb_spec _ _ _ Hrem) as Hseq.
  assert (HF : Permutation (F h) (b :: seq' ++ Fd rest)).
  { unfold F. eapply Permutation_trans; [apply Fd_perm; eassumption|].
    unfold Fd. cbn [map snd concat]. change (b :: seq' ++ concat (map snd rest)) with ((b :: seq') ++ concat (map snd rest)).
    apply Permutation_app_tail. assumption. }
  destruct (KInv_remove _ _ _ _ _ (i_s _ HI) (i_nd _ HI) HF) as [d1 [Hd1 _]].
  destruct (KInv_remove _ _ _ _ _ (i_e _ HI) (i_nd _ HI) HF) as [d2 [Hd2 _]].
  (* the length entry, should the class become empty *)
  assert (Hlen : In (blen b) (lengths h)).
  { apply (l_keys _ _ (i_l _ HI)). apply (Permutation_in (l:=map fst ((blen b, seq) :: rest)));
      [apply Permutation_sym, Permutation_map; assumption|left; reflexivity]. }
  destruct (remove1_in Z.eqb zeqb_spec _ _ Hlen) as [ls' Hls'].
  pose proof (remove1_some Z.eqb zeqb_spec _ _ _ Hls') as HPl.
  pose proof (remove1_allpairs Z.eqb zeqb_spec Z.lt _ _ _ Hls' (l_sorted _ _ (i_l _ HI))) as Hsl.
  pose proof (remove_core h b seq seq' rest ls' d1 d2 HI HP Hseq (fun _ => conj HPl Hsl) Hd1 Hd2) as Hcore.
  cbv zeta in Hcore.
  unfold absorb, del_keys. rewrite Hd1, Hd2. cbn [bind].
  cbn [set_s2b set_e2b l2s lengths s2b e2b alloc arenas nsize pending]. rewrite Hget, Hrem.
  destruct (is_nil seq') eqn:En.
  - rewrite Hdel, Hls'. eexists. split; [reflexivity|].
    unfold set_l2s_lengths; cbn [set_s2b set_e2b l2s lengths s2b e2b alloc arenas nsize pending].
    destruct Hcore as [H1 H2]. split; [exact H1|]. split; [exact H2|]. repeat split.
  - unfold dset. rewrite Hdel. eexists. split; [reflexivity|].
    unfold set_l2s_lengths; cbn [set_s2b set_e2b l2s lengths s2b e2b alloc arenas nsize pending].
    destruct Hcore as [H1 H2]. split; [exact H1|]. split; [exact H2|]. repeat split.
Qed.

Lemma take_ok h i : IdxInv h -> (i < length (lengths h))%nat ->
  exists b h', take h i = OK (b, h') /\ In b (F h) /\ nth_error (lengths h) i = Some (blen b) /\
               IdxInv h' /\ Permutation (F h) (b :: F h') /\ frame h h'.
Proof.
  intros HI Hi.
  destruct (nth_error (lengths h) i) as [len|] eqn:Hnth; [|apply nth_error_None in Hnth; lia].
  assert (Hlen : In len (lengths h)) by (eapply nth_error_In; eassumption).
  apply (l_keys _ _ (i_l _ HI)) in Hlen. apply in_map_iff in Hlen as [[len0 seq] [Heq Hent]].
  cbn in Heq; subst len0.
  assert (Hget : dget Z.eqb len (l2s h) = Some seq)
    by (apply dget_in_nodup; [apply zeqb_spec|apply (l_nodupk _ _ (i_l _ HI))|assumption]).
  destruct (dget_some_ddel Z.eqb zeqb_spec _ _ _ Hget) as [rest [Hdel HP]].
  destruct (l_seq _ _ (i_l _ HI) _ _ Hent) as [Hne Hlens].
  pose proof (pop_last_spec seq) as Hpop.
  destruct (pop_last seq) as [[seq' b]|] eqn:Epop; [|contradiction].
  assert (Hb : In b seq) by (rewrite Hpop; apply in_or_app; right; left; reflexivity).
  assert (Hbl : blen b = len) by (apply Hlens; assumption). subst len.
  assert (Hseq : Permutation seq (b :: seq')).
  { rewrite Hpop. apply Permutation_sym, Permutation_cons_append. }
  assert (HF : Permutation (F h) (b :: seq' ++ Fd rest)).
  { unfold F. eapply Permutation_trans; [apply Fd_perm; eassumption|].
    unfold Fd. cbn [map snd concat]. change (b :: seq' ++ concat (map snd rest)) with ((b :: seq') ++ concat (map snd rest)).
    apply Permutation_app_tail. assumption. }
  destruct (KInv_remove _ _ _ _ _ (i_s _ HI) (i_nd _ HI) HF) as [d1 [Hd1 _]].
  destruct (KInv_remove _ _ _ _ _ (i_e _ HI) (i_nd _ HI) HF) as [d2 [Hd2 _]].
  pose proof (del_nth_perm _ _ _ Hnth) as HPl.
  pose proof (del_nth_allpairs Z.lt _ _ _ Hnth (l_sorted _ _ (i_l _ HI))) as Hsl.
  pose proof (remove_core h b seq seq' rest _ d1 d2 HI HP Hseq (fun _ => conj HPl Hsl) Hd1 Hd2) as Hcore.
  cbv zeta in Hcore.
  assert (HbF : In b (F h)) by (eapply Permutation_in; [apply Permutation_sym; eassumption|left; reflexivity]).
  exists b. unfold take. rewrite Hnth, Hget, Epop.
  destruct (is_nil seq') eqn:En.
  - rewrite Hdel. unfold del_keys, set_l2s_lengths. cbn [l2s lengths s2b e2b alloc arenas nsize pending].
    rewrite Hd1, Hd2. cbn [bind set_s2b set_e2b l2s lengths s2b e2b alloc arenas nsize pending].
    eexists. split; [reflexivity|]. destruct Hcore as [H1 H2].
    split; [assumption|]. split; [reflexivity|]. split; [exact H1|]. split; [exact H2|]. repeat split.
  - unfold dset. rewrite Hdel. unfold del_keys, set_l2s_lengths. cbn [l2s lengths s2b e2b alloc arenas nsize pending].
    rewrite Hd1, Hd2. cbn [bind set_s2b set_e2b l2s lengths s2b e2b alloc arenas nsize pending].
    eexists. split; [reflexivity|]. destruct Hcore as [H1 H2].
    split; [assumption|]. split; [reflexivity|]. split; [exact H1|]. split; [exact H2|]. repeat split.
Qed.

Lemma insert_ok h b : IdxInv h ->
  (forall x, In x (F h) -> skey x <> skey b /\ ekey x <> ekey b) ->
  IdxInv (free_insert h b) /\ Permutation (F (free_insert h b)) (b :: F h) /\ frame h (free_insert h b).
Proof.
  intros [HL Hnd Hs He] Hfresh.
  assert (HniF : ~ In b (F h)) by (intros Hin; destruct (Hfresh b Hin) as [H _]; apply H; reflexivity).
  unfold free_insert.
  destruct (dget Z.eqb (blen b) (l2s h)) as [seq|] eqn:Hget.
  - destruct (dget_some_ddel Z.eqb zeqb_spec _ _ _ Hget) as [rest [Hdel HP]].
    assert (E : dset Z.eqb (blen b) (seq ++ [b]) (l2s h) = (blen b, seq ++ [b]) :: rest)
      by (unfold dset; rewrite Hdel; reflexivity).
    rewrite E. unfold set_l2s_lengths, set_s2b, set_e2b.
    cbn [l2s lengths s2b e2b alloc arenas nsize pending].
    assert (HF : Permutation (Fd ((blen b, seq ++ [b]) :: rest)) (b :: F h)).
    { unfold F. eapply Permutation_trans; [|apply perm_skip, Permutation_sym, Fd_perm; eassumption].
      unfold Fd. cbn [map snd concat]. rewrite <- app_assoc.
      change (b :: seq ++ concat (map snd rest)) with ((b :: seq) ++ concat (map snd rest)).
      rewrite app_assoc. apply Permutation_app_tail. apply Permutation_sym, Permutation_cons_append. }
    pose proof (LInv_perm _ _ _ HP HL) as HL2.
    split; [|split; [exact HF|repeat split]].
    constructor; unfold F; cbn [l2s lengths s2b e2b].
    + eapply LInv_replace; [eassumption|destruct seq; discriminate|].
      intros b0 Hb0. apply in_app_or in Hb0. destruct Hb0 as [Hb0|[<-|[]]]; [|reflexivity].
      apply (l_seq _ _ HL2 (blen b) seq); [left; reflexivity|assumption].
    + eapply Permutation_NoDup; [apply Permutation_sym; exact HF|]. constructor; assumption.
    + eapply KInv_ext; [|apply KInv_insert; [exact Hs|]].
      * intros x. split; apply Permutation_in; [apply Permutation_sym|]; exact HF.
      * intros x Hx. apply Hfresh; assumption.
    + eapply KInv_ext; [|apply KInv_insert; [exact He|]].
      * intros x. split; apply Permutation_in; [apply Permutation_sym|]; exact HF.
      * intros x Hx. apply Hfresh; assumption.
  - pose proof (ddel_none Z.eqb _ _ Hget) as Hdel.
    assert (E : dset Z.eqb (blen b) [b] (l2s h) = (blen b, [b]) :: l2s h)
      by (unfold dset; rewrite Hdel; reflexivity).
    rewrite E. unfold set_l2s_lengths, set_s2b, set_e2b.
    cbn [l2s lengths s2b e2b alloc arenas nsize pending].
    split; [|split; [unfold F; cbn [l2s map snd concat app]; apply Permutation_refl|repeat split]].
    constructor; unfold F; cbn [l2s lengths s2b e2b map snd concat app].
    + apply LInv_new; [assumption| |reflexivity]. apply (dget_none Z.eqb zeqb_spec). assumption.
    + constructor; assumption.
    + apply KInv_insert; [exact Hs|]. intros x Hx. apply Hfresh; assumption.
    + apply KInv_insert; [exact He|]. intros x Hx. apply Hfresh; assumption.
Qed.
