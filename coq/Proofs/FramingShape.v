(* C13: send_bytes on buffers of any shape (Model/Framing.v: pybuf, view_of,
   send_loop_sh, send_raw_sh, send_bytes_sh).
   Part 1: on every FLAT view (a 1-D buffer of bytes, or any buffer whose items
           are wider than a byte -- the code copies those into flat bytes) the
           general functions are the 1-D ones, so every theorem of
           FramingProofs.v applies; round trip restated for such buffers.
   Part 2: multi-dimensional buffers of single bytes: what exactly reaches the
           wire and what the receiver makes of it (header = number of ROWS).
   Part 3: the property statement is false for them: witnesses. *)
From Coq Require Import ZArith List Bool Lia ZifyBool.
From BV Require Import Model.Framing Proofs.FramingProofs.
Import ListNotations.
Open Scope Z_scope.

(* ------------------------------------------------------------------ *)
(* Part 1: flat views                                                   *)

Lemma sys_write_range k buf : 0 <= sys_write k buf <= len buf.
Proof. unfold sys_write. pose proof (len_nonneg buf). lia. Qed.

(* the write-all loop with rows of one byte and `remaining` = len(buf) is the
   1-D loop, for every script *)
Lemma send_loop_sh_flat : forall o buf, send_loop_sh 1 o (len buf) buf = send_loop o buf.
Proof.
  induction o as [|r o IH]; intros buf; cbn [send_loop_sh send_loop].
  - rewrite Z.sub_diag. reflexivity.
  - destruct r as [k| |].
    + pose proof (sys_write_range k buf) as Hn. set (n := sys_write k buf) in *.
      destruct (len buf - n =? 0); [reflexivity|].
      rewrite Z.mul_1_r.
      replace (len buf - n) with (len (drop n buf)) by (rewrite len_drop; lia).
      rewrite IH. reflexivity.
    + rewrite IH. reflexivity.
    + reflexivity.
Qed.

Lemma send_raw_sh_flat o m : send_raw_sh o (len m) 1 m = send_bytes_raw o m.
Proof.
  unfold send_raw_sh, send_bytes_raw. cbv zeta.
  destruct (len m >? MAXLEN); [reflexivity|].
  destruct (len m >? THRESH); [|reflexivity].
  destruct (send_loop o (be32 (len m))) as [[[o1 w1] t1] [e1|]]; [reflexivity|].
  rewrite send_loop_sh_flat. reflexivity.
Qed.

(* a view is flat when the code works on the bytes themselves *)
Definition flat_view (b : pybuf) : Prop :=
  pb_item b > 1 \/ pb_shape b = [len (pb_bytes b)].

Lemma flat_view_of b : flat_view b -> view_of b = Some (len (pb_bytes b), 1).
Proof.
  intros [H|H]; unfold view_of.
  - replace (pb_item b >? 1) with true by lia. reflexivity.
  - destruct (pb_item b >? 1); [reflexivity|]. rewrite H. reflexivity.
Qed.

Lemma flat_is_flat l : flat_view (flat l).
Proof. right. reflexivity. Qed.

(* send_bytes on a flat view = send_bytes on its bytes: same rejections, same
   bytes, same trace, for every script *)
Lemma send_bytes_sh_flat c o b off size :
  flat_view b -> send_bytes_sh c o b off size = send_bytes c o (pb_bytes b) off size.
Proof.
  intros Hf. unfold send_bytes_sh, send_bytes. rewrite (flat_view_of b Hf).
  destruct (send_args c (len (pb_bytes b)) off size) as [e|[lo hi]] eqn:Ea; [reflexivity|].
  apply send_args_spec in Ea. destruct Ea as (_ & Ho & -> & Hs).
  assert (Hh : off <= hi <= len (pb_bytes b)) by (destruct size; lia).
  rewrite !Z.mul_1_r.
  rewrite <- (len_slice off hi (pb_bytes b)) by lia.
  apply send_raw_sh_flat.
Qed.

Lemma send_bytes_sh_bytes c o l off size :
  send_bytes_sh c o (flat l) off size = send_bytes c o l off size.
Proof. apply (send_bytes_sh_flat c o (flat l)), flat_is_flat. Qed.

(* a send operation of any kind whose buffer is a flat view, whose arguments pass
   the checks and select the bytes m *)
Definition valid_send_any (c : conn) (op : sop) (m : list Z) : Prop :=
  valid_send c op m \/
  exists b off size lo hi,
    op = SSendSh b off size /\ flat_view b /\
    send_args c (len (pb_bytes b)) off size = inr (lo, hi) /\ m = slice lo hi (pb_bytes b).

Lemma run_sender_all_any : forall ops msgs c o,
    Forall2 (valid_send_any c) ops msgs -> ~ In WErr o -> Forall fits msgs ->
    exists t, run_sender c o ops = (wire_of msgs, t, map (fun _ => (0, flags c)) msgs).
Proof.
  intros ops msgs c o H. revert o. induction H as [|op m ops msgs Hv _ IH]; intros o Hn Hf.
  - exists []. reflexivity.
  - inversion Hf as [|? ? Hf1 Hf2]; subst.
    assert (Hgo : exists buf off size lo hi,
               send_args c (len buf) off size = inr (lo, hi) /\ m = slice lo hi buf /\
               forall r, run_sender c o (op :: r) =
                         (let '(o1, w1, t1, e) := send_bytes c o buf off size in
                          let '(w, t, obs) := run_sender c o1 r in
                          (w1 ++ w, t1 ++ t, (code_of e, flags c) :: obs))).
    { destruct Hv as [(buf & off & size & lo & hi & -> & Ha & ->)
                     |(b & off & size & lo & hi & -> & Hfl & Ha & ->)].
      - exists buf, off, size, lo, hi. repeat split; try assumption.
      - exists (pb_bytes b), off, size, lo, hi. repeat split; try assumption.
        intros r. cbn [run_sender]. rewrite (send_bytes_sh_flat c o b off size Hfl). reflexivity. }
    destruct Hgo as (buf & off & size & lo & hi & Ha & -> & Hrun).
    rewrite Hrun. rewrite (send_bytes_accepted _ _ _ _ _ _ _ Ha).
    destruct (send_bytes_raw o (slice lo hi buf)) as [[[o1 w1] t1] e1] eqn:E1.
    destruct (send_bytes_raw_spec _ _ _ _ _ _ E1) as ((r & Hb & Hr) & _ & _ & Hc & _ & Hi).
    specialize (Hc Hn Hf1). subst e1. rewrite (Hr eq_refl), app_nil_r in Hb.
    destruct (IH o1 (not_in_incl _ _ _ Hi Hn) Hf2) as (t & Et). rewrite Et.
    exists (t1 ++ t). unfold wire_of. cbn [map concat code_of]. rewrite Hb. reflexivity.
Qed.

(* ROUND TRIP for every flat view (1-D byte buffers, and buffers of any shape
   whose items are wider than a byte): strictly more send operations than
   FramingProofs.roundtrip, same conclusion *)
Lemma roundtrip_any sc rc wo ro ops msgs mxs rest :
  Forall2 (valid_send_any sc) ops msgs -> Forall fits msgs -> Forall2 max_ok msgs mxs ->
  openr rc -> ~ In WErr wo -> ~ In RErr ro ->
  exists tw tr,
    run_sender sc wo ops = (wire_of msgs, tw, map (fun _ => (0, flags sc)) msgs) /\
    run_receiver rc ro (wire_of msgs ++ rest) (recvs mxs) = (rest, tr, map (ok_obs rc) msgs).
Proof.
  intros Hv Hf Hm Hr Hw Hn.
  destruct (run_sender_all_any ops msgs sc wo Hv Hw Hf) as (tw & Es).
  destruct (run_receiver_all msgs mxs rc ro rest Hr Hn Hf Hm) as (tr & Er).
  exists tw, tr. split; assumption.
Qed.

(* on a flat view the bytes the code selects are the bytes the caller named *)
Lemma wanted_flat b off size c lo hi :
  send_args c (len (pb_bytes b)) off size = inr (lo, hi) ->
  wanted b off size = Some (slice lo hi (pb_bytes b)).
Proof.
  intros Ha. apply send_args_spec in Ha. destruct Ha as (_ & Ho & -> & Hs). unfold wanted.
  replace ((off <? 0) || (len (pb_bytes b) <? off)) with false by lia.
  destruct size as [sz|].
  - destruct Hs as (H1 & H2 & ->). replace ((sz <? 0) || (off + sz >? len (pb_bytes b))) with false by lia.
    reflexivity.
  - subst hi. reflexivity.
Qed.

(* ------------------------------------------------------------------ *)
(* Part 2: multi-dimensional buffers of single bytes                    *)

(* a buffer as the buffer protocol guarantees it *)
Definition wf_buf (b : pybuf) : Prop :=
  1 <= pb_item b /\ Forall (fun d => 0 <= d) (pb_shape b) /\
  len (pb_bytes b) = pb_item b * prod (pb_shape b).

Lemma prod_nonneg l : Forall (fun d => 0 <= d) l -> 0 <= prod l.
Proof. induction 1; cbn [prod fold_right]; [lia|]. fold (prod l). nia. Qed.

Lemma len_slice_le {A} lo hi (l : list A) : len (slice lo hi l) <= Z.max 0 (hi - lo).
Proof. unfold slice. rewrite len_take. lia. Qed.

(* item size 1, shape d0 :: rest (rows of rs = prod rest bytes), at most 16384
   rows selected: send_bytes writes, through the ordinary write-all loop,
   be32 (number of rows) followed by ALL the bytes of those rows *)
Lemma send_bytes_sh_rows c o b d0 rest off size lo hi :
  pb_item b <= 1 -> pb_shape b = d0 :: rest ->
  send_args c d0 off size = inr (lo, hi) -> hi - lo <= THRESH ->
  send_bytes_sh c o b off size =
  send_loop o (be32 (hi - lo) ++ slice (lo * prod rest) (hi * prod rest) (pb_bytes b)).
Proof.
  intros Hi Hs Ha Ht. unfold send_bytes_sh, view_of.
  replace (pb_item b >? 1) with false by lia. rewrite Hs, Ha.
  unfold send_raw_sh, MAXLEN. unfold THRESH in *.
  replace (hi - lo >? 2147483647) with false by lia.
  replace (hi - lo >? 16384) with false by lia. reflexivity.
Qed.

Lemma rows_payload_len b d0 rest lo hi :
  wf_buf b -> pb_item b <= 1 -> pb_shape b = d0 :: rest -> 0 <= lo <= hi -> hi <= d0 ->
  len (slice (lo * prod rest) (hi * prod rest) (pb_bytes b)) = (hi - lo) * prod rest.
Proof.
  intros (H1 & Hd & Hl) Hi Hs Hlo Hhi. rewrite Hs in Hd, Hl. inversion Hd as [|? ? Hd0 Hdr]; subst.
  pose proof (prod_nonneg rest Hdr) as Hp. cbn [prod fold_right] in Hl. fold (prod rest) in Hl.
  assert (pb_item b = 1) by lia.
  rewrite len_slice; nia.
Qed.

(* ... so without an OS error the wire holds a header announcing hi - lo bytes
   followed by (hi - lo) * rs bytes *)
Lemma shaped_wire c o b d0 rest off size lo hi :
  wf_buf b -> pb_item b <= 1 -> pb_shape b = d0 :: rest ->
  send_args c d0 off size = inr (lo, hi) -> hi - lo <= THRESH -> ~ In WErr o ->
  let p := slice (lo * prod rest) (hi * prod rest) (pb_bytes b) in
  exists o' t, send_bytes_sh c o b off size = (o', be32 (hi - lo) ++ p, t, None) /\
               len p = (hi - lo) * prod rest /\ incl o' o.
Proof.
  intros Hw Hi Hs Ha Ht Hn p.
  rewrite (send_bytes_sh_rows c o b d0 rest off size lo hi Hi Hs Ha Ht). fold p.
  destruct (send_loop o (be32 (hi - lo) ++ p)) as [[[o' w] t] e] eqn:E.
  destruct (send_loop_spec _ _ _ _ _ _ E) as ((r & Hb & Hr) & _ & Hc & Hinc).
  specialize (Hc Hn). subst e. rewrite (Hr eq_refl), app_nil_r in Hb. subst w.
  exists o', t. split; [reflexivity|]. split; [|exact Hinc].
  apply send_args_spec in Ha. destruct Ha as (_ & Ho & -> & Hsz).
  apply (rows_payload_len b d0 rest off hi Hw Hi Hs); destruct size; lia.
Qed.

(* what a receiver makes of such a wire: it returns only the first hi - lo bytes
   of the payload as "the message" and leaves the other (hi - lo) * (rs - 1)
   payload bytes in the stream, where the next header is expected *)
Lemma shaped_received c o k p rest :
  openr c -> ~ In RErr o -> 0 <= k <= len p -> k <= MAXLEN ->
  exists o' t, recv_bytes c o (be32 k ++ p ++ rest) None =
               (c, o', drop k p ++ rest, t, inr (take k p)) /\ incl o' o.
Proof.
  intros Hc Hn Hk Hm.
  assert (Hl : len (take k p) = k) by (rewrite len_take; lia).
  destruct (recv_bytes_ok c o (take k p) (drop k p ++ rest) None Hc Hn) as (o' & t & E & I).
  { unfold fits. lia. }
  { exact I. }
  exists o', t. split; [|exact I]. rewrite <- E. f_equal.
  unfold encode. rewrite Hl, <- !app_assoc. f_equal.
  rewrite app_assoc, take_drop. reflexivity.
Qed.

(* more than 16384 rows of at least two bytes, cooperative OS (empty script):
   the header and all the bytes are written, then `remaining` (rows - bytes) is
   not 0 and can never change again: send_bytes does not return *)
Lemma shaped_spins c b d0 rest :
  wf_buf b -> pb_item b <= 1 -> pb_shape b = d0 :: rest ->
  openw c -> THRESH < d0 <= MAXLEN -> 2 <= prod rest ->
  send_bytes_sh c [] b 0 None = ([], be32 d0 ++ pb_bytes b, [4; len (pb_bytes b)], Some ESpin).
Proof.
  intros Hw Hi Hs Hc Hd Hp.
  assert (Ha : send_args c d0 0 None = inr (0, d0)).
  { apply send_args_spec. split; [exact Hc|]. unfold THRESH in Hd. repeat split; lia. }
  unfold send_bytes_sh, view_of. replace (pb_item b >? 1) with false by lia. rewrite Hs, Ha.
  assert (Hl : len (pb_bytes b) = d0 * prod rest).
  { destruct Hw as (H1 & _ & Hl). rewrite Hs in Hl. cbn [prod fold_right] in Hl. fold (prod rest) in Hl.
    assert (H1' : pb_item b = 1) by lia. rewrite H1' in Hl. lia. }
  assert (Hsl : slice (0 * prod rest) (d0 * prod rest) (pb_bytes b) = pb_bytes b).
  { unfold slice. rewrite drop_nonpos by lia. apply take_all. lia. }
  rewrite Hsl. unfold send_raw_sh. rewrite Z.sub_0_r.
  replace (d0 >? MAXLEN) with false by lia. replace (d0 >? THRESH) with true by lia.
  cbn [send_loop send_loop_sh]. rewrite len_be32.
  replace (d0 - len (pb_bytes b) =? 0) with false by (unfold THRESH in *; nia).
  replace (len (pb_bytes b) =? 0) with false by (unfold THRESH in *; nia).
  reflexivity.
Qed.

(* ------------------------------------------------------------------ *)
(* Part 3: witnesses                                                    *)

(* bytes(range(12)) seen as 3 rows of 4 bytes *)
Definition w_grid : pybuf := mkbuf [0; 1; 2; 3; 4; 5; 6; 7; 8; 9; 10; 11] 1 [3; 4].
Definition w_next : list Z := [110; 101; 120; 116].          (* b"next" *)

Lemma w_grid_wf : wf_buf w_grid.
Proof. split; [cbn; lia|]. split; [repeat constructor; lia|reflexivity]. Qed.

(* "a message sent with send_bytes from any bytes-like object is received as
   exactly the same bytes, and the next message is intact" is FALSE:
   send_bytes(w_grid) and send_bytes(b"next") both return normally on a
   cooperative OS; the receiver gets b"\x00\x01\x02" for the first and
   OSError("got end of file during message") for the second *)
Lemma send_shaped_refuted :
  exists sc rc b off size m,
    wf_buf b /\ openw sc /\ openr rc /\ wanted b off size = Some m /\ fits m /\
    exists wire tw tr unread d,
      run_sender sc [] [SSendSh b off size; SSend w_next 0 None] =
        (wire, tw, [(0, flags sc); (0, flags sc)]) /\
      wire <> wire_of [m; w_next] /\
      run_receiver rc [] wire [RRecv None; RRecv None] =
        (unread, tr, [mk_robs 0 d (-1) [] (flags rc); mk_robs 105 [] (-1) [] (flags rc)]) /\
      d <> m.
Proof.
  exists (mkc false false true), (mkc false true false), w_grid, 0, None,
         [0; 1; 2; 3; 4; 5; 6; 7; 8; 9; 10; 11].
  split; [exact w_grid_wf|]. split; [split; reflexivity|]. split; [split; reflexivity|].
  split; [reflexivity|]. split; [vm_compute; discriminate|].
  eexists _, _, _, _, _. split; [vm_compute; reflexivity|].
  split; [vm_compute; discriminate|]. split; [vm_compute; reflexivity|discriminate].
Qed.

(* the general wire-format statement (C13_wire_format with the buffer's bytes)
   fails for a well-formed buffer: the wire is not the framing of what was named *)
Lemma shaped_wire_refuted :
  exists c b off size m w t,
    wf_buf b /\ wanted b off size = Some m /\
    send_bytes_sh c [] b off size = ([], w, t, None) /\ w <> encode m.
Proof.
  exists (mkc false false true), w_grid, 0, None, [0; 1; 2; 3; 4; 5; 6; 7; 8; 9; 10; 11].
  eexists _, _. split; [exact w_grid_wf|]. split; [reflexivity|].
  split; [vm_compute; reflexivity|vm_compute; discriminate].
Qed.

(* "send_bytes returns or raises" is false as well: 16385 rows of 2 bytes *)
Definition w_tall : pybuf := mkbuf (repeat 0 (Z.to_nat 32770)) 1 [16385; 2].

Lemma wanted_whole b : wanted b 0 None = Some (pb_bytes b).
Proof.
  unfold wanted. pose proof (len_nonneg (pb_bytes b)).
  replace ((0 <? 0) || (len (pb_bytes b) <? 0)) with false by lia.
  unfold slice. rewrite drop_nonpos by lia. rewrite take_all by lia. reflexivity.
Qed.

Lemma len_repeat (x : Z) n : 0 <= n -> len (repeat x (Z.to_nat n)) = n.
Proof. intros H. unfold len. rewrite (repeat_length x (Z.to_nat n)). lia. Qed.

Lemma send_shaped_spin_refuted :
  exists c b, wf_buf b /\ openw c /\ wanted b 0 None = Some (pb_bytes b) /\ fits (pb_bytes b) /\
              exists w t, send_bytes_sh c [] b 0 None = ([], w, t, Some ESpin).
Proof.
  exists (mkc false false true), w_tall.
  assert (Hw : wf_buf w_tall).
  { unfold wf_buf, w_tall; cbn [pb_item pb_shape pb_bytes].
    split; [lia|]. split; [repeat constructor; lia|rewrite len_repeat by lia; reflexivity]. }
  split; [exact Hw|]. split; [split; reflexivity|].
  split; [apply wanted_whole|].
  split; [unfold fits, w_tall, MAXLEN; cbn [pb_bytes]; rewrite len_repeat by lia; lia|].
  eexists _, _.
  apply (shaped_spins (mkc false false true) w_tall 16385 [2] Hw).
  - cbn [w_tall pb_item]; lia.
  - reflexivity.
  - split; reflexivity.
  - unfold THRESH, MAXLEN; lia.
  - cbn [prod fold_right]; lia.
Qed.

(* ------------------------------------------------------------------ *)
(* Part 4: recv_bytes_into on buffers of any shape                      *)

(* a 1-D buffer of len buf / it items: the function of FramingProofs.v, so
   C13_buffer_too_short / C13_into_delivers / C13_into_unaligned_refuted apply *)
Lemma into_sh_1d c o stream buf it off :
  recv_bytes_into_sh c o stream buf it [len buf / it] off = recv_bytes_into c o stream buf it off.
Proof.
  unfold recv_bytes_into_sh, recv_bytes_into, readinto_sh, readinto.
  cbn [prod fold_right]. rewrite Z.mul_1_r. reflexivity.
Qed.

(* what holds for every shape: offset 0, whole items, and the message no longer
   than itemsize * FIRST DIMENSION: it lands at the start, the rest is unchanged *)
Lemma into_sh_ok_at_0 c o m rest_s buf it d0 rest :
  openr c -> ~ In RErr o -> fits m ->
  0 < it -> len m mod it = 0 -> 1 <= prod rest -> len m <= it * d0 ->
  exists o' t, recv_bytes_into_sh c o (encode m ++ rest_s) buf it (d0 :: rest) 0 =
               (c, o', rest_s, t, inr (len m, m ++ drop (len m) buf)) /\ incl o' o.
Proof.
  intros Hc Hn Hf Hit Hm Hp Hs. unfold recv_bytes_into_sh.
  pose proof (len_nonneg m) as H0.
  rewrite (into_args_ok c (it * d0) 0 Hc ltac:(lia)).
  destruct (recv_raw_ok o m rest_s None Hn Hf eq_refl) as (o' & t & E & I). rewrite E.
  replace (it * d0 <? 0 + len m) with false by lia.
  eexists _, _. split; [|exact I]. do 3 f_equal.
  unfold readinto_sh. rewrite Z.add_0_l, Z.div_0_l by lia. rewrite Z.sub_0_r, Z.mul_0_l.
  assert (Em : len m = it * (len m / it)) by (apply Z.div_exact; lia).
  assert (0 <= len m / it) by (apply Z.div_pos; lia).
  replace (Z.min (len m) (len m / it * (it * prod rest))) with (len m) by nia.
  rewrite (take_nonpos 0 buf) by lia. rewrite (take_all (len m) m) by lia. reflexivity.
Qed.

(* what does not hold: (1) with an offset the message is stored at ROW offset//it,
   not at byte `offset`, and its length is returned as if all was well;
   (2) a message that fits the buffer (but not itemsize * first dimension) raises
   BufferTooShort.  Buffer: 12 bytes seen as 3 rows of 4. *)
Lemma into_shaped_refuted :
  (exists c o m buf it shape off o' t b,
      openr c /\ ~ In RErr o /\ fits m /\ len buf = it * prod shape /\
      0 <= off /\ off + len m <= len buf /\
      recv_bytes_into_sh c o (encode m) buf it shape off = (c, o', [], t, inr (len m, b)) /\
      ~ into_lands buf off m b) /\
  (exists c o m buf it shape o' t,
      openr c /\ ~ In RErr o /\ fits m /\ len buf = it * prod shape /\ len m <= len buf /\
      recv_bytes_into_sh c o (encode m) buf it shape 0 = (c, o', [], t, inl (ETooShort m))).
Proof.
  split.
  - exists (mkc false true false), [], [88; 89], (repeat 46 12), 1, [3; 4], 1, [], [4; 2],
           ([46; 46; 46; 46; 88; 89] ++ repeat 46 6).
    split; [split; reflexivity|]. split; [intros []|]. split; [vm_compute; discriminate|].
    split; [reflexivity|]. split; [discriminate|]. split; [vm_compute; discriminate|].
    split; [vm_compute; reflexivity|]. unfold into_lands. vm_compute. discriminate.
  - exists (mkc false true false), [], [65; 66; 67; 68], (repeat 46 12), 1, [3; 4], [], [4; 4].
    split; [split; reflexivity|]. split; [intros []|]. split; [vm_compute; discriminate|].
    split; [reflexivity|]. split; [vm_compute; discriminate|]. vm_compute. reflexivity.
Qed.
