(* C15: shared ctypes objects.  Part 1: byte-level memory lemmas; Part 2: initialised /
   isolated / same storage after rebuild (on top of the heap invariant of C14). *)
From Coq Require Import ZArith List Bool Lia ZifyBool Permutation.
From BV Require Import Lib.PyVal Model.Heap Model.SharedMem.
From BV Require Import Proofs.HeapLib Proofs.HeapIdx Proofs.HeapGeo Proofs.HeapInv.
Import ListNotations.
Open Scope Z_scope.

(* ------------------------------------------------------------------ memory *)
Lemma mwrite_outside bs : forall m a off a' o',
  (a' <> a \/ o' < off \/ off + Z.of_nat (length bs) <= o') -> mwrite m a off bs a' o' = m a' o'.
Proof.
  induction bs as [|b r IH]; intros m a off a' o' H; cbn [mwrite]; [reflexivity|].
  rewrite IH by (cbn [length] in H; lia).
  unfold mwrite1. destruct ((a' =? a) && (o' =? off)) eqn:E; [|reflexivity].
  cbn [length] in H. lia.
Qed.

Lemma mwrite_inside bs : forall m a off i, (i < length bs)%nat ->
  mwrite m a off bs a (off + Z.of_nat i) = nth i bs 0.
Proof.
  induction bs as [|b r IH]; intros m a off i Hi; cbn [length] in Hi; [lia|].
  cbn [mwrite]. destruct i as [|j]; cbn [nth].
  - rewrite mwrite_outside by lia. unfold mwrite1.
    replace (off + Z.of_nat 0) with off by lia. rewrite !Z.eqb_refl. reflexivity.
  - replace (off + Z.of_nat (S j)) with (off + 1 + Z.of_nat j) by lia. apply IH. lia.
Qed.

Lemma mread_length m a n : forall off, length (mread m a off n) = n.
Proof. induction n as [|k IH]; intros off; cbn; [reflexivity|]. rewrite IH. reflexivity. Qed.

Lemma mread_nth m a n : forall off i, (i < n)%nat -> nth i (mread m a off n) 0 = m a (off + Z.of_nat i).
Proof.
  induction n as [|k IH]; intros off i Hi; [lia|]. cbn [mread]. destruct i as [|j]; cbn [nth].
  - f_equal. lia.
  - rewrite IH by lia. f_equal. lia.
Qed.

Lemma list_ext (l1 l2 : list Z) : length l1 = length l2 ->
  (forall i, (i < length l1)%nat -> nth i l1 0 = nth i l2 0) -> l1 = l2.
Proof. intros Hl Hn. apply (nth_ext l1 l2 0 0); assumption. Qed.

Lemma mread_ext m m' a off n :
  (forall i, (i < n)%nat -> m a (off + Z.of_nat i) = m' a (off + Z.of_nat i)) ->
  mread m a off n = mread m' a off n.
Proof.
  intros H. apply list_ext; rewrite !mread_length; [reflexivity|].
  intros i Hi. rewrite !mread_nth by assumption. auto.
Qed.

Lemma mread_mwrite_disj m a off bs a' off' n :
  (a' <> a \/ off' + Z.of_nat n <= off \/ off + Z.of_nat (length bs) <= off') ->
  mread (mwrite m a off bs) a' off' n = mread m a' off' n.
Proof.
  intros H. apply mread_ext. intros i Hi. apply mwrite_outside. lia.
Qed.

(* reading back an extent whose first bytes were just written with bs on top of m1 *)
Lemma mread_mwrite_prefix m a off bs n : (length bs <= n)%nat ->
  mread (mwrite m a off bs) a off n = bs ++ mread m a (off + Z.of_nat (length bs)) (n - length bs).
Proof.
  intros Hle. apply list_ext.
  - rewrite app_length, !mread_length. lia.
  - intros i Hi. rewrite mread_length in Hi. rewrite mread_nth by assumption.
    destruct (Nat.lt_ge_cases i (length bs)) as [Hlt|Hge].
    + rewrite app_nth1 by assumption. apply mwrite_inside. assumption.
    + rewrite app_nth2 by assumption. rewrite mread_nth by lia.
      rewrite mwrite_outside by lia. f_equal. lia.
Qed.

Lemma mread_zero m a off n : mread (mwrite m a off (repeat 0 n)) a off n = repeat 0 n.
Proof.
  rewrite mread_mwrite_prefix by (rewrite repeat_length; lia).
  rewrite repeat_length, Nat.sub_diag. cbn. apply app_nil_r.
Qed.

Lemma mread_zero_tail m a off n k : (k <= n)%nat ->
  mread (mwrite m a off (repeat 0 n)) a (off + Z.of_nat k) (n - k) = repeat 0 (n - k).
Proof.
  intros Hk. apply list_ext; [rewrite mread_length, repeat_length; reflexivity|].
  intros i Hi. rewrite mread_length in Hi. rewrite mread_nth by assumption.
  replace (off + Z.of_nat k + Z.of_nat i) with (off + Z.of_nat (k + i)) by lia.
  rewrite mwrite_inside by (rewrite repeat_length; lia).
  rewrite !nth_repeat. reflexivity.
Qed.

(* ------------------------------------------------------------------ creation *)
(* the three creation functions, unfolded *)
Lemma create_new pg size init s p s' o :
  create (ENew :: p) pg size init s = OK (s', o) ->
  exists b h', malloc pg (sm_heap s) size = OK (b, h') /\ o = mk_obj b size /\
               do_effects pg size init (mk_sm h' (sm_mem s)) (Some (mk_obj b size)) p = OK (s', Some o).
Proof.
  unfold create. cbn [do_effects do_effect].
  destruct (malloc pg (sm_heap s) size) as [[b h']|e] eqn:Em; cbn [bind]; [|discriminate].
  destruct (do_effects pg size init _ _ p) as [[s1 cur]|e] eqn:Ed; cbn [bind]; [|discriminate].
  destruct cur as [o1|]; [|discriminate]. intros H; inversion H; subst s1 o1.
  exists b, h'. split; [reflexivity|].
  (* the object under construction never changes *)
  assert (Hcur : forall p s0 s1 c0 c1, do_effects pg size init s0 (Some c0) p = OK (s1, c1) -> c1 = Some c0).
  { clear. induction p as [|e r IH]; intros s0 s1 c0 c1; cbn [do_effects]; [intros H; inversion H; reflexivity|].
    destruct e; cbn [do_effect]; cbn [bind]; try discriminate.
    - apply IH.
    - destruct (o_write (sm_mem s0) c0 0 init); cbn [bind]; [apply IH|discriminate]. }
  pose proof (Hcur _ _ _ _ _ Ed) as Hc. inversion Hc; subst o. split; [reflexivity|assumption].
Qed.

Definition zeros (n : Z) : list Z := repeat 0 (Z.to_nat n).

(* RawValue: whatever the memory contained, the object reads as its initialiser followed
   by zeros (all zeros when no initialiser is given) *)
Theorem rawvalue_initialised pg size init s s' o : 0 <= size ->
  Z.of_nat (length init) <= size ->
  raw_value pg size init s = OK (s', o) ->
  o_read (sm_mem s') o = init ++ zeros (size - Z.of_nat (length init)).
Proof.
  intros Hs Hl H. unfold raw_value, rawvalue_prog in H.
  apply create_new in H as [b [h' [Em [-> Hd]]]].
  cbn [do_effects do_effect bind] in Hd. unfold o_write in Hd. cbn [o_size] in Hd.
  destruct ((0 <=? 0) && (0 + Z.of_nat (length init) <=? size)) eqn:E; [|lia].
  cbn [bind do_effects] in Hd. inversion Hd; subst s'. clear Hd.
  unfold o_read, o_arena, o_start, zeros. cbn [sm_mem o_block o_size].
  rewrite Z.add_0_r. rewrite mread_mwrite_prefix by lia.
  f_equal. replace (Z.to_nat size - length init)%nat with (Z.to_nat (size - Z.of_nat (length init))) by lia.
  replace (Z.to_nat (size - Z.of_nat (length init))) with (Z.to_nat size - length init)%nat by lia.
  apply mread_zero_tail. lia.
Qed.

(* RawArray(t, n): all zeros *)
Theorem rawarray_n_initialised pg size s s' o : 0 <= size ->
  raw_array_n pg size s = OK (s', o) -> o_read (sm_mem s') o = zeros size.
Proof.
  intros Hs H. unfold raw_array_n, rawarray_n_prog in H.
  apply create_new in H as [b [h' [Em [-> Hd]]]].
  cbn [do_effects do_effect bind] in Hd. inversion Hd; subst s'. clear Hd.
  unfold o_read, o_arena, o_start, zeros. cbn [sm_mem o_block o_size]. apply mread_zero.
Qed.

(* RawArray(t, initialiser): every element is assigned, so every byte is the initialiser's *)
Theorem rawarray_init_initialised pg size init s s' o :
  Z.of_nat (length init) = size ->
  raw_array_init pg size init s = OK (s', o) -> o_read (sm_mem s') o = init.
Proof.
  intros Hl H. unfold raw_array_init, rawarray_init_prog in H.
  apply create_new in H as [b [h' [Em [-> Hd]]]].
  cbn [do_effects do_effect bind] in Hd. unfold o_write in Hd. cbn [o_size] in Hd.
  destruct ((0 <=? 0) && (0 + Z.of_nat (length init) <=? size)) eqn:E; [|lia].
  cbn [bind do_effects] in Hd. inversion Hd; subst s'. clear Hd.
  unfold o_read, o_arena, o_start. cbn [sm_mem o_block o_size].
  rewrite Z.add_0_r. rewrite mread_mwrite_prefix by lia.
  replace (Z.to_nat size - length init)%nat with O by lia. cbn. apply app_nil_r.
Qed.

(* ------------------------------------------------------------------ isolation *)
(* an object is sound in a heap state when its block is live and large enough *)
Definition obj_ok (h : heap) (o : obj) : Prop :=
  In (o_block o) (alloc h) /\ 0 <= o_size o <= blen (o_block o).

(* stores inside block b1 do not change what is read inside a disjoint block b2 *)
Lemma store_disjoint m b1 b2 off bs size2 :
  disj b1 b2 -> 0 <= off -> off + Z.of_nat (length bs) <= blen b1 -> 0 <= size2 <= blen b2 ->
  mread (mwrite m (b_arena b1) (b_start b1 + off) bs) (b_arena b2) (b_start b2) (Z.to_nat size2)
  = mread m (b_arena b2) (b_start b2) (Z.to_nat size2).
Proof.
  intros D Hoff Hlen Hs2. apply mread_mwrite_disj. unfold disj, blen in *. lia.
Qed.

Theorem write_isolated h m o1 o2 off bs m' : HeapInv h ->
  obj_ok h o1 -> obj_ok h o2 -> o_block o1 <> o_block o2 ->
  o_write m o1 off bs = Some m' -> o_read m' o2 = o_read m o2.
Proof.
  intros HI [H1 S1] [H2 S2] Hne Hw. unfold o_write in Hw.
  destruct ((0 <=? off) && (off + Z.of_nat (length bs) <=? o_size o1)) eqn:E; [|discriminate].
  inversion Hw; subst m'. unfold o_read, o_arena, o_start.
  destruct HI as [[_ HG _] _].
  assert (D : disj (o_block o1) (o_block o2)).
  { eapply geo_disj; [exact HG| | |assumption]; unfold L; apply in_or_app; right; apply in_or_app; left; assumption. }
  apply store_disjoint; try assumption; lia.
Qed.

(* what is written through an object is what is read through it (and through any object
   rebuilt from its pickled state, which is the same (block, size)) *)
Theorem write_visible m o bs m' : Z.of_nat (length bs) = o_size o ->
  o_write m o 0 bs = Some m' -> o_read m' o = bs.
Proof.
  intros Hl Hw. unfold o_write in Hw.
  destruct ((0 <=? 0) && (0 + Z.of_nat (length bs) <=? o_size o)) eqn:E; [|discriminate].
  inversion Hw; subst m'. unfold o_read. rewrite Z.add_0_r. rewrite mread_mwrite_prefix by lia.
  replace (Z.to_nat (o_size o) - length bs)%nat with O by lia. cbn. apply app_nil_r.
Qed.

Theorem rebuild_same o : rebuild_obj (reduce_obj o) = o.
Proof. destruct o; reflexivity. Qed.

(* the effects after the allocation do not touch the heap ... *)
Lemma effects_heap pg size init c : forall p s s' c',
  (forall e, In e p -> e <> ENew) ->
  do_effects pg size init s (Some c) p = OK (s', c') -> sm_heap s' = sm_heap s.
Proof.
  induction p as [|e r IH]; intros s s' c' Hp H; cbn [do_effects] in H.
  - inversion H; subst. reflexivity.
  - assert (Hr : forall e0, In e0 r -> e0 <> ENew) by (intros e0 He0; apply Hp; right; assumption).
    destruct e; cbn [do_effect bind] in H.
    + exfalso. apply (Hp ENew); [left; reflexivity|reflexivity].
    + apply IH in H; [|assumption]. exact H.
    + destruct (o_write (sm_mem s) c 0 init); cbn [bind] in H; [|discriminate].
      apply IH in H; [|assumption]. exact H.
Qed.

(* ... and change no byte readable through an object in a disjoint block *)
Lemma effects_isolated pg size init b o2 : forall p s s' c',
  (forall e, In e p -> e <> ENew) ->
  0 <= size <= blen b -> disj b (o_block o2) -> 0 <= o_size o2 <= blen (o_block o2) ->
  do_effects pg size init s (Some (mk_obj b size)) p = OK (s', c') ->
  o_read (sm_mem s') o2 = o_read (sm_mem s) o2.
Proof.
  induction p as [|e r IH]; intros s s' c' Hp Hsz D Hs2 H; cbn [do_effects] in H.
  - inversion H; subst. reflexivity.
  - assert (Hr : forall e0, In e0 r -> e0 <> ENew) by (intros e0 He0; apply Hp; right; assumption).
    destruct e; cbn [do_effect bind] in H.
    + exfalso. apply (Hp ENew); [left; reflexivity|reflexivity].
    + apply IH in H; try assumption. rewrite H. cbn [sm_mem].
      unfold o_read, o_arena, o_start. cbn [o_block o_size].
      replace (b_start b) with (b_start b + 0) at 1 by lia.
      apply store_disjoint; try assumption; try lia. rewrite repeat_length. lia.
    + unfold o_write in H. cbn [o_size] in H.
      destruct ((0 <=? 0) && (0 + Z.of_nat (length init) <=? size)) eqn:E; cbn [bind] in H; [|discriminate].
      apply IH in H; try assumption. rewrite H. cbn [sm_mem].
      unfold o_read, o_arena, o_start. cbn [o_block o_size].
      apply store_disjoint; try assumption; lia.
Qed.

(* creating an object (allocation, zeroing, initialisation) yields a sound object in a state
   satisfying the heap invariant, and changes no byte of any other live object *)
Theorem create_isolated pg size init p s s' o : pg_ok pg -> HeapInv (sm_heap s) -> 0 <= size < maxsize ->
  (forall e, In e p -> e <> ENew) ->
  create (ENew :: p) pg size init s = OK (s', o) ->
  HeapInv (sm_heap s') /\ obj_ok (sm_heap s') o /\ o_size o = size /\
  forall o2, obj_ok (sm_heap s) o2 -> ~ In (o_block o2) (pending (sm_heap s)) ->
             obj_ok (sm_heap s') o2 /\ o_block o2 <> o_block o /\
             o_read (sm_mem s') o2 = o_read (sm_mem s) o2.
Proof.
  intros Hpg HI Hs Hp H. apply create_new in H as [b [h' [Em [-> Hd]]]].
  destruct (malloc_ok pg (sm_heap s) size Hpg HI Hs) as [b0 [h0 [hd [E0 [Ed [HI' [_ [Hlen [Ha [Hni _]]]]]]]]]].
  rewrite Em in E0. inversion E0; subst b0 h0.
  destruct (norm_size_props size ltac:(lia)) as [_ [_ Hn]].
  assert (Hb : In b (alloc h')) by (rewrite Ha; left; reflexivity).
  assert (Hsz : 0 <= size <= blen b) by lia.
  pose proof (effects_heap _ _ _ _ _ _ _ _ Hp Hd) as Hh. cbn [sm_heap] in Hh.
  rewrite Hh. split; [assumption|]. split; [split; assumption|]. split; [reflexivity|].
  intros o2 [Hin S2] Hnp.
  destruct (drain_ok (sm_heap s) HI) as [hd' [Ed' [_ [_ [_ [_ HP]]]]]]. rewrite Ed in Ed'. inversion Ed'; subst hd'.
  assert (Hxd : In (o_block o2) (alloc hd)).
  { eapply Permutation_in in Hin; [|exact HP]. apply in_app_or in Hin. destruct Hin as [Hin|Hin]; [|assumption].
    apply in_rev in Hin. contradiction. }
  assert (Hin' : In (o_block o2) (alloc h')) by (rewrite Ha; right; assumption).
  assert (Hne : o_block o2 <> b) by (intros E; rewrite E in Hxd; contradiction).
  split; [split; assumption|]. split; [assumption|].
  assert (D : disj b (o_block o2)).
  { destruct HI' as [[_ HG _] _]. eapply geo_disj; [exact HG| | |congruence];
      unfold L; apply in_or_app; right; apply in_or_app; left; assumption. }
  rewrite (effects_isolated _ _ _ _ o2 _ _ _ _ Hp Hsz D S2 Hd). reflexivity.
Qed.

(* a lock-wrapped object rebuilt from its pickled state has the same lock and the same storage *)
Theorem rebuild_wrapper_same w fresh : rebuild_wrapper (reduce_wrapper w) fresh = w.
Proof. destruct w as [[b sz] l]. reflexivity. Qed.
