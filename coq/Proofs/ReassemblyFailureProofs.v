(* C02, Part F: the failure a map reports is the failure of one of ITS OWN chunks --
   the first failing chunk the result handler delivered --, with acknowledgements
   interleaved anywhere.  Joins map_any_order (success prefix) and
   map_first_failure_wins (the rest), and strengthens both by the MAck operations. *)
From Coq Require Import ZArith List Bool Lia ZifyBool Arith PeanoNat Permutation.
From BV Require Import Lib.PyVal Lib.Cases Model.Reassembly Proofs.ReassemblyProofs.
Import ListNotations.
Open Scope nat_scope.

Lemma set_nth_length {X} (l : list X) (j : nat) (x : X) : length (set_nth l j x) = length l.
Proof.
  revert j. induction l as [|y l IH]; intros j; [reflexivity|].
  destruct j as [|j]; cbn [set_nth length]; [reflexivity|]. rewrite IH. reflexivity.
Qed.

(* the marking loop of _ack inside the list: no IndexError, same length *)
Lemma mark_range_ok : forall (cnt : nat) (acc : list bool) (start : Z),
    (0 <= start)%Z -> (start + Z.of_nat cnt <= Z.of_nat (length acc))%Z ->
    exists acc', mark_range acc start cnt = (acc', None) /\ length acc' = length acc.
Proof.
  induction cnt as [|cnt IH]; intros acc start H0 H1; cbn [mark_range].
  - exists acc. split; reflexivity.
  - unfold py_setitem. replace (start <? 0)%Z with false by lia.
    replace ((0 <=? start)%Z && (start <? Z.of_nat (length acc))%Z) with true by lia.
    destruct (IH (set_nth acc (Z.to_nat start) true) (start + 1)%Z) as (acc' & Hm & Hl).
    + lia.
    + rewrite set_nth_length. lia.
    + exists acc'. split; [exact Hm|]. rewrite Hl. apply set_nth_length.
Qed.

Lemma find_split {X} (p : X -> bool) (l : list X) (x : X) : find p l = Some x ->
    p x = true /\ exists pre post, l = pre ++ x :: post /\ forall y, In y pre -> p y = false.
Proof.
  induction l as [|y l IH]; cbn [find]; [discriminate|].
  destruct (p y) eqn:Ey; intros H.
  - inversion H. subst y. split; [exact Ey|]. exists [], l. split; [reflexivity|]. intros z [].
  - destruct (IH H) as (Hx & pre & post & -> & Hpre). split; [exact Hx|].
    exists (y :: pre), post. split; [reflexivity|]. intros z [<-|Hz]; [exact Ey|apply Hpre, Hz].
Qed.

Lemma nodup_app_l {X} (a b : list X) : NoDup (a ++ b) -> NoDup a.
Proof.
  induction a as [|x a IH]; intros H; [constructor|].
  cbn [app] in H. apply NoDup_cons_iff in H. destruct H as [Hx Hn].
  constructor; [|apply IH, Hn]. intros Hin. apply Hx, in_or_app. left. exact Hin.
Qed.

(* a history of one map job as the result handler sees it *)
Inductive mev := Dlv (i : nat)      (* the READY message of chunk i is handled (cache look-up, then _set) *)
               | Ack (i : nat).     (* the ACK message of chunk i is handled (_ack) *)

Fixpoint dlvs (h : list mev) : list nat :=
  match h with [] => [] | Dlv i :: r => i :: dlvs r | Ack _ :: r => dlvs r end.
Fixpoint acks (h : list mev) : list nat :=
  match h with [] => [] | Ack i :: r => i :: acks r | Dlv _ :: r => acks r end.

Section OwnChunk.
Context {A B E : Type}.
Variable none : B.
Variable f : A -> B.
Variable l : list A.          (* THIS call's input *)
Variable k : nat.             (* its chunk size *)
Hypothesis Hk : 1 <= k.
Variables hc he : bool.
Variable e_of : nat -> E.     (* the failure record chunk i produces when it fails *)
Variable F : nat -> bool.     (* which chunks fail *)
Notation n := (length l).
Notation m := (length (chunks l k)).

(* what the worker of chunk i sends back *)
Definition chunk_msg (i : nat) : mmsg B E :=
  if F i then MFail (Z.of_nat i) (e_of i) else MOk (Z.of_nat i) (chunk_result f l k i).

Definition mev_op (e : mev) : mop B E :=
  match e with Dlv i => MDeliver (chunk_msg i) | Ack i => MAck (Z.of_nat i) end.

Definition with_acc (st : mres B E) (acc : list bool) : mres B E :=
  mk_mres (m_k st) (m_len st) (m_left st) (m_success st) (m_value st) (m_ready st)
          (if m_ready st then false else m_incache st)
          (m_has_cb st) (m_has_ecb st) (m_cb st) (m_ecb st) acc.

Lemma map_ack_ok (st : mres B E) (i : nat) :
    m_k st = Z.of_nat k -> m_len st = Z.of_nat n -> length (m_accepted st) = n -> i < m ->
    exists acc, map_ack st (Z.of_nat i) = (with_acc st acc, None) /\ length acc = n.
Proof.
  intros Hmk Hml Hacc Hi. apply chunks_index_lt in Hi; [|exact Hk].
  unfold map_ack, ack_start, ack_stop. rewrite Hmk, Hml.
  destruct (mark_range_ok
              (Z.to_nat (Z.min ((Z.of_nat i + 1) * Z.of_nat k) (Z.of_nat n)
                         - Z.of_nat i * Z.of_nat k))
              (m_accepted st) (Z.of_nat i * Z.of_nat k)%Z) as (acc & Hm & Hl).
  - lia.
  - rewrite Hacc. nia.
  - rewrite Hm. exists acc. split; [unfold with_acc; rewrite Hmk, Hml; reflexivity|]. lia.
Qed.

(* the job after its first failing chunk j was handled *)
Definition FailInv (j : nat) (st : mres B E) : Prop :=
  m_incache st = false /\ m_ready st = true /\ m_value st = VErr (e_of j) /\
  m_success st = false /\ m_ecb st = (if he then [e_of j] else []) /\ m_cb st = [] /\
  m_k st = Z.of_nat k /\ m_len st = Z.of_nat n /\ length (m_accepted st) = n.

Lemma fail_run (j : nat) : forall (h : list mev) (st : mres B E),
    FailInv j st -> (forall x, In x (acks h) -> x < m) ->
    snd (map_run st (map mev_op h)) = repeat OUnit (length h) /\
    FailInv j (fst (map_run st (map mev_op h))).
Proof.
  induction h as [|e h IH]; intros st Hinv Hacks; [split; [reflexivity|exact Hinv]|].
  destruct Hinv as (Hc & Hr & Hv & Hs & Hecb & Hcb & Hmk & Hml & Hacc).
  destruct e as [i|i]; cbn [map map_run mev_op map_op length repeat].
  - unfold map_deliver. rewrite Hc. cbn [exn_out].
    destruct (IH st) as (Ho & Hi).
    + repeat split; assumption.
    + exact Hacks.
    + destruct (map_run st (map mev_op h)) as [s2 xs]. cbn [fst snd] in *.
      split; [rewrite Ho; reflexivity|exact Hi].
  - destruct (map_ack_ok st i Hmk Hml Hacc) as (acc & Ha & Hl).
    { apply Hacks. left. reflexivity. }
    rewrite Ha. cbn [exn_out].
    destruct (IH (with_acc st acc)) as (Ho & Hi).
    + unfold FailInv, with_acc. cbn [m_incache m_ready m_value m_success m_ecb m_cb m_k m_len
                                     m_accepted]. rewrite Hr.
      repeat split; assumption.
    + intros x Hx. apply Hacks. right. exact Hx.
    + destruct (map_run (with_acc st acc) (map mev_op h)) as [s2 xs]. cbn [fst snd] in *.
      split; [rewrite Ho; reflexivity|exact Hi].
Qed.

Lemma minv_with_acc (H : list nat) (st : mres B E) (acc : list bool) :
    MInv none f l k hc he H st -> length acc = n -> MInv none f l k hc he H (with_acc st acc).
Proof.
  intros (v & Hval & Hlen & Hdone & Hnone & Hleft & Hmk & Hml & Hsucc & Hacc & Hhc & Hhe
          & Hecb & Hready & Hcache & Hcb) Hl.
  exists v. unfold with_acc.
  cbn [m_value m_left m_k m_len m_success m_accepted m_has_cb m_has_ecb m_ecb m_ready
       m_incache m_cb].
  assert (Hc' : (if m_ready st then false else m_incache st) = negb (m_ready st))
    by (rewrite Hcache; destruct (m_ready st); reflexivity).
  rewrite Hc'.
  split; [exact Hval|]. split; [exact Hlen|]. split; [exact Hdone|]. split; [exact Hnone|].
  split; [exact Hleft|]. split; [exact Hmk|]. split; [exact Hml|]. split; [exact Hsucc|].
  split; [exact Hl|]. split; [exact Hhc|]. split; [exact Hhe|]. split; [exact Hecb|].
  split; [exact Hready|]. split; [reflexivity|exact Hcb].
Qed.

(* the general run: H = the chunks handled before (none of them failing) *)
Lemma map_hist_run : forall (h : list mev) (st : mres B E) (H : list nat),
    MInv none f l k hc he H st ->
    NoDup (H ++ dlvs h) -> (forall x, In x (H ++ dlvs h) -> x < m) ->
    (forall x, In x (acks h) -> x < m) ->
    snd (map_run st (map mev_op h)) = repeat OUnit (length h) /\
    match find F (dlvs h) with
    | None => MInv none f l k hc he (H ++ dlvs h) (fst (map_run st (map mev_op h)))
    | Some j => FailInv j (fst (map_run st (map mev_op h)))
    end.
Proof.
  induction h as [|e h IH]; intros st H Hinv Hnd Hb Hacks.
  - cbn. rewrite app_nil_r. split; [reflexivity|exact Hinv].
  - destruct e as [i|i].
    + (* the result of chunk i is handled *)
      cbn [dlvs] in Hnd, Hb.
      assert (HndH : NoDup H) by (apply nodup_app_l in Hnd; exact Hnd).
      assert (Hni : ~ In i H).
      { intros Hin. apply NoDup_remove_2 in Hnd. apply Hnd, in_or_app. left. exact Hin. }
      assert (HbH : forall x, In x H -> x < m) by (intros x Hx; apply Hb, in_or_app; left; exact Hx).
      assert (Hi : i < m) by (apply Hb, in_or_app; right; left; reflexivity).
      pose proof (handled_bound l k Hk H i HndH HbH Hni Hi) as Hcount.
      assert (Hnpos : 1 <= n).
      { apply chunks_index_lt in Hi; [|exact Hk]. lia. }
      pose proof Hinv as Hinv0.
      destruct Hinv as (v & Hval & Hlen & Hdone & Hnone & Hleft & Hmk & Hml & Hsucc & Hacc & Hhc & Hhe
                        & Hecb & Hready & Hcache & Hcb).
      assert (Hnr : m_ready st = false).
      { rewrite Hready. replace (length H =? m) with false by (symmetry; apply Nat.eqb_neq; lia).
        apply andb_false_r. }
      assert (Hc : m_incache st = true) by (rewrite Hcache, Hnr; reflexivity).
      cbn [map map_run mev_op map_op dlvs find length repeat]. unfold map_deliver, chunk_msg.
      rewrite Hc. destruct (F i) eqn:EF.
      * (* it failed: this is the job's outcome *)
        cbn [map_set exn_out].
        rewrite (list_truthy_length (m_accepted st)) by lia.
        destruct (fail_run i h
                    (mk_mres (m_k st) (m_len st) (m_left st) false (VErr (e_of i)) true false
                             (m_has_cb st) (m_has_ecb st) (m_cb st)
                             (if m_has_ecb st then m_ecb st ++ [e_of i] else m_ecb st)
                             (m_accepted st))) as (Ho & Hf).
        -- unfold FailInv. cbn [m_incache m_ready m_value m_success m_ecb m_cb m_k m_len m_accepted].
           rewrite Hhe, Hecb, Hcb, Hnr, andb_false_r. cbn [app].
           repeat split; assumption.
        -- exact Hacks.
        -- destruct (map_run _ (map mev_op h)) as [s2 xs]. cbn [fst snd] in *.
           split; [rewrite Ho; reflexivity|exact Hf].
      * (* it succeeded *)
        destruct (minv_step none f l k Hk hc he H st i Hinv0 HndH HbH Hni Hi) as [Hinv' Hno].
        destruct (map_set st (MOk (Z.of_nat i) (chunk_result f l k i))) as [s1 e1].
        cbn [fst snd] in Hinv', Hno. subst e1. cbn [exn_out].
        destruct (IH s1 (H ++ [i]) Hinv') as (Ho & Hm).
        -- rewrite <- app_assoc. exact Hnd.
        -- intros x Hx. rewrite <- app_assoc in Hx. apply Hb, Hx.
        -- exact Hacks.
        -- destruct (map_run s1 (map mev_op h)) as [s2 xs]. cbn [fst snd] in *.
           split; [rewrite Ho; reflexivity|]. rewrite <- app_assoc in Hm. exact Hm.
    + (* an acknowledgement *)
      cbn [dlvs] in *.
      assert (Hi : i < m) by (apply Hacks; left; reflexivity).
      pose proof Hinv as Hinv0.
      destruct Hinv as (v & Hval & Hlen & Hdone & Hnone & Hleft & Hmk & Hml & Hsucc & Hacc & _).
      destruct (map_ack_ok st i Hmk Hml Hacc Hi) as (acc & Ha & Hl).
      cbn [map map_run mev_op map_op length repeat]. rewrite Ha. cbn [exn_out].
      destruct (IH (with_acc st acc) H (minv_with_acc H st acc Hinv0 Hl) Hnd Hb) as (Ho & Hm).
      * intros x Hx. apply Hacks. right. exact Hx.
      * destruct (map_run (with_acc st acc) (map mev_op h)) as [s2 xs]. cbn [fst snd] in *.
        split; [rewrite Ho; reflexivity|exact Hm].
Qed.

(* THE THEOREM.  h: any history of this job -- the READY messages of distinct chunks of
   THIS job (index < number of chunks) handled through the cache look-up, the ACK
   messages of its chunks anywhere in between.  No operation raises, and
   - if a failing chunk was handled: get() re-raises the record of chunk j, where j is
     the FIRST failing chunk in the order of handling; j is one of this job's chunks,
     i.e. the inputs l[j*k : (j+1)*k] of this very call; the error callback was called
     exactly once, with that record; the success callback never;
   - otherwise: exactly map_any_order's conclusion (now with acknowledgements). *)
Theorem map_failure_is_own_chunk (h : list mev) :
    NoDup (dlvs h) -> (forall x, In x (dlvs h) -> x < m) -> (forall x, In x (acks h) -> x < m) ->
    let r := map_run (map_init none (Z.of_nat n) (Z.of_nat k) hc he) (map mev_op h) in
    let st := fst r in
    snd r = repeat OUnit (length h) /\
    match find F (dlvs h) with
    | Some j =>
        j < m /\ F j = true /\
        nth j (chunks l k) [] = firstn k (skipn (j * k) l) /\
        (exists pre post, dlvs h = pre ++ j :: post /\ forall i, In i pre -> F i = false) /\
        map_get st = ORaise (e_of j) /\ m_value st = VErr (e_of j) /\
        m_success st = false /\ m_ready st = true /\ m_incache st = false /\
        m_ecb st = (if he then [e_of j] else []) /\ m_cb st = []
    | None =>
        m_left st = (Z.of_nat m - Z.of_nat (length (dlvs h)))%Z /\
        m_success st = true /\
        m_ready st = ((0 <? length (dlvs h)) && (length (dlvs h) =? m)) /\
        m_incache st = negb (m_ready st) /\
        m_cb st = (if hc && m_ready st then [map f l] else []) /\
        m_ecb st = [] /\
        map_get st = (if m_ready st then OList (map f l) else OTimeout)
    end.
Proof.
  intros Hnd Hb Hacks. cbv zeta.
  destruct (map_hist_run h (map_init none (Z.of_nat n) (Z.of_nat k) hc he) []
                         (minv_init none f l k Hk hc he) Hnd Hb Hacks) as (Ho & Hm).
  split; [exact Ho|].
  set (st := fst (map_run (map_init none (Z.of_nat n) (Z.of_nat k) hc he) (map mev_op h))) in *.
  destruct (find F (dlvs h)) as [j|] eqn:Ef.
  - destruct (find_split F (dlvs h) j Ef) as (HFj & pre & post & Hsplit & Hpre).
    assert (Hj : j < m) by (apply Hb; rewrite Hsplit; apply in_or_app; right; left; reflexivity).
    destruct Hm as (Hc & Hr & Hv & Hs & Hecb & Hcb & _).
    split; [exact Hj|]. split; [exact HFj|].
    split; [apply chunks_nth_default; assumption|].
    split; [exists pre, post; split; assumption|].
    split; [unfold map_get; rewrite Hr, Hs, Hv; reflexivity|].
    repeat split; assumption.
  - cbn [app] in Hm.
    pose proof (minv_complete none f l k Hk hc he (dlvs h) st Hm Hnd Hb) as Hfull.
    destruct Hm as (v & Hval & Hlen & _ & _ & Hleft & _ & _ & Hsucc & _ & _ & _ & Hecb
                    & Hready & Hcache & Hcb).
    assert (Hrv : m_ready st = true -> v = map f l).
    { intros Hr. rewrite Hready in Hr. apply andb_prop in Hr. destruct Hr as [_ Hr].
      apply Nat.eqb_eq in Hr. specialize (Hfull Hr). rewrite Hval in Hfull.
      inversion Hfull. reflexivity. }
    repeat split; try assumption.
    + rewrite Hcb. destruct (m_ready st) eqn:Er; [rewrite Hrv by reflexivity|];
        destruct hc; reflexivity.
    + unfold map_get. rewrite Hsucc, Hval. destruct (m_ready st) eqn:Er; [|reflexivity].
      rewrite Hrv by reflexivity. reflexivity.
Qed.

End OwnChunk.
