"""C15 -- shared ctypes values are isolated, initialised, visible and atomic.

Tie to the code: G_sharedmem regenerates, from sharedctypes.py and heap.BufferWrapper on every run, the
effect sequences of RawValue / RawArray (allocate, memset, __init__), the instruction sequences of the
lock-wrapped accessors and structural facts about the wrapper and pickling; they are proved equal to
the model's.  The real RawValue/RawArray/Value/Array/rebuild_ctype are run over a private heap on
create/dirty/drop/recycle histories; every block and every byte of every live object is compared with
the executable model inside Coq, and the property itself (initialised, isolated, same storage after
rebuild, stores visible) is judged on the implementation trace by `monitor` below.  The lock/read/write
event trace of `with v.get_lock(): v.value += 1` on the real Synchronized wrappers is compared with
the instruction list the atomicity theorem is about.  Hand-overs: histories of spawning processes /
allocating / sending any handle from its holder to any process (pickle round trip exactly as for a spawn
child, each emulated process with the ForkingPickler registry a fresh interpreter would have) / storing
through any handle, compared with Model/SharedHop.v in Coq and judged by `hop_monitor` (a store through any
handle is read through every handle descending from the same allocation); real chains parent -> child ->
grandchild (spawn) work on the object at every level.  Thorough tier: real processes, longer chains.
Drops: objects over one wrapper may be dropped in any order (mode mem); handles may be dropped in the process holding them
(mode hops, Model/SharedHopDrop.v): the owner dropping its original while a receiver lives recycles storage in use -- a
candidate defect reported as C15:storage-recycled-while-receiver-live (also on a real spawn child, mode orphan).  Lock
arguments of either truth value: `if lock:` replaces a falsy lock object (C15:falsy-lock-replaced-by-private-lock).
Forks: G_semfork reads where SemLock.__init__ registers the after-fork reset of a lock object; Model/SharedFork.v has the fork of
an updater by the process holding the lock as an operation; mode forklock starts real updater processes from inside
`with obj.get_lock():` under the fork start method (value unchanged under the held lock, no lost update)."""
import ctypes
import json
import mmap
import random
from vlib import core
from vlib.core import cz, cnat, clist

MANIFEST = dict(
    text='Theorems (Coq): the creation effect sequences, accessor programs, _new_value/rebuild_ctype effect sequences and the test '
         'under which SynchronizedBase.__init__ keeps the given lock, translated from sharedctypes.py on every run, equal the model. '
         'HISTORY THEOREM (C15_history_state/_trace): for every history of creating (any kind, size, initialiser), dropping in any '
         'order, storing and rebuilding from a fresh heap, the model on top of the C14 allocator never raises, keeps the heap invariant, '
         'keeps objects of different allocations in disjoint blocks, and after every op every live object reads exactly a heap-free '
         'shadow map (initial value = initialiser then zeros / zeros / initialiser, overwritten by the stores through it or its '
         'rebuilt aliases) -- also in recycled dirty storage; single-step forms (initialised, creation/store isolated, store read back). '
         'Atomicity: for any number of threads, iterations and any interleaving `with v.get_lock(): v.value += 1` loses no update, is '
         'mutually exclusive and cannot deadlock; without the outer lock an update can be lost (witness). '
         'Atomicity ACROSS FORKS (Model/SharedFork.v): the lock as it is -- one kernel semaphore shared by all processes plus a per-process '
         'copy of the lock object with its ownership count, operated by the C17 primitive (sem_acq/sem_rel) -- and FORK as an operation: any '
         'process forks, at any point, also from inside its `with v.get_lock():` block, an updater; the child\'s copy of the lock object is '
         'the parent\'s unless the after-fork hook of SemLock.__init__ resets it. Where that hook is registered (which `if` tests enclose it) '
         'is read from synchronize.py on every run (G_semfork, fail-closed) and proved to cover every lock created on POSIX, named or not; '
         'for that reset and ANY history of steps and forks: no lost update (the value is the initial value plus the number of increments all '
         'updaters, initial and forked, were started with), at most one process inside, while one is inside no other process can step (the '
         'forked child waits for the parent\'s release; the value does not change under a held lock), no deadlock; refuted without the reset '
         '(computed history: two inside, value changes under the held lock, two increments end at 1). Real scenarios (fork start method, '
         'quick tier): `with lock: start updater processes; read again; store old+1` for Value, Array, an explicit RLock, a RawValue under a '
         'plain RLock / Lock, judged by monitors (signatures C15:value-changed-under-held-lock, C15:lock-held-by-two-processes, C15:lost-update). '
         'Hand-overs (Model/SharedHop.v): per-process ForkingPickler registries; for every history of spawning, allocating, sending any '
         'handle from whatever process holds it, and storing: no handle is ever a by-value copy, every handle can be handed on again, a '
         'rebuilt handle is the same block of the same owner\'s arena, handles of one allocation have the same store and a store through '
         'one is read through all; refuted for registration-at-allocation-only. '
         'Drops across processes (Model/SharedHopDrop.v): under the discipline "the owner keeps the object it allocated until every '
         'receiver is done" live handles of different allocations are in disjoint storage and stores do not interfere, for all histories '
         '(C15_disciplined_*); WITHOUT it the property is refuted (C15_owner_drop_recycles_receivers_storage_refuted: a rebuilt '
         'BufferWrapper has no finaliser, the owner frees and recycles a block a receiver still uses) -- detected on the real code '
         '(emulated processes and real spawn child), signature C15:storage-recycled-while-receiver-live. '
         'Lock argument: a truthy lock is the lock used (C15_given_lock_is_used_partial); refuted for lock objects that are false in a '
         'boolean context (`if lock:`; C15_given_lock_is_used_refuted, C15_falsy_lock_loses_update_refuted), detected on the real code '
         'with a scripted lost update, signature C15:falsy-lock-replaced-by-private-lock. '
         'Correspondence of the real sharedctypes with the models byte by byte on create/dirty/drop/recycle/rebuild histories over all '
         'type codes, structures with padding, array lengths and initialisers; recorded lock traces of the real Synchronized wrappers; '
         'lock identity for every wrapper class, also after a pickle round trip in spawn mode; hand-over/drop histories between emulated '
         'processes; real spawn chains parent->child->grandchild; thorough: real processes (visibility both ways, locked increments).',
    note='Trusted: Coq kernel, translate/kernels/sharedmem.py, harness; ctypes\' own encoding of values (the expected '
         'bytes are those of an ordinary private ctypes object); MAP_SHARED visibility and cache coherence (kernel/'
         'hardware); the recursive lock itself (C17) -- the atomicity theorem assumes acquire/release are atomic and '
         'exclusive; CPython reference counting runs the BufferWrapper finaliser at the drop. Two candidate defects of the pinned '
         'tree are reported by this check (see docs/C15.md): storage recycled while a receiver is live; falsy lock objects replaced.',
    technique='Coq proofs on top of the C14 heap invariant (coupling invariant with a shadow map; per-process heap invariants for '
              'hand-overs with drops) + small interleaving semantics + translator-regenerated effect/instruction sequences + '
              'byte-level differential correspondence + trace monitors + real-process scenarios',
    ref='5.15',
)

HEADER = '''From Coq Require Import ZArith List Bool.
From BV Require Import Lib.Cases Model.Heap Model.SharedMem.
Import ListNotations. Open Scope Z_scope.
Definition check_case := SharedMem.check_case.'''

HEADER_HOPS = '''From Coq Require Import ZArith List Bool.
From BV Require Import Lib.Cases Model.Heap Model.SharedMem Model.SharedHop Model.SharedHopDrop.
Import ListNotations. Open Scope Z_scope.
Definition check_case := SharedHopDrop.check_dcase.'''

HEADER_LOCKARG = '''From Coq Require Import ZArith List Bool.
From BV Require Import Lib.Cases Model.Heap Model.SharedMem.
Import ListNotations. Open Scope Z_scope.
Definition check_case := SharedMem.check_lockarg.'''

SIG_RECYCLED = 'C15:storage-recycled-while-receiver-live'
SIG_FALSY_LOCK = 'C15:falsy-lock-replaced-by-private-lock'

HEADER_TRACE = '''From Coq Require Import ZArith List Bool.
From BV Require Import Lib.Cases Model.Heap Model.SharedMem.
Import ListNotations. Open Scope Z_scope.
Definition check_case (c : bool * list instr) : Z := check_trace (fst c) (snd c).'''


# ------------------------------------------------------------- the types (same definitions as the driver)
class Point(ctypes.Structure):
    _fields_ = [('x', ctypes.c_double), ('y', ctypes.c_double)]


class Pad(ctypes.Structure):
    _fields_ = [('a', ctypes.c_char), ('b', ctypes.c_int)]


class Mixed(ctypes.Structure):
    _fields_ = [('a', ctypes.c_byte), ('b', ctypes.c_short), ('c', ctypes.c_longlong)]


CODES = {'c': ctypes.c_char, 'u': ctypes.c_wchar, 'b': ctypes.c_byte, 'B': ctypes.c_ubyte,
         'h': ctypes.c_short, 'H': ctypes.c_ushort, 'i': ctypes.c_int, 'I': ctypes.c_uint,
         'l': ctypes.c_long, 'L': ctypes.c_ulong, 'f': ctypes.c_float, 'd': ctypes.c_double}
OTHER = dict(Point=Point, Pad=Pad, Mixed=Mixed, c_longlong=ctypes.c_longlong, c_bool=ctypes.c_bool,
             c_ulonglong=ctypes.c_ulonglong, c_uint16=ctypes.c_uint16)
ALLT = dict(CODES, **OTHER)


def conv(t, v):
    if isinstance(v, list):
        return tuple(conv(None, x) for x in v)
    if t == 'c':
        return bytes([v])
    if t == 'u':
        return chr(v)
    return v


def enc(p):
    n = ctypes.sizeof(p)
    return list(ctypes.string_at(ctypes.addressof(p), n)) if n else []


def rand_value(rng, t):
    ct = ALLT[t]
    if t == 'c':
        return rng.randint(0, 255)
    if t == 'u':
        return rng.choice([65, 97, 0x20AC, 0x1F600, 1, 0xFFFF, 0x10FFFF])
    if t in ('f', 'd'):
        return rng.choice([0.0, 1.0, -1.5, 0.25, 1024.0, -3.75, 1e10 if t == 'd' else 65536.0])
    if t == 'c_bool':
        return rng.choice([True, False])
    if t == 'Point':
        return [rng.choice([0.5, -2.0, 8.0]) for _ in range(rng.choice([0, 1, 2]))]
    if t == 'Pad':
        k = rng.choice([0, 1, 2])
        return [rng.randint(1, 255), rng.randint(-5, 10 ** 6)][:k]
    if t == 'Mixed':
        k = rng.choice([0, 1, 2, 3])
        return [rng.randint(-128, 127), rng.randint(-30000, 30000), rng.randint(-2 ** 62, 2 ** 62)][:k]
    bits = ctypes.sizeof(ct) * 8
    signed = ct(-1).value < 0
    lo, hi = (-(1 << (bits - 1)), (1 << (bits - 1)) - 1) if signed else (0, (1 << bits) - 1)
    return rng.choice([lo, hi, 0, 1, rng.randint(lo, hi), rng.randint(lo, hi)])


def gen_case(rng, real=False):
    pg = 4096 if real else rng.choice([64, 64, 256, 4096])
    ops = []
    live = []        # indices of live objects (an object and its rebuilt aliases may be dropped in any order)
    sizes = {}
    nobj = 0
    tnames = list(ALLT)
    for _ in range(rng.choice([4, 8, 14, 22, 30])):
        r = rng.random()
        if live and r < 0.22:
            k = rng.choice(live)
            # dirty it first, most of the time
            if sizes[k] and rng.random() < 0.8:
                ops.append(['write', k, 0, [rng.choice([255, 0xAA, 0x5A, 1]) for _ in range(sizes[k])]])
            ops.append(['drop', k])
            live.remove(k)
            continue
        if live and r < 0.40:
            k = rng.choice(live)
            if sizes[k]:
                off = rng.randint(0, sizes[k] - 1)
                ln = rng.randint(1, sizes[k] - off)
                ops.append(['write', k, off, [rng.randint(0, 255) for _ in range(ln)]])
                continue
        if live and r < 0.47:
            k = rng.choice(live)
            ops.append(['rebuild', k])
            sizes[nobj] = sizes[k]
            live.append(nobj)
            nobj += 1
            continue
        t = rng.choice(tnames)
        ct = ALLT[t]
        kind = rng.choice([0, 0, 1, 2, 2])
        sync = rng.random() < 0.3 and t not in ('Point', 'Pad', 'Mixed')
        if kind == 0:
            if t in ('Point', 'Pad', 'Mixed'):
                args = rand_value(rng, t)
            else:
                args = [] if rng.random() < 0.3 else [rand_value(rng, t)]
            spec = dict(t=t, args=args, sync=sync)
            size = ctypes.sizeof(ct)
        elif kind == 1:
            n = rng.choice([0, 1, 2, 3, 5, 8])
            spec = dict(t=t, n=n, sync=sync)
            size = ctypes.sizeof(ct) * n
        else:
            init = [rand_value(rng, t) for _ in range(rng.choice([0, 1, 2, 3, 6]))]
            spec = dict(t=t, init=init, sync=sync)
            size = ctypes.sizeof(ct) * len(init)
        ops.append(['new', kind, spec])
        sizes[nobj] = size
        live.append(nobj)
        nobj += 1
    return dict(pg=pg, size=pg, ops=ops, real=real)


def boundary_cases():
    out = []
    # every type code: create with a value, dirty, drop, create the same type again without a value
    for t in list(CODES) + ['Pad', 'Mixed', 'c_bool', 'c_longlong']:
        v = {'c': 200, 'u': 0x20AC, 'f': 1.5, 'd': -2.25, 'Pad': [77, 5], 'Mixed': [1, 2, 3], 'c_bool': True}.get(t, 1)
        args = v if isinstance(v, list) else [v]
        sz = ctypes.sizeof(ALLT[t])
        out.append(dict(pg=64, size=64, real=False, ops=[
            ['new', 0, dict(t=t, args=args)], ['write', 0, 0, [255] * sz], ['drop', 0],
            ['new', 0, dict(t=t, args=[])], ['new', 1, dict(t=t, n=3)],
            ['write', 2, 0, [0xEE] * (3 * sz)], ['drop', 2], ['new', 2, dict(t=t, init=[args[0] if t not in ('Pad', 'Mixed') else args[:1]] * 3)],
            ['new', 1, dict(t=t, n=0)], ['rebuild', 1]]))
    # an object and its rebuilt aliases dropped in every order: the block is freed (and recycled by the next object of
    # that size) only when the last of them goes
    for order in ([0, 1, 2], [2, 1, 0], [1, 0, 2], [0, 2, 1]):
        ops = [['new', 0, dict(t='i', args=[7])], ['rebuild', 0], ['rebuild', 1], ['write', 2, 0, [255] * 4]]
        for n, k in enumerate(order):
            ops += [['drop', k], ['new', 0, dict(t='i', args=[n + 1])]]
        ops += [['new', 1, dict(t='b', n=4)]]
        out.append(dict(pg=64, size=64, real=False, ops=ops))
    return out


# ------------------------------------------------------------- rendering for Coq
def model_op(o):
    """driver op -> (Coq term of the model op); sizes and initialiser bytes are computed here with an
    ordinary private ctypes object (not taken from the driver)"""
    if o[0] == 'new':
        kind, spec = o[1], o[2]
        t = spec['t']
        ct = ALLT[t]
        if kind == 0:
            args = [conv(t, a) for a in spec['args']]
            size = ctypes.sizeof(ct)
            init = enc(ct(*args)) if args else []
        elif kind == 1:
            size = ctypes.sizeof(ct) * spec['n']
            init = []
        else:
            vals = [conv(t, a) for a in spec['init']]
            size = ctypes.sizeof(ct) * len(vals)
            init = enc((ct * len(vals))(*vals))
        return '(SNew %d %s %s)' % (kind, cz(size), clist(init))
    if o[0] == 'drop':
        return '(SDrop %s)' % cnat(o[1])
    if o[0] == 'write':
        return '(SWrite %s %s %s)' % (cnat(o[1]), cz(o[2]), clist(o[3]))
    return '(SRebuild %s)' % cnat(o[1])


def cblock(b):
    return '(%s, %s, %s)' % (cz(b[0]), cz(b[1]), cz(b[2]))


def to_coq(c, out):
    obs = []
    for rec in out['obs']:
        if 'exc' in rec:
            obs.append('((-2, -2, -2), (-2), [])')
            continue
        b = rec['block'] or [-1, -1, -1]
        obs.append('(%s, %s, %s)' % (cblock(b), cz(rec['size']),
                                     clist(rec['reads'], lambda r: '(%s, %s)' % (cnat(r[0]), clist(r[1])))))
    return '((%s, %s, %s, %s) : SharedMem.case)' % (cz(c['pg']), cz(c['size']), clist(c['ops'], model_op), '[' + '; '.join(obs) + ']')


# ------------------------------------------------------------- the property, on the implementation trace
def monitor(c, out):
    live = {}        # k -> dict(block, size, bytes)
    alias = {}       # k -> set of objects sharing its storage (incl. itself)
    nobj = 0
    for j, (op, rec) in enumerate(zip(c['ops'], out['obs'])):
        if 'exc' in rec:
            return ('C15:raised', 'op %d %s raised %s' % (j, op[:2], rec['exc']))
        reads = {k: b for k, b in rec['reads']}
        if rec['arena_reads'] != rec['reads']:
            return ('C15:object-not-in-shared-storage',
                    'op %d: bytes of the objects %s differ from the arena bytes at their (block, size) %s'
                    % (j, rec['reads'], rec['arena_reads']))
        touched = set()
        if op[0] == 'new':
            k = nobj
            nobj += 1
            blk, size = rec['block'], rec['size']
            want = json.loads(json.dumps(rec['expect']))
            # independent expectation (ordinary ctypes object built here)
            mine = expected_bytes(op)
            if mine != want:
                return ('C15:driver-expectation', 'driver and checker disagree on the private encoding at op %d' % j)
            if reads.get(k) != want:
                return ('C15:not-initialised', 'op %d %s: object reads %s, an ordinary ctypes object holds %s'
                        % (j, json.dumps(op), reads.get(k), want))
            if rec.get('readback'):
                return ('C15:initial-value-read-back-differs',
                        'op %d %s: an ordinary ctypes object of the type the code stands for holds %s, the shared object reads %s'
                        % (j, json.dumps(op), rec['readback'][0], rec['readback'][1]))
            if size != len(want) or size > blk[2] - blk[1] or blk[1] % 8:
                return ('C15:misplaced', 'op %d: size %d in block %s' % (j, size, blk))
            for k2, o2 in live.items():
                b2 = o2['block']
                if b2[0] == blk[0] and b2[1] < blk[2] and blk[1] < b2[2]:
                    return ('C15:overlapping-storage', 'op %d: new object in %s overlaps live object %d in %s' % (j, blk, k2, b2))
            live[k] = dict(block=blk, size=size)
            alias[k] = {k}
            touched = {k}
        elif op[0] == 'drop':
            k = op[1]
            alias.pop(k, {k}).discard(k)        # the set is shared by all objects over the same wrapper
            live.pop(k, None)
        elif op[0] == 'write':
            k, off, data = op[1], op[2], op[3]
            touched = set(alias[k])
            new = list(live[k]['bytes'])
            new[off:off + len(data)] = data
            for a in touched:
                if reads.get(a) != new:
                    return ('C15:write-not-visible', 'op %d: bytes stored through object %d are not read back through object %d' % (j, k, a))
        elif op[0] == 'rebuild':
            k = nobj
            nobj += 1
            src = op[1]
            if rec['block'] != live[src]['block'] or rec['size'] != live[src]['size'] or reads.get(k) != live[src]['bytes']:
                return ('C15:rebuild-other-storage', 'op %d: rebuilt object has block %s, the original %s' % (j, rec['block'], live[src]['block']))
            live[k] = dict(block=rec['block'], size=rec['size'])
            alias[src].add(k)
            alias[k] = alias[src]
            touched = {k}
        # isolation: every other live object is byte-for-byte what it was
        for k2, o2 in live.items():
            if k2 in touched:
                continue
            if reads.get(k2) != o2['bytes']:
                return ('C15:not-isolated', 'op %d %s changed the bytes of live object %d: %s -> %s'
                        % (j, json.dumps(op)[:200], k2, o2['bytes'], reads.get(k2)))
        if set(reads) != set(live):
            return ('C15:driver-live-set', 'op %d: live objects %s, read %s' % (j, sorted(live), sorted(reads)))
        for k2 in live:
            live[k2]['bytes'] = reads[k2]
    return None


def expected_bytes(op):
    kind, spec = op[1], op[2]
    t = spec['t']
    ct = ALLT[t]
    if kind == 0:
        return enc(ct(*[conv(t, a) for a in spec['args']]))
    if kind == 1:
        return enc((ct * spec['n'])())
    vals = [conv(t, a) for a in spec['init']]
    return enc((ct * len(vals))(*vals))


# ------------------------------------------------------------- hand-overs between processes
def type_id(t):
    """the ctypes type behind a type name, as a number (aliases such as c_longlong/c_long share one)"""
    ct = ALLT[t]
    return [i for i, n in enumerate(ALLT) if ALLT[n] is ct][0]


def spec_size(kind, spec):
    ct = ALLT[spec['t']]
    if kind == 0:
        return ctypes.sizeof(ct)
    return ctypes.sizeof(ct) * (spec['n'] if kind == 1 else len(spec['init']))


def rand_spec(rng, allow_sync=True):
    t = rng.choice(list(ALLT))
    kind = rng.choice([0, 0, 1, 2, 2])
    sync = allow_sync and rng.random() < 0.35
    if kind == 0:
        if t in ('Point', 'Pad', 'Mixed'):
            args = rand_value(rng, t)
        else:
            args = [] if rng.random() < 0.3 else [rand_value(rng, t)]
        return kind, dict(t=t, args=args, sync=sync)
    if kind == 1:
        return kind, dict(t=t, n=rng.choice([1, 2, 3, 5]), sync=sync)
    return kind, dict(t=t, init=[rand_value(rng, t) for _ in range(rng.choice([1, 2, 3, 6]))], sync=sync)


def gen_hop_case(rng):
    """spawn processes, allocate in any of them, send any handle from its holder to any process (most often the
    newest handle to another process: chains of hand-overs), store through any handle"""
    ops, nproc = [], 1
    handles = []                      # dict(holder, size, root, live)
    for _ in range(rng.choice([5, 8, 12, 18, 26])):
        r = rng.random()
        alive = [k for k, h in enumerate(handles) if h['live']]
        if (nproc < 6 and r < 0.15) or (nproc == 1 and r < 0.4):
            ops.append(['spawn'])
            nproc += 1
        elif alive and r < 0.27:
            # drop: a received handle at any time; an original only when nobody else still holds a handle on it
            # (the discipline under which isolation is guaranteed; the undisciplined orders are in hop_finding_cases)
            ok = [k for k in alive if handles[k]['root'] != k
                  or not any(j != k and handles[j]['root'] == k for j in alive)]
            if not ok:
                continue
            k = rng.choice(ok)
            if handles[k]['size'] and rng.random() < 0.6:
                ops.append(['write', k, 0, [rng.choice([255, 0xAA, 0x5A, 1]) for _ in range(handles[k]['size'])]])
            ops.append(['drop', k])
            handles[k]['live'] = False
        elif alive and nproc > 1 and r < 0.6:
            k = alive[-1] if rng.random() < 0.55 else rng.choice(alive)
            others = [q for q in range(nproc) if q != handles[k]['holder']]
            q = rng.choice(others) if rng.random() < 0.9 else handles[k]['holder']
            ops.append(['send', k, q])
            handles.append(dict(holder=q, size=handles[k]['size'], root=handles[k]['root'], live=True))
        elif alive and r < 0.8:
            cands = [k for k in alive if handles[k]['size']]
            if not cands:
                continue
            k = cands[-1] if rng.random() < 0.4 else rng.choice(cands)
            sz = handles[k]['size']
            off = rng.randint(0, sz - 1)
            ln = rng.randint(1, sz - off)
            ops.append(['write', k, off, [rng.randint(0, 255) for _ in range(ln)]])
        else:
            p = rng.randrange(nproc)
            kind, spec = rand_spec(rng)
            ops.append(['new', p, kind, spec])
            handles.append(dict(holder=p, size=spec_size(kind, spec), root=len(handles), live=True))
    return dict(ops=ops)


def hop_boundary_cases():
    """for every type: parent allocates, child, grandchild and great-grandchild receive it in turn (none of them ever
    allocates that type), each stores through its handle; plus the same with a receiver that did allocate the type"""
    out = []
    for t in list(ALLT):
        v = {'c': 200, 'u': 0x20AC, 'f': 1.5, 'd': -2.25, 'Point': [1.0, 2.0], 'Pad': [77, 5], 'Mixed': [1, 2, 3], 'c_bool': True}.get(t, 1)
        args = v if isinstance(v, list) else [v]
        sz = ctypes.sizeof(ALLT[t])
        for kind, spec, size in ((0, dict(t=t, args=args, sync=t not in ('Point', 'Pad', 'Mixed')), sz),
                                 (2, dict(t=t, init=[args[0] if t not in ('Point', 'Pad', 'Mixed') else args[:1]] * 2, sync=False), 2 * sz)):
            out.append(dict(ops=[['new', 0, kind, spec], ['spawn'], ['spawn'], ['spawn'],
                                 ['send', 0, 1], ['write', 1, 0, [0x11] * size],
                                 ['send', 1, 2], ['write', 2, 0, [0x22] * size],
                                 ['send', 2, 3], ['write', 3, size - 1, [0x33]],
                                 ['send', 3, 0], ['write', 0, 0, [0x44]]]))
    out.append(dict(ops=[['spawn'], ['spawn'], ['new', 0, 0, dict(t='i', args=[7], sync=True)], ['new', 1, 0, dict(t='i', args=[8])],
                         ['send', 0, 1], ['send', 2, 2], ['send', 3, 0], ['send', 1, 2], ['write', 3, 0, [1, 2, 3, 4]],
                         ['write', 5, 0, [9]], ['send', 5, 0]]))
    return out


def hop_drop_cases():
    """disciplined drops: every receiver drops its handle before the owner drops the original; the storage is then
    recycled for a new object (zero-filled / initialised, the survivors untouched)"""
    out = []
    for t, args, sync in (('i', [7], True), ('d', [1.5], False), ('Pad', [77, 5], False)):
        sz = ctypes.sizeof(ALLT[t])
        out.append(dict(ops=[['new', 0, 0, dict(t=t, args=args, sync=sync)], ['new', 0, 0, dict(t='b', args=[3])], ['spawn'], ['spawn'],
                             ['send', 0, 1], ['send', 2, 2], ['send', 3, 0], ['write', 4, 0, [0xEE] * sz],
                             ['drop', 3], ['drop', 2], ['drop', 4], ['drop', 0],
                             ['new', 0, 0, dict(t=t, args=[])], ['new', 0, 1, dict(t='B', n=sz)], ['send', 5, 2],
                             ['write', 7, 0, [0x21]], ['drop', 1], ['new', 0, 0, dict(t='b', args=[])]]))
    return out


def hop_finding_cases():
    """the owner drops the object it allocated while another handle on it is live (a rebuilt BufferWrapper has no
    finaliser and the owner's heap does not know it), then allocates: recycled while in use"""
    return [
        dict(expect_finding=True,
             ops=[['new', 0, 0, dict(t='i', args=[7])], ['spawn'], ['send', 0, 1], ['drop', 0],
                  ['new', 0, 0, dict(t='i', args=[9])], ['write', 1, 0, [1, 1, 1, 1]]]),
        dict(expect_finding=True,
             ops=[['new', 0, 2, dict(t='i', init=[1, 2], sync=True)], ['spawn'], ['send', 0, 1], ['send', 1, 0], ['drop', 0],
                  ['new', 0, 1, dict(t='h', n=4)]]),
        dict(expect_finding=True,
             ops=[['spawn'], ['spawn'], ['new', 1, 0, dict(t='d', args=[2.5], sync=True)], ['send', 0, 2], ['send', 1, 0],
                  ['drop', 1], ['drop', 0], ['new', 1, 0, dict(t='Pad', args=[65, 66])], ['write', 2, 0, [3] * 8]]),
    ]


def hop_model_op(o):
    if o[0] == 'drop':
        return '(DDrop %s)' % cnat(o[1])
    return '(DOp %s)' % hop_model_op0(o)


def hop_model_op0(o):
    if o[0] == 'spawn':
        return 'HSpawn'
    if o[0] == 'new':
        p, kind, spec = o[1], o[2], o[3]
        t = spec['t']
        ct = ALLT[t]
        tid = type_id(t)
        if kind == 0:
            args = [conv(t, a) for a in spec['args']]
            cty, size, init = '(%d, None)' % tid, ctypes.sizeof(ct), (enc(ct(*args)) if args else [])
        elif kind == 1:
            cty, size, init = '(%d, Some %d)' % (tid, spec['n']), ctypes.sizeof(ct) * spec['n'], []
        else:
            vals = [conv(t, a) for a in spec['init']]
            cty, size, init = '(%d, Some %d)' % (tid, len(vals)), ctypes.sizeof(ct) * len(vals), enc((ct * len(vals))(*vals))
        return '(HNew %s %d %s %s %s)' % (cnat(p), kind, cty, cz(size), clist(init))
    if o[0] == 'send':
        return '(HSend %s %s)' % (cnat(o[1]), cnat(o[2]))
    return '(HWrite %s %s %s)' % (cnat(o[1]), cz(o[2]), clist(o[3]))


def hop_to_coq(c, out):
    obs = []
    for op, rec in zip(c['ops'], out['obs']):
        if 'exc' in rec:
            obs.append('((-2, (-2, -2, -2), -2), [])')
            continue
        cr = rec['created']
        if cr is None:
            head = '(-3, (-1, -1, -1), 0)'
        elif not rec['backed']:
            head = '(-1, (-1, -1, -1), %s)' % cz(cr[2])
        else:
            head = '(%s, %s, %s)' % (cz(cr[0]), cblock(cr[1]), cz(cr[2]))
        live = [(k, b) for k, b in enumerate(rec['reads']) if b is not None]
        obs.append('(%s, %s)' % (head, clist(live, lambda r: '(%s, %s)' % (cnat(r[0]), clist(r[1])))))
    pg = mmap.PAGESIZE
    return '((%s, %s, %s, %s) : SharedHopDrop.dcase)' % (cz(pg), cz(pg), clist(c['ops'], hop_model_op), '[' + '; '.join(obs) + ']')


def hop_monitor(c, out):
    """the property on the implementation trace alone: every new object holds its initial value in its own block; a
    handle obtained by sending is the same storage; a store through any handle is read through every handle that
    descends from the same allocation (any number of hand-overs) and through no other; no hand-over fails"""
    for check_backing in (False, True):
        m = _hop_monitor(c, out, check_backing)
        if m:
            return m
    return None


def _hop_monitor(c, out, check_backing):
    handles = []          # dict(holder, root, hops, created, bytes, what, live)
    nproc = 1

    def name(k):
        h = handles[k]
        return 'handle %d (%s, in process %d, %s)' % (
            k, h['what'], h['holder'], 'allocated there' if not h['hops'] else 'received through %d hand-over%s' % (h['hops'], '' if h['hops'] == 1 else 's'))

    for j, (op, rec) in enumerate(zip(c['ops'], out['obs'])):
        if 'exc' in rec:
            if op[0] == 'send':
                return ('C15:cannot-be-handed-on', 'op %d: %s cannot be sent on to process %d: %s' % (j, name(op[1]), op[2], rec['exc']))
            return ('C15:raised', 'op %d %s raised %s' % (j, json.dumps(op)[:120], rec['exc']))
        reads = rec['reads']
        touched = set()
        if op[0] == 'spawn':
            nproc += 1
        elif op[0] == 'new':
            k = len(handles)
            p, kind, spec = op[1], op[2], op[3]
            want = expected_bytes(['new', kind, spec])
            if rec['expect'] != want:
                return ('C15:driver-expectation', 'driver and checker disagree on the private encoding at op %d' % j)
            cr = rec['created']
            if len(reads) != k + 1 or reads[k] != want:
                return ('C15:not-initialised', 'op %d %s: object reads %s, an ordinary ctypes object holds %s'
                        % (j, json.dumps(op), reads[k] if len(reads) > k else None, want))
            blk = cr[1]
            if cr[0] != p or cr[2] != len(want) or cr[2] > blk[2] - blk[1] or blk[1] % 8:
                return ('C15:misplaced', 'op %d: process %d allocated size %d in block %s of process %d' % (j, p, cr[2], blk, cr[0]))
            for k2, h2 in enumerate(handles):
                c2 = h2['created']
                if h2['live'] and c2[0] == cr[0] and c2[1][0] == blk[0] and c2[1][1] < blk[2] and blk[1] < c2[1][2]:
                    if not handles[h2['root']]['live']:
                        return (SIG_RECYCLED,
                                'op %d: process %d allocates %s in block %s of its arena %d -- the storage of the live %s, which now reads %s '
                                'instead of %s: process %d had dropped the object it allocated (handle %d) while that handle was still in use; '
                                'a BufferWrapper rebuilt by unpickling has no finaliser and the owner\'s heap does not know it, so the block '
                                'was freed and recycled -- two live shared objects share storage'
                                % (j, p, describe(kind, spec), blk[1:], blk[0], name(k2), reads[k2], h2['bytes'], cr[0], h2['root']))
                    return ('C15:overlapping-storage', 'op %d: new object in %s overlaps %s in %s' % (j, blk, name(k2), c2[1]))
            if check_backing and not rec['backed']:
                return ('C15:object-not-in-shared-storage', 'op %d: the new object is not the memory of its block' % j)
            handles.append(dict(holder=p, root=k, hops=0, created=cr, what=describe(kind, spec), live=True))
            touched = {k}
        elif op[0] == 'send':
            k = len(handles)
            src, q = op[1], op[2]
            h = handles[src]
            if len(reads) != k + 1 or reads[k] != h['bytes'] or rec['created'] != h['created'] or rec['raw_cls'][0] != rec['raw_cls'][1] \
                    or rec['cls'][0] != rec['cls'][1]:
                return ('C15:rebuild-other-storage', 'op %d: %s sent to process %d arrives as %s over storage %s reading %s; the sender\'s is %s over %s reading %s'
                        % (j, name(src), q, rec['cls'][1], rec['created'], reads[k] if len(reads) > k else None, rec['cls'][0], h['created'], h['bytes']))
            if rec.get('lock_shared') is False:
                return ('C15:rebuilt-lock-not-shared', 'op %d: %s sent to process %d: the received wrapper\'s lock does not exclude the sender\'s' % (j, name(src), q))
            handles.append(dict(holder=q, root=h['root'], hops=h['hops'] + 1, created=rec['created'], what=h['what'], live=True))
            if check_backing and not rec['backed']:
                return ('C15:object-not-in-shared-storage',
                        'op %d: %s sent to process %d: the received object is a private copy, not the memory of block %s '
                        '(stores through it are seen by no other process)' % (j, name(src), q, rec['created']))
            touched = {k}
        elif op[0] == 'write':
            k, off, data = op[1], op[2], op[3]
            new = list(handles[k]['bytes'])
            new[off:off + len(data)] = data
            touched = {a for a, h in enumerate(handles) if h['root'] == handles[k]['root'] and h['live']}
            for a in sorted(touched, key=lambda a: (a != k, a)):
                if reads[a] != new:
                    return ('C15:write-not-visible', 'op %d: bytes %s stored at offset %d through %s are not read through %s: it reads %s, expected %s'
                            % (j, data, off, name(k), name(a), reads[a], new))
        elif op[0] == 'drop':
            handles[op[1]]['live'] = False
        if len(reads) != len(handles) or [r is not None for r in reads] != [h['live'] for h in handles]:
            return ('C15:driver-live-set', 'op %d: handles %s, read %s' % (j, [h['live'] for h in handles], [r is not None for r in reads]))
        for k2, h2 in enumerate(handles):
            if h2['live'] and k2 not in touched and reads[k2] != h2['bytes']:
                return ('C15:not-isolated', 'op %d %s changed the bytes of %s: %s -> %s'
                        % (j, json.dumps(op)[:200], name(k2), h2['bytes'], reads[k2]))
        for k2, h2 in enumerate(handles):
            h2['bytes'] = reads[k2]
    return None


def describe(kind, spec):
    f = ('Value' if spec.get('sync') else 'RawValue') if kind == 0 else ('Array' if spec.get('sync') else 'RawArray')
    arg = spec.get('args') if kind == 0 else (spec.get('n') if kind == 1 else spec.get('init'))
    return '%s(%s, %s)' % (f, spec['t'], json.dumps(arg))


def hop_drop_op(ops, i):
    """ops without op i; processes and handles are renumbered, ops referring to something removed go too"""
    out, pmap, hmap = [], {0: 0}, {}
    np_old = 1
    nh_old = 0
    for j, o in enumerate(ops):
        if o[0] == 'spawn':
            P = np_old
            np_old += 1
            if j != i:
                pmap[P] = len(pmap)
                out.append(o)
        elif o[0] == 'new':
            H = nh_old
            nh_old += 1
            if j != i and o[1] in pmap:
                hmap[H] = len(hmap)
                out.append(['new', pmap[o[1]], o[2], o[3]])
        elif o[0] == 'send':
            H = nh_old
            nh_old += 1
            if j != i and o[1] in hmap and o[2] in pmap:
                hmap[H] = len(hmap)
                out.append(['send', hmap[o[1]], pmap[o[2]]])
        elif o[0] == 'drop':
            if j != i and o[1] in hmap:
                out.append(['drop', hmap[o[1]]])
        elif j != i and o[1] in hmap:
            out.append(['write', hmap[o[1]], o[2], o[3]])
    return out


def shrink_hops(case, sig, budget=60):
    def fails(c):
        try:
            o = core.run_driver('sharedmem_driver.py', dict(mode='hops', cases=[c]))[0]
            m = hop_monitor(c, o)
        except Exception:
            return False
        return bool(m) and m[0] == sig
    best = case
    changed = True
    while changed and budget > 0:
        changed = False
        i = len(best['ops']) - 1
        while i >= 0 and budget > 0:
            c = dict(best, ops=hop_drop_op(best['ops'], i))
            if len(c['ops']) < len(best['ops']):
                budget -= 1
                if fails(c):
                    best = c
                    changed = True
                    i = min(i, len(best['ops']))
            i -= 1
    return best


def hops(res, n):
    rng = random.Random(res.seed * 104729 + 1515)
    cases = hop_boundary_cases() + hop_drop_cases() + hop_finding_cases() + [gen_hop_case(rng) for _ in range(n)]
    outs = core.run_driver('sharedmem_driver.py', dict(mode='hops', cases=cases))
    terms = [hop_to_coq(c, o) for c, o in zip(cases, outs)]
    codes, _ = core.coq_eval('C15h', HEADER_HOPS, core.chunks(terms, 30 if len(terms) <= 240 else 100))
    bad = dict(codes)
    first = True
    for i, (c, o) in enumerate(zip(cases, outs)):
        m = hop_monitor(c, o)
        if m:
            if first and not (c.get('expect_finding') and m[0] == SIG_RECYCLED):
                first = False
                cut = dict(c, ops=c['ops'][:len(o['obs'])])
                small = shrink_hops(cut, m[0])
                o2 = core.run_driver('sharedmem_driver.py', dict(mode='hops', cases=[small]))[0]
                m2 = hop_monitor(small, o2)
                if m2 and m2[0] == m[0]:
                    c, o, m = small, o2, m2
            res.alarms.append(dict(signature=m[0], what=m[1][:900], replay=dict(hop_case=c, impl=o['obs'])))
        elif i in bad:
            res.broken.append(dict(kind='correspondence', name='SharedHop model vs billiard.sharedctypes hand-overs',
                                   detail=json.dumps(dict(hop_case=c, impl=o['obs']))[:4000]))
    kinds, depth, second_hops, types_ = {}, {}, 0, {}
    for c in cases:
        hs = []
        for op in c['ops']:
            kinds[op[0]] = kinds.get(op[0], 0) + 1
            if op[0] == 'new':
                hs.append(0)
                types_[op[3]['t']] = types_.get(op[3]['t'], 0) + 1
            elif op[0] == 'send':
                hs.append(hs[op[1]] + 1)
                depth[hs[-1]] = depth.get(hs[-1], 0) + 1
                second_hops += hs[-1] >= 2
    nontrivial = {json.dumps(c, sort_keys=True) for c in cases
                  if any(o[0] == 'send' for o in c['ops']) and any(o[0] == 'write' for o in c['ops'])}
    recycled_after_drop = sum(1 for c, o in zip(cases, outs) if not c.get('expect_finding') and any(
        op[0] == 'new' and rec.get('created') and any(
            op2[0] == 'new' and r2.get('created') == rec['created'] for op2, r2 in list(zip(c['ops'], o['obs']))[:j])
        for j, (op, rec) in enumerate(zip(c['ops'], o['obs']))))
    res.add_cov(evaluations=len(cases), distinct=len(nontrivial), traces=len(cases), hand_over_histories=len(cases),
                hand_over_histories_with_drops=sum(1 for c in cases if any(o[0] == 'drop' for o in c['ops'])),
                hand_over_histories_recycling_a_dropped_objects_storage=recycled_after_drop,
                owner_drops_while_receiver_lives_cases=sum(1 for c in cases if c.get('expect_finding')),
                hand_over_op_histogram=kinds, hand_over_type_histogram=types_,
                hand_overs_by_depth={str(k): v for k, v in sorted(depth.items())}, hand_overs_from_a_receiver=second_hops,
                rule='hand-over histories: spawn / allocate in any process / send any handle from its holder to any process (pickle round '
                     'trip as for a spawn child; every emulated process has its own ForkingPickler registry, sharedctypes caches and heap) / '
                     'store through any handle / drop any handle in its holder (random histories: an original only after every other handle on '
                     'it is gone; the other orders are the designated owner-drops-while-receiver-lives cases); per-type chains of three '
                     'hand-overs; non-trivial = at least one hand-over and one store')


# ------------------------------------------------------------- real chains parent -> child -> grandchild
def chain_cases(tier, widen=False):
    cs = [dict(method='spawn', depth=2, n=25, obj=dict(kind='Value', t='i', value=5, sync=True)),
          dict(method='spawn', depth=3, n=3, obj=dict(kind='Array', t='d', init=[0.5, 1.5, 2.5], sync=True)),
          dict(method='spawn', depth=2, n=4, obj=dict(kind='Value', t='h', value=12, sync=False))]
    if tier != 'quick' or widen:
        cs += [dict(method='spawn', depth=3, n=200, obj=dict(kind='Value', t='l', value=-7, sync=True)),
               dict(method='spawn', depth=2, n=5, obj=dict(kind='Array', t='i', init=[1, 2, 3, 4], sync=False)),
               dict(method='spawn', depth=4, n=2, obj=dict(kind='Value', t='d', value=0.25, sync=True)),
               dict(method='spawn', depth=2, n=3, obj=dict(kind='Array', t='B', init=[1, 2], sync=True)),
               dict(method='spawn', depth=2, n=5, obj=dict(kind='Value', t='c_ulonglong', value=2 ** 40, sync=True))]
    if tier != 'quick':
        cs += [dict(c, method='forkserver') for c in cs[:4]] + [dict(c, method='fork') for c in cs[:2]]
    return cs


def chain_expect(c):
    """the value after level 1, 2, ... worked on it (sharedmem_targets.act), computed here"""
    spec = c['obj']
    cur = spec['value'] if spec['kind'] == 'Value' else list(spec['init'])
    states = [cur]
    for level in range(1, c['depth'] + 1):
        if spec['kind'] == 'Value':
            cur = cur + c['n'] * level
        else:
            cur = [x + c['n'] * level * (j + 1) for j, x in enumerate(cur)]
        states.append(cur)
    return states


def chain_monitor(c, r):
    """None or (signature, text): every level saw what the level before left, and what the last level left is what every
    level and the creating process read at the end"""
    tag = '%s(%s) handed on %s through %d processes (%s)' % (
        ('' if c['obj'].get('sync') else 'Raw') + c['obj']['kind'], c['obj']['t'], 'parent -> child -> grandchild' if c['depth'] == 2 else 'down a chain',
        c['depth'], c['method'])
    if 'error' in r:
        return ('C15:chain-scenario-failed', '%s: %s' % (tag, r['error']))
    st = chain_expect(c)
    if r.get('initial') != st[0]:
        return ('C15:not-initialised', '%s: created holding %s, expected %s' % (tag, r.get('initial'), st[0]))
    rep = r.get('report')
    level = 1
    reps = []
    while rep is not None:
        reps.append(rep)
        if 'error' in rep:
            return ('C15:raised', '%s: level %d raised %s' % (tag, level, rep['error']))
        if rep.get('saw') != st[level - 1]:
            return ('C15:write-not-visible', '%s: the process at level %d saw %s on entry, the level above had left %s'
                    % (tag, level, rep.get('saw'), st[level - 1]))
        if rep.get('wrote') != st[level]:
            return ('C15:lost-update', '%s: level %d read back %s after its %d updates, expected %s' % (tag, level, rep.get('wrote'), c['n'], st[level]))
        if 'start_error' in rep:
            return ('C15:cannot-be-handed-on', '%s: the process at level %d, which only received the object, cannot hand it on: %s'
                    % (tag, level, rep['start_error']))
        if level < c['depth'] and rep.get('sub') is None:
            return ('C15:chain-scenario-failed', '%s: no report from level %d (exit code %s)' % (tag, level + 1, rep.get('exitcode')))
        rep = rep.get('sub')
        level += 1
    if len(reps) != c['depth']:
        return ('C15:chain-scenario-failed', '%s: %d of %d levels reported (exit code %s)' % (tag, len(reps), c['depth'], r.get('exitcode')))
    for lv in range(len(reps), 0, -1):
        if reps[lv - 1].get('after') != st[-1]:
            return ('C15:write-not-visible', '%s: the updates made at level %d (it read back %s) are not visible at level %d, which reads %s at the end'
                    % (tag, c['depth'], reps[-1].get('after'), lv, reps[lv - 1].get('after')))
    if r.get('final') != st[-1]:
        return ('C15:write-not-visible', '%s: the creating process reads %s at the end; the %d levels below left %s (level %d read back %s)'
                % (tag, r.get('final'), c['depth'], st[-1], c['depth'], reps[-1].get('after')))
    return None


def chains(res, widen=False):
    cases = chain_cases(res.tier, widen)
    outs = core.run_driver('sharedmem_driver.py', dict(mode='chain', cases=cases), timeout=900)
    carried = {}
    for c, r in zip(cases, outs):
        m = chain_monitor(c, r)
        if m and m[0] == 'C15:chain-scenario-failed' and c['method'] != 'spawn':
            res.notes.append('start method %s could not carry the chain in this sandbox: %s' % (c['method'], m[1]))
            continue
        if m:
            res.alarms.append(dict(signature=m[0], what=m[1][:900], replay=dict(chain_case=c, impl=r)))
        else:
            carried[c['method']] = carried.get(c['method'], 0) + 1
    res.add_cov(evaluations=len(cases), distinct=len(cases), traces=len(cases), real_chain_scenarios=len(cases),
                real_chains_by_method=carried, real_chain_depths=sorted({c['depth'] for c in cases}),
                rule='real processes: the object is handed parent -> child -> grandchild (-> ...), every level updates it (under its lock '
                     'where it has one) and starts the next; each level must see what the level above left and, at the end, what the last left')


# ------------------------------------------------------------- shrinking a failing history
def drop_op(ops, i):
    """ops without op i; object numbers are renumbered, ops referring to a removed object go too"""
    gone, ren, out = set(), {}, []
    nobj = 0
    for j, o in enumerate(ops):
        creates = o[0] in ('new', 'rebuild')
        refers = o[0] in ('drop', 'write', 'rebuild')
        if j == i or (refers and o[1] in gone):
            if creates:
                gone.add(nobj)
                nobj += 1
            continue
        o2 = list(o)
        if refers:
            o2[1] = ren[o[1]]
        out.append(o2)
        if creates:
            ren[nobj] = sum(1 for x in out if x[0] in ('new', 'rebuild')) - 1
            nobj += 1
    return out


def shrink(case, sig, budget=100):
    def fails(c):
        try:
            o = core.run_driver('sharedmem_driver.py', dict(mode='mem', cases=[c]))[0]
            m = monitor(c, o)
        except Exception:
            return False
        return bool(m) and m[0] == sig
    best = case
    changed = True
    while changed and budget > 0:
        changed = False
        i = len(best['ops']) - 1
        while i >= 0 and budget > 0:
            budget -= 1
            c = dict(best, ops=drop_op(best['ops'], i))
            if len(c['ops']) < len(best['ops']) and fails(c):
                best = c
                changed = True
                i = min(i, len(best['ops']))
            i -= 1
    return best


# ------------------------------------------------------------- run
def judge(res, cases, outs, tag):
    terms = [to_coq(c, o) for c, o in zip(cases, outs)]
    codes, _ = core.coq_eval('C15' + tag, HEADER, core.chunks(terms, 30 if len(terms) <= 240 else 100))
    bad = dict(codes)
    first = True
    for i, (c, o) in enumerate(zip(cases, outs)):
        m = monitor(c, o)
        if m:
            if first and not c.get('real'):
                first = False
                # cut after the op complained about, then remove ops one by one
                cut = dict(c, ops=c['ops'][:len(o['obs'])])
                for k in range(1, len(o['obs']) + 1):
                    c2 = dict(c, ops=c['ops'][:k])
                    m2 = monitor(c2, dict(obs=o['obs'][:k]))
                    if m2 and m2[0] == m[0]:
                        cut = c2
                        break
                small = shrink(cut, m[0])
                o2 = core.run_driver('sharedmem_driver.py', dict(mode='mem', cases=[small]))[0]
                m2 = monitor(small, o2)
                if m2 and m2[0] == m[0]:
                    c, o, m = small, o2, m2
            res.alarms.append(dict(signature=m[0], what=m[1][:900], replay=dict(case=c, impl=o['obs'])))
        elif i in bad:
            res.broken.append(dict(kind='correspondence', name='SharedMem model vs billiard.sharedctypes',
                                   detail=json.dumps(dict(case=c, impl=o['obs']))[:4000]))


def correspond(res, n):
    rng = random.Random(res.seed * 7907 + 15)
    corpus = json.load(open(core.VERIF + '/corpus/C15.json'))
    cases = corpus + [gen_case(rng) for _ in range(n)] + boundary_cases()
    outs = core.run_driver('sharedmem_driver.py', dict(mode='mem', cases=cases))
    judge(res, cases, outs, '')
    kinds, types_, recycled = {}, {}, 0
    for c, o in zip(cases, outs):
        seen = set()
        dropped = False
        for op, rec in zip(c['ops'], o['obs']):
            kinds[op[0]] = kinds.get(op[0], 0) + 1
            if op[0] == 'new':
                types_[op[2]['t']] = types_.get(op[2]['t'], 0) + 1
                if dropped and rec.get('block') and tuple(rec['block'][:2]) in seen:
                    recycled += 1
                if rec.get('block'):
                    seen.add(tuple(rec['block'][:2]))
            if op[0] == 'drop':
                dropped = True
    nontrivial = {json.dumps(c, sort_keys=True) for c in cases
                  if sum(1 for o in c['ops'] if o[0] == 'new') >= 2 and any(o[0] in ('drop', 'write') for o in c['ops'])}
    res.add_cov(evaluations=len(cases), distinct=len(nontrivial), traces=len(cases),
                samples=[dict(case=cases[len(corpus)], impl=outs[len(corpus)]['obs'][:3])],
                rule='random create/dirty/drop/rebuild histories over all 12 type codes, ctypes types, structures with padding '
                     '(full and partial initialisers), RawValue/RawArray(n)/RawArray(init) and their lock-wrapped forms, page sizes '
                     '64/256/4096, plus per-type boundary cases; non-trivial = at least two objects and one drop or store',
                op_histogram=kinds, type_histogram=types_, objects_created_in_recycled_storage=recycled)


def traces(res):
    outs = core.run_driver('sharedmem_driver.py', dict(mode='trace'))
    tr = [o for o in outs if o['locked'] is not None]
    terms = ['(%s, %s)' % ('true' if o['locked'] else 'false', '[' + '; '.join(o['trace']) + ']') for o in tr]
    codes, _ = core.coq_eval('C15t', HEADER_TRACE, [terms])
    for i, _ in codes:
        res.alarms.append(dict(signature='C15:accessor-lock-trace',
                               what='%s performs %s, the atomicity theorem is about another program' % (tr[i]['what'], tr[i]['trace']),
                               replay=dict(trace=tr[i])))
    rec = [o for o in outs if o['locked'] is None][0]
    if not rec['result']:
        res.alarms.append(dict(signature='C15:default-lock-not-recursive',
                               what='the default lock of Value (%s) cannot be re-acquired by its holder: `with v.get_lock(): v.value += 1` would deadlock' % rec.get('lock_type'),
                               replay=dict(trace=rec)))
    res.add_cov(evaluations=len(tr), traces=len(tr), lock_traces_compared=len(tr),
                rule='recorded Acq/Rel/Read/Write traces of the real Synchronized wrappers')


def judge_lock_record(r):
    """None or (signature, text) for one record of the driver's `locks` mode"""
    tag = '%s, lock=%s' % (r['kind'], r.get('lock', 'default'))
    if 'exc' in r:
        return ('C15:raised', '%s check on %s raised %s' % (r['check'], tag, r['exc']))
    if r['check'] == 'explicit-lock':
        if r['cls'] != r['want_cls'] or r['sync_cls'] != r['want_cls']:
            return ('C15:wrong-wrapper-class', '%s: wrapper class %s/%s, expected %s' % (tag, r['cls'], r['sync_cls'], r['want_cls']))
        if not (r['same'] and r['bound']):
            return ('C15:given-lock-not-used', '%s: the wrapper returned by Value/Array(..., lock=L) does not use L '
                    '(get_lock() is L: %s; acquire/release bound to L: %s) -- updates "under the object\'s lock" do not exclude '
                    'holders of L' % (tag, r['same'], r['bound']))
        if not (r['sync_same'] and r['sync_pos_same']):
            return ('C15:given-lock-not-used', '%s: synchronized(obj, lock=L).get_lock() is not L (keyword: %s, positional: %s)'
                    % (tag, r['sync_same'], r['sync_pos_same']))
    elif r['check'] == 'truth-value-lock':
        if r['cls'] != r['want_cls']:
            return ('C15:wrong-wrapper-class', '%s: wrapper class %s, expected %s' % (tag, r['cls'], r['want_cls']))
        used = r['same'] and r['bound'] and r['sync_same'] and r['sync_pos_same']
        if not used and not r['truth']:
            return (SIG_FALSY_LOCK,
                    '%s: L has acquire/release but is false in a boolean context; Value/Array(..., lock=L) and synchronized(obj, L) '
                    'silently use a private %s instead (get_lock() is L: %s / %s / %s) -- SynchronizedBase.__init__ keeps the given lock '
                    'only `if lock:`; a thread holding L does not keep another out of `with w.get_lock():` (excluded: %s)'
                    % (tag, r.get('used_type'), r['same'], r['sync_same'], r['sync_pos_same'], r['holder_of_L_excludes_wrapper_lock']))
        if not used or not r['holder_of_L_excludes_wrapper_lock']:
            return ('C15:given-lock-not-used', '%s (truth value %s): the wrapper does not use L (get_lock() is L: %s; acquire/release '
                    'bound to L: %s; synchronized(): %s/%s; a holder of L excludes the wrapper\'s lock: %s)'
                    % (tag, r['truth'], r['same'], r['bound'], r['sync_same'], r['sync_pos_same'], r['holder_of_L_excludes_wrapper_lock']))
    elif r['check'] == 'truth-value-lock-update':
        if r['final'] != r['expected']:
            if not r['truth']:
                return (SIG_FALSY_LOCK,
                        'lost update: v = Value(\'i\', 0, lock=L) with a lock object L whose truth value is False (it defines __bool__); updater A '
                        'runs `with L: v.value += 1`, updater B `with v.get_lock(): v.value += 1`; B ran inside A\'s critical section (%s) and '
                        'the value ends at %s instead of %s: SynchronizedBase.__init__ keeps the given lock only `if lock:` and silently '
                        'made a private RLock, so the lock given is not the object\'s lock' % (r['b_ran_inside_a'], r['final'], r['expected']))
            return ('C15:lost-update', '%s: two locked increments gave %s' % (tag, r['final']))
    elif r['check'] == 'falsy-non-lock':
        return None          # 0 / '' / []: not locks; what the code does with them is compared with the model only
    elif r['check'] == 'default-lock':
        if {r['true_type'], r['none_type'], r['sync_none_type']} != {'RLock'}:
            return ('C15:default-lock-not-recursive', '%s: lock=True/None/synchronized() give %s/%s/%s, not an RLock'
                    % (r['kind'], r['true_type'], r['none_type'], r['sync_none_type']))
        if not r['false_is_raw']:
            return ('C15:lock-false-not-raw', '%s: lock=False does not return the raw ctypes object' % r['kind'])
    elif r['check'] == 'pickle-roundtrip':
        if r['cls'] != r['want_cls'] or r['lock_type'] != r['lock_type2']:
            return ('C15:wrong-wrapper-class', '%s: rebuilt as %s with a %s (was %s with a %s)'
                    % (tag, r['cls'], r['lock_type2'], r['want_cls'], r['lock_type']))
        if r['sem_name'] != r['sem_name2'] or not r['excluded_while_held'] or not r['free_after_release']:
            return ('C15:rebuilt-lock-not-shared',
                    '%s: after a pickle round trip (as for a spawn/forkserver child) the wrapper\'s lock is semaphore %s, the '
                    'original\'s %s; rebuilt lock excluded while the original is held: %s -- locked updates from a child '
                    'would be lost' % (tag, r['sem_name2'], r['sem_name'], r['excluded_while_held']))
        if r['state'] != r['state2'] or r['bytes1'] != r['bytes2']:
            return ('C15:rebuild-other-storage', '%s: rebuilt wrapper addresses %s / reads %s, the original %s / %s'
                    % (tag, r['state2'], r['bytes2'], r['state'], r['bytes1']))
    return None


def lockarg_term(r):
    """(what was given: None / Some truth value, whether the wrapper uses the given object) for SharedMem.check_lockarg"""
    if 'exc' in r:
        return None
    if r['check'] == 'explicit-lock':
        return '(Some true, %s)' % core.cbool(r['same'] and r['sync_same'] and r['sync_pos_same'])
    if r['check'] == 'truth-value-lock':
        return '(Some %s, %s)' % (core.cbool(r['truth']), core.cbool(r['same'] and r['sync_same'] and r['sync_pos_same']))
    if r['check'] == 'falsy-non-lock':
        return '(Some false, %s)' % core.cbool(r['sync_lock_type'] != 'RLock')
    if r['check'] == 'default-lock':
        return '(None, false)'
    return None


def locks(res):
    """the lock handed to Value/Array/synchronized is the lock the wrapper uses -- for every wrapper class,
    explicit Lock/RLock/foreign lock object, lock objects of either truth value, and after a pickle round trip in
    spawn mode; which lock the wrapper ends up with is compared with the model (`if lock:`) in Coq"""
    outs = core.run_driver('sharedmem_driver.py', dict(mode='locks'))
    falsy = []
    for r in outs:
        m = judge_lock_record(r)
        if m and m[0] == SIG_FALSY_LOCK:
            falsy.append((r, m))
        elif m:
            res.alarms.append(dict(signature=m[0], what=m[1], replay=dict(lock_check=r)))
    if falsy:
        # one finding, one alarm: the lost update if it was observed, else the first identity failure
        prim = [x for x in falsy if x[0]['check'] == 'truth-value-lock-update'] or falsy
        ident = [x[0] for x in falsy if x[0]['check'] == 'truth-value-lock']
        res.alarms.append(dict(signature=SIG_FALSY_LOCK,
                               what=prim[0][1][1] + ' [get_lock() is not the given lock in %d checks: %s x %s]'
                               % (len(ident), sorted({r['kind'] for r in ident}), sorted({r['lock'] for r in ident})),
                               replay=dict(lock_check=prim[0][0])))
    recs = [(r, lockarg_term(r)) for r in outs]
    recs = [(r, t) for r, t in recs if t]
    codes, _ = core.coq_eval('C15l', HEADER_LOCKARG, [[t for _, t in recs]])
    for i, _ in codes:
        res.broken.append(dict(kind='correspondence', name='which lock the wrapper keeps: model (`if lock:`) vs SynchronizedBase.__init__',
                               detail=json.dumps(recs[i][0])[:2000]))
    for r in outs:
        if r['check'] == 'falsy-non-lock' and r.get('ctor') != 'AttributeError':
            res.broken.append(dict(kind='correspondence', name='Value/Array(lock=<falsy non-lock>) no longer refuses it',
                                   detail=json.dumps(r)[:2000]))
    kinds = sorted({r['kind'] for r in outs})
    res.add_cov(evaluations=len(outs), distinct=len(outs), traces=len(outs), lock_identity_checks=len(outs),
                lock_identity_kinds=kinds, lock_argument_cases_compared_with_the_model=len(recs),
                lock_checks_by_kind={k: sum(1 for r in outs if r['check'] == k) for k in sorted({r['check'] for r in outs})},
                rule='lock identity: every wrapper class x {Lock, RLock, foreign lock, lock objects with __bool__/__len__ of either truth '
                     'value, default, falsy non-locks} x {direct, synchronized(), pickle round trip under the spawning flag}; a scripted '
                     'two-updater schedule for the lost update')


# ------------------------------------------------------------- the owner drops while a REAL child uses the object
def orphan_cases(tier, widen=False):
    cs = [dict(method='spawn', kind='Value', t='i', first=7, second=9, store=1234, sync=False)]
    if tier != 'quick' or widen:
        cs += [dict(method='spawn', kind='Array', t='d', first=[0.5, 1.5], second=[2.0, 3.0], store=-1.0, sync=True),
               dict(method='fork', kind='Value', t='i', first=7, second=9, store=1234, sync=True),
               dict(method='forkserver', kind='Value', t='h', first=7, second=9, store=1234, sync=False)]
    return cs


def orphan_monitor(c, r):
    tag = '%s%s(%s) handed to a %s child inside a holder' % ('' if c.get('sync') else 'Raw', c['kind'], c['t'], c['method'])
    if 'error' in r or r.get('child_saw_on_entry') is None or r.get('child_saw_after_parent_allocated') is None:
        return ('C15:chain-scenario-failed', '%s: %s' % (tag, r.get('error', 'no report from the child')))
    if r['child_saw_on_entry'] != c['first']:
        return ('C15:write-not-visible', '%s: the child saw %s on entry, created holding %s' % (tag, r['child_saw_on_entry'], c['first']))
    if r['second_initial'] != c['second']:
        return ('C15:not-initialised', '%s: the parent\'s second object was created holding %s, expected %s' % (tag, r['second_initial'], c['second']))
    if r['child_saw_after_parent_allocated'] != c['first'] or r['second_after_child_stored'] != c['second']:
        return (SIG_RECYCLED,
                '%s (real processes): after the child read %s through it, the parent dropped its own reference and allocated another object '
                '(block %s, the first was in %s); the child then read %s through ITS live object (nobody stored through it), stored %s, and the '
                'parent\'s new object -- created holding %s -- reads %s: the block was freed and recycled while the child still used it '
                '(a rebuilt BufferWrapper has no finaliser, the owner\'s heap does not know the child\'s handle)'
                % (tag, r['child_saw_on_entry'], r['second_block'], r['first_block'], r['child_saw_after_parent_allocated'], c['store'],
                   c['second'], r['second_after_child_stored']))
    return None


def orphans(res, widen=False):
    cases = orphan_cases(res.tier, widen)
    outs = core.run_driver('sharedmem_driver.py', dict(mode='orphan', cases=cases), timeout=600)
    for c, r in zip(cases, outs):
        m = orphan_monitor(c, r)
        if m and m[0] == 'C15:chain-scenario-failed' and c['method'] != 'spawn':
            res.notes.append('start method %s could not carry the owner-drops scenario in this sandbox: %s' % (c['method'], m[1]))
            continue
        if m:
            res.alarms.append(dict(signature=m[0], what=m[1][:1200], replay=dict(orphan_case=c, impl=r)))
    res.add_cov(evaluations=len(cases), distinct=len(cases), traces=len(cases), real_owner_drop_scenarios=len(cases),
                rule='real processes: the child receives the object inside a holder, the parent drops its own reference and allocates again; '
                     'the child\'s object must keep its value and a store through it must not change the parent\'s new object')


# ------------------------------------------------------------- updaters forked by the thread that HOLDS the lock
def forklock_cases(tier, widen=False):
    """fork start method; the parent starts the updater processes from inside `with obj.get_lock():`"""
    cs = [dict(kind='Value', t='i', value=0, nchild=2, n=30),
          dict(kind='Array', t='i', init=[0, 10, 20], nchild=2, n=30),
          dict(kind='Value', t='d', value=0.0, lock='RLock', nchild=2, n=30),
          dict(kind='RawValue', t='i', value=5, lock='RLock', nchild=2, n=30),
          dict(kind='RawValue', t='i', value=5, lock='Lock', nchild=2, n=30)]
    if tier != 'quick' or widen:
        cs += [dict(kind='Value', t='l', value=-3, nchild=4, n=400),
               dict(kind='Array', t='d', init=[0.5, 1.5], lock='RLock', nchild=3, n=200),
               dict(kind='Value', t='c_ulonglong', value=2 ** 40, nchild=3, n=200),
               dict(kind='Value', t='i', value=0, nchild=1, n=1, grace=1.0)]
    return cs


def forklock_describe(c):
    what = {'Value': 'Value(%r, %r%s)', 'Array': 'Array(%r, %r%s)', 'RawValue': 'RawValue(%r, %r) guarded by a plain %s'}[c['kind']]
    arg = c.get('init') if c['kind'] == 'Array' else c.get('value', 0)
    if c['kind'] == 'RawValue':
        return what % (c['t'], arg, 'ctx.%s()' % c['lock'])
    return what % (c['t'], arg, '' if c.get('lock', 'default') == 'default' else ', lock=ctx.%s()' % c['lock'])


def forklock_expected(c):
    tot = c['nchild'] * c['n'] + 1
    return [x + tot for x in c['init']] if c['kind'] == 'Array' else c.get('value', 0) + tot


def forklock_monitor(c, r):
    """None or (signature, text), on the observation alone: while the parent is inside `with lock:` no child gets the
    lock and the value does not change under it; every child's first update comes after the parent's release; at the
    end no update is lost"""
    tag = ('fork start method, %s: the parent takes the object\'s lock, reads the value, starts %d updater processes (%d locked '
           'updates each) from INSIDE the `with lock:` block, reads the value again, stores what it first read + 1 and releases'
           % (forklock_describe(c), c['nchild'], c['n']))
    if 'error' in r:
        return ('C15:fork-scenario-failed', '%s: %s' % (tag, r['error']))
    tried = r.get('tried', [])
    if not r.get('all_tried') or len(tried) != c['nchild']:
        return ('C15:fork-scenario-failed', '%s: %d of %d children reported (exit codes %s)' % (tag, len(tried), c['nchild'], r.get('exitcodes')))
    bad = []
    copies = '; '.join('child %d: count=%s is_mine=%s' % (t['id'], t['count'], t['is_mine']) for t in tried)
    if r['value_before_parent_update'] != r['value_at_acquire']:
        bad.append(('C15:value-changed-under-held-lock',
                    'the value changed from %s to %s while the parent was holding the lock (%d of %d children had finished all their '
                    'updates before the parent released)' % (r['value_at_acquire'], r['value_before_parent_update'],
                                                            r.get('done_while_parent_inside', 0), c['nchild'])))
    got = [t['id'] for t in tried if t['got']]
    if got:
        bad.append(('C15:lock-held-by-two-processes',
                    'a non-blocking acquire of the lock succeeded in child%s %s while the parent was inside its `with lock:` block'
                    % ('' if len(got) == 1 else 'ren', got)))
    done = r.get('done', [])
    errs = ['child %d: %s' % (d['id'], d['error']) for d in done if 'error' in d]
    if errs:
        bad.append(('C15:raised', 'locked updates raised: ' + '; '.join(errs)))
    early = [d['id'] for d in done if d.get('first_update') is not None and d['first_update'] < r['t_release']]
    if early:
        bad.append(('C15:lock-held-by-two-processes',
                    'child%s %s made locked updates before the parent released the lock' % ('' if len(early) == 1 else 'ren', early)))
    if not r.get('all_done') or len(done) != c['nchild']:
        bad.append(('C15:locked-updater-hung', '%d of %d children finished their updates (exit codes %s)'
                    % (len(done), c['nchild'], r.get('exitcodes'))))
    elif not errs and r['final'] != forklock_expected(c):
        bad.append(('C15:lost-update', 'lost updates: %d locked read-modify-writes (%d x %d in the children + 1 in the parent) leave %s, '
                    'expected %s' % (c['nchild'] * c['n'] + 1, c['nchild'], c['n'], r['final'], forklock_expected(c))))
    if not bad:
        return None
    return (bad[0][0], '%s -- %s. What the children\'s copies of the %s said right after the fork: %s (after-fork hooks registered for '
            'the lock in the parent: %s): a child forked by the thread that holds a lock must not inherit its ownership'
            % (tag, '; '.join(b[1] for b in bad), r.get('lock_type'), copies, r.get('after_fork_hooks_for_lock')))


def forklocks(res, widen=False):
    cases = forklock_cases(res.tier, widen)
    outs = core.run_driver('sharedmem_driver.py', dict(mode='forklock', cases=cases), timeout=900)
    for c, r in zip(cases, outs):
        m = forklock_monitor(c, r)
        if m:
            res.alarms.append(dict(signature=m[0], what=m[1][:1500], replay=dict(forklock_case=c, impl={k: v for k, v in r.items() if k != 'case'})))
    res.add_cov(evaluations=len(cases), distinct=len(cases), traces=len(cases), real_fork_under_lock_scenarios=len(cases),
                real_fork_under_lock_children=sum(c['nchild'] for c in cases),
                real_fork_under_lock_kinds=sorted({forklock_describe(c) for c in cases}),
                rule='real processes, fork start method: updater processes are started by the thread that holds the object\'s lock '
                     '(Value / Array with the default and an explicit RLock, a RawValue guarded by a plain RLock / Lock); monitors: value '
                     'unchanged while the parent holds the lock, no child gets the lock or updates before the parent releases, no lost update')


def procs(res):
    out = core.run_driver('sharedmem_driver.py', dict(mode='procs', methods=['fork', 'spawn', 'forkserver'], nproc=4, n=2500),
                          timeout=900)
    ok_methods = []
    for method, r in out.items():
        if 'error' in r:
            res.notes.append('start method %s could not carry the shared objects in this sandbox: %s' % (method, r['error']))
            if method == 'fork':
                res.alarms.append(dict(signature='C15:fork-scenario-failed', what=r['error'], replay=dict(procs=r)))
            continue
        v = r['visibility']
        if v['child_saw_initial'] != [5, [0.25, 0.5, 0.75, 1.0], 12] or v['parent_saw_child_writes'] != [77, [0.25, 0.5, 1.5, 1.0], -9] \
                or v['child_saw_parent_writes'] != [1234, [-2.0, 0.5, 1.5, 1.0], 31]:
            res.alarms.append(dict(signature='C15:not-visible-across-processes',
                                   what='start method %s: %s' % (method, json.dumps(v)), replay=dict(procs=r)))
        li = r['locked_increments']
        if li['got'] != li['expected']:
            res.alarms.append(dict(signature='C15:lost-update',
                                   what='start method %s: %d locked increments gave %d' % (method, li['expected'], li['got']),
                                   replay=dict(procs=r)))
        ok_methods.append(method)
    res.add_cov(evaluations=len(out), traces=len(out), real_process_scenarios=out, start_methods_validated=ok_methods,
                rule='real processes: visibility both ways and 4x2500 locked increments (validation of runtime assumptions)')


BASE_COV_KEYS = ('evaluations', 'distinct_nontrivial', 'rule', 'samples', 'traces_validated_against_impl', 'obligations',
                 'discharged', 'checker_cmd', 'trusted_base')


def run_phases(res, phases):
    """run independent correspondence phases side by side (each drives its own interpreter / coqc processes), every one
    into a Result of its own; merged in the fixed order of `phases`, so alarms and coverage are deterministic"""
    import threading
    subs = [core.Result(res.pid, res.tier, res.seed) for _ in phases]
    errs = [None] * len(phases)

    import time
    walls = {}

    def work(i):
        t0 = time.time()
        try:
            phases[i][1](subs[i])
        except BaseException as exc:      # re-raised below, after the others have finished
            errs[i] = exc
        walls[phases[i][0]] = round(time.time() - t0, 1)
    ths = [threading.Thread(target=work, args=(i,), name=phases[i][0]) for i in range(len(phases))]
    for t in ths:
        t.start()
    for t in ths:
        t.join()
    for (name, _), sub in zip(phases, subs):
        res.alarms += sub.alarms
        res.broken += sub.broken
        res.notes += sub.notes
        c = sub.cov
        res.add_cov(evaluations=c['evaluations'], distinct=c['distinct_nontrivial'], traces=c['traces_validated_against_impl'],
                    samples=c['samples'], rule=c['rule'] or None, **{k: v for k, v in c.items() if k not in BASE_COV_KEYS})
    res.cov['phase_wall_s'] = walls
    for e in errs:
        if e is not None:
            raise e


def run(res):
    res.proof_step('Props/C15.v', extra_targets=['Model/SharedMem.vo', 'Model/SharedHop.vo', 'Model/SharedShadow.vo', 'Model/SharedHopDrop.vo',
                                                 'Model/SharedFork.vo'],
                   kernels_needed=['G_sharedmem', 'G_semfork'])
    n = 110 if res.tier == 'quick' else 3000
    if res.broken:
        n = max(n, 1500)
    if res.broken:
        # the models must be there for the failing-input search even when the proof cone is not
        core.coq_make(['Model/SharedMem.vo', 'Model/SharedHop.vo', 'Model/SharedHopDrop.vo'])
    nh = 60 if res.tier == 'quick' else 1500
    if res.broken:
        nh = max(nh, 400)
    widen = bool(res.broken)

    def real_processes(r):
        chains(r, widen=widen)
        orphans(r, widen=widen)
    run_phases(res, [('mem', lambda r: correspond(r, n)), ('traces', traces), ('locks', locks),
                     ('hops', lambda r: hops(r, nh)), ('real', real_processes),
                     ('forklock', lambda r: forklocks(r, widen=widen))])
    # the two findings of the pinned tree that fire on every run go last: anything else is reported first
    res.alarms.sort(key=lambda a: a['signature'] in (SIG_RECYCLED, SIG_FALSY_LOCK))
    if res.tier != 'quick':
        rng = random.Random(res.seed * 13 + 1515)
        cases = [gen_case(rng, real=True) for _ in range(200)]
        outs = core.run_driver('sharedmem_driver.py', dict(mode='mem', cases=cases))
        judge(res, cases, outs, 'real')
        res.add_cov(evaluations=len(cases), traces=len(cases), real_mmap_cases=len(cases))
        procs(res)
    res.assumptions += [
        'the expected bytes of an object are those of an ordinary (private) ctypes object built from the same arguments',
        'a fresh arena is zero-filled; freeing a block does not touch its bytes',
        'acquire/release of the (recursive) lock are atomic and exclusive (C17); the model runs one instruction at a time (sequential consistency)',
        'MAP_SHARED memory written in one process is visible in another (validated by real processes in the thorough tier, not proved)',
        'the BufferWrapper finaliser runs when the last reference is dropped (CPython reference counting)',
        'frees are valid (each wrapper frees its own block once): inherited from C14',
        'a BufferWrapper made by unpickling has no finaliser and is unknown to the owner\'s heap (default object pickling: __init__ is not '
        'run); the generator checks that the finaliser is registered in BufferWrapper.__init__ only',
        'a process started in the style of spawn/forkserver has the ForkingPickler registry of a fresh interpreter (emulated by the driver: the '
        'registry as it is after importing billiard, snapshot taken at driver start); validated by real spawn chains',
        'all updaters use the same lock object/semaphore: checked on the real wrappers (lock identity, pickle round trip), the atomicity theorem has one lock',
        'fork: the child of os.fork() has a copy of every lock object of the forking process (count/last_tid included) and its only thread is the '
        'forking thread; kernel semaphores are shared, not copied; SemLock._after_fork() sets count = 0; register_after_fork/_run_after_forkers are '
        'multiprocessing.util\'s (trusted like the primitive); updater processes have one thread each in the model (threads inside a forked child: real scenarios of C17 only)',
    ]


def replay(path):
    d = json.load(open(path))
    if 'replay' in d and 'lock_check' in d['replay']:
        old = d['replay']['lock_check']
        outs = core.run_driver('sharedmem_driver.py', dict(mode='locks'))
        now = [r for r in outs if (r['check'], r['kind'], r.get('lock')) == (old['check'], old['kind'], old.get('lock'))]
        print('recorded:', json.dumps(old))
        print('implementation now:', json.dumps(now))
        bad = [judge_lock_record(r) for r in now]
        print('monitor:', [b for b in bad if b] or 'property holds on this check')
        return 1 if any(bad) else 0
    if 'replay' in d and 'hop_case' in d['replay']:
        c = d['replay']['hop_case']
        out = core.run_driver('sharedmem_driver.py', dict(mode='hops', cases=[c]))[0]
        print('hand-over history:', json.dumps(c))
        print('implementation now:', json.dumps(out['obs'])[:3000])
        m = hop_monitor(c, out)
        print('monitor:', m or 'property holds on this trace')
        codes, _ = core.coq_eval('C15r', HEADER_HOPS, [[hop_to_coq(c, out)]])
        print('model agrees' if not codes else 'model disagrees')
        return 1 if (m or codes) else 0
    if 'replay' in d and 'orphan_case' in d['replay']:
        c = d['replay']['orphan_case']
        out = core.run_driver('sharedmem_driver.py', dict(mode='orphan', cases=[c]))[0]
        print('scenario:', json.dumps(c))
        print('implementation now:', json.dumps(out)[:3000])
        m = orphan_monitor(c, out)
        print('monitor:', m or 'property holds on this scenario')
        return 1 if m else 0
    if 'replay' in d and 'forklock_case' in d['replay']:
        c = d['replay']['forklock_case']
        out = core.run_driver('sharedmem_driver.py', dict(mode='forklock', cases=[c]))[0]
        out.pop('case', None)
        print('scenario:', json.dumps(c))
        print('expected final value:', json.dumps(forklock_expected(c)))
        print('implementation now:', json.dumps(out)[:3000])
        m = forklock_monitor(c, out)
        print('monitor:', m or 'property holds on this scenario')
        return 1 if m else 0
    if 'replay' in d and 'chain_case' in d['replay']:
        c = d['replay']['chain_case']
        out = core.run_driver('sharedmem_driver.py', dict(mode='chain', cases=[c]))[0]
        print('chain:', json.dumps(c))
        print('expected states after each level:', json.dumps(chain_expect(c)))
        print('implementation now:', json.dumps(out)[:3000])
        m = chain_monitor(c, out)
        print('monitor:', m or 'property holds on this scenario')
        return 1 if m else 0
    if 'replay' not in d or 'case' not in d['replay']:
        print(json.dumps(d.get('broken', d.get('replay', d)))[:3000])
        return 1
    c = d['replay']['case']
    out = core.run_driver('sharedmem_driver.py', dict(mode='mem', cases=[c]))[0]
    print('case:', json.dumps(c))
    print('implementation now:', json.dumps(out['obs'])[:3000])
    m = monitor(c, out)
    print('monitor:', m or 'property holds on this trace')
    codes, _ = core.coq_eval('C15r', HEADER, [[to_coq(c, out)]])
    print('model agrees' if not codes else 'model disagrees')
    return 1 if (m or codes) else 0
