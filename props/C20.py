"""C20 -- manager proxies behave like the local object; referents live as long as proxies."""
import json
import random
from vlib import core
from vlib.core import cz, cnat, cbool, copt, clist
from props import c20conc

MANIFEST = dict(
    text='Theorems (Coq, all histories of create / new-proxy / release / drop / call events from any number of '
         'client processes, interleaved at request grain, unbounded): refcount(id) = live proxies to id + creations '
         'in progress; an object is in the server table iff that number is >= 1 and is removed exactly by the decref '
         'that brings it to 0; untouched referents never change; a call is executed iff the ident is live and the '
         'method exposed, and then replies and mutates exactly like the same method on a local list/dict/Value '
         '(error cases included), nothing else changes; any request sequence from any (misbehaving) clients keeps '
         'the tables consistent (counts >= 1, unknown/zero idents refused); a failed handshake reads no request and '
         'changes nothing. User level (all histories of create / copy / inherit / drop / call operations in which no '
         'step loses a reference): nothing stays in progress, refcount = live proxies, in the table iff a live proxy '
         'exists, tables as new once every proxy is released; the two excluded steps (result proxy through a proxy '
         'without manager -- the known defect; a holder that vanishes without a decref: killed client) are the exact '
         'boundary, each leaves a referent for ever. Over all request-grain histories of any number of clients the '
         'observations made through the proxies of one referent are those of ONE local object given the same calls in '
         'the same order (no call lost, duplicated, misrouted; value never reset). '
         'Tie: Server.incref/decref/create arithmetic and the try/except skeletons of '
         'serve_client/handle_request are regenerated from managers.py on every run and proved to compute the '
         'model; exposed sets come from the real Server.create; every table access of incref/decref/create is '
         'inside `with self.mutex:` (structural fact of the source, also monitored on the running Server). '
         'Concurrency: real client processes and threads hammer one referent through its proxy (list, dict, Value '
         'under a manager Lock, Queue, copies/drops), judged by atomicity / lost-update / refcount monitors. '
         'Correspondence: real Server in-process with scripted '
         'connections, real proxies against the real server threads (explicit proxy classes and an AutoProxy typeid, '
         'copies by pickling, proxies rebuilt as in a spawn/forkserver child), real spawn scenarios and (thorough) real '
         'manager and client processes; the refcount equation is also monitored on fork/spawn/forkserver histories '
         'of the typeids SyncManager registers itself (Queue, Event, Lock ...), with results compared to a local twin. '
         'One part of the statement is REFUTED on the pinned tree (results of proxy-returning methods called '
         'through a proxy passed to another process are leaked) and reported as an alarm; the Iterator-proxy '
         'defect found earlier is repaired in /repo and now proved positively.',
    note='Trusted: Coq kernel; translate/kernels/manager.py (shallow translation of the refcount statements, '
         'statement-text -> primitive table for the skeletons, registry probe by importing the working tree); '
         'the meaning given to the 33 primitives in Model/Manager.v; harness/mgr_driver.py (fake connection, ident '
         'renaming, canonicalisation of replies, the owner-tracking stand-ins for Server.mutex and the two tables); '
         'harness/mgr_conc_driver.py and the monitors in props/c20conc.py (concurrent scenarios: tested, not proved); '
         'CPython list/dict semantics as written in Manager.apply_local '
         '(checked against real objects only through the correspondence). All theorems Closed under the global context. Thread-affine referents (RLock, Condition) across the release of other proxies, and an undecodable request following a fallback call on one connection, are validated on a real SyncManager against local twins (harness/mgr_affine_driver.py), not modelled.',
    technique='Coq proof over translator-regenerated kernels and control skeletons + differential correspondence',
    ref='5.20',
)

HEADER = '''From Coq Require Import String ZArith List Bool.
From BV Require Import Lib.ManagerLib Lib.Cases Model.Manager.
Import ListNotations. Open Scope Z_scope.
Definition check_case := Manager.check_case.'''

CHEADER = HEADER.replace('Manager.check_case', 'Manager.check_client_case')

TYP = {'list': 'TList', 'dict': 'TDict', 'Value': 'TValue', 'Iterator': 'TIter', 'Shelf': 'TShelf',
       'ShelfRef': 'TShelfRef', 'AList': 'TAutoList', 'nosuch': 'TUnknown'}
METH = {'append': 'M_append', 'extend': 'M_extend', 'insert': 'M_insert', 'pop': 'M_pop',
        'remove': 'M_remove', 'index': 'M_index', 'count': 'M_count', 'reverse': 'M_reverse',
        'sort': 'M_sort', '__getitem__': 'M_getitem', '__setitem__': 'M_setitem',
        '__delitem__': 'M_delitem', '__len__': 'M_len', '__contains__': 'M_contains', 'get': 'M_get',
        'setdefault': 'M_setdefault', 'clear': 'M_clear', 'keys': 'M_keys', 'values': 'M_values',
        'items': 'M_items', 'popitem': 'M_popitem', 'update': 'M_update', 'copy': 'M_copy',
        'has_key': 'M_has_key', 'set': 'M_set', '__next__': 'M_next', 'send': 'M_send', 'clone': 'M_clone',
        'me': 'M_me',
        '__str__': 'M_str', '__repr__': 'M_repr', '#GETVALUE': 'M_getvalue', '__iter__': 'M_iter',
        'bogus': 'M_bogus', '__init__': 'M_init'}
HS = {'ok': ('None', 'None'), 'bad_digest': ('(Some E_Auth)', 'None'), 'wrong_key': ('(Some E_Auth)', 'None'),
      'eof_digest': ('(Some E_EOF)', 'None'), 'reject': ('None', '(Some E_Auth)'),
      'bad_challenge': ('None', '(Some E_Assertion)')}


# ------------------------------------------------------------------ rendering
def cpairs(ps):
    return clist(ps, lambda p: '(%s, %s)' % (cz(p[0]), cz(p[1])))


def carg(a):
    if a[0] == 'z':
        return '(AZ %s)' % cz(a[1])
    if a[0] == 'l':
        return '(AL %s)' % clist(a[1])
    if a[0] == 'd':
        return '(AD %s)' % cpairs(a[1])
    return 'ANone'


def cexn(k):
    return k if not k.startswith('E_Other') else 'E_Other'


def cobj(o):
    if o[0] == 'L':
        return '(OList %s)' % clist(o[1])
    if o[0] == 'D':
        return '(ODict %s)' % cpairs(o[1])
    if o[0] == 'V' and isinstance(o[1], int):
        return '(OVal %s)' % cz(o[1])
    if o[0] == 'I':
        return '(OIter %s)' % clist(o[1])
    return '(OVal (-424242))'


def ints(xs):
    return all(type(x) is int for x in xs)


def cval(v):
    k = v[0]
    if k == 'none':
        return 'VNone'
    if k == 'b':
        return '(VBool %s)' % cbool(v[1])
    if k == 'i':
        return '(VInt %s)' % cz(v[1])
    if k == 'l' and ints(v[1]):
        return '(VList %s)' % clist(v[1])
    if k == 'd' and all(ints(p) for p in v[1]):
        return '(VDict %s)' % cpairs(v[1])
    if k == 'ps' and all(ints(p) for p in v[1]):
        return '(VPairs %s)' % cpairs(v[1])
    if k == 'p':
        return '(VPair %s %s)' % (cz(v[1]), cz(v[2]))
    if k == 's':
        return '(VStr %s)' % cobj(v[1])
    if k == 'o':
        return '(VObj %s)' % cobj(v[1])
    if k == 'created':
        return '(VCreated %s)' % cz(v[1])
    return '(VInt (-424242))'


def creply(r):
    k = r[0]
    if k == 'ret':
        return '(R_return %s)' % cval(r[1])
    if k == 'err':
        return '(R_error %s)' % cexn(r[1])
    if k == 'tb':
        return '(R_traceback %s)' % cexn(r[1])
    if k == 'proxy':
        return '(R_proxy %s %s)' % (cz(r[1]), TYP.get(r[2], 'TUnknown'))
    if k == 'unser':
        return 'R_unserializable'
    return '(R_return (VInt (-424242)))'


def csnap(sn):
    return clist(sn, lambda e: '(%s, %s, %s)' % (cz(e[0]), cz(e[1]), cobj(e[2])))


def ccall(c, newid):
    if c[0] == 'malformed':
        return '(CMalformed %s)' % cnat(c[1])
    _, mid, meth, args, sf = c
    return '(CReq %s %s %s %s %s)' % (cz(mid), METH[meth], clist(args, carg), cz(newid), cnat(sf))


def creq(r, newids):
    k = r[0]
    if k == 'create':
        return '(Q_create %s %s %s)' % (TYP[r[1]], clist(r[2], carg), cz(newids[0] if newids else 0))
    if k in ('incref', 'decref'):
        return '(Q_%s %s)' % (k, cz(r[1]))
    if k == 'accept':
        nid = list(newids) + [0] * len(r[1])
        return '(Q_accept %s)' % ('[' + '; '.join(ccall(c, n) for c, n in zip(r[1], nid)) + ']')
    return {'numobj': 'Q_numobj', 'dummy': 'Q_dummy', 'notpublic': 'Q_notpublic',
            'malformed': 'Q_malformed', 'eof': 'Q_eof'}[k]


def server_case_term(case, obs):
    items = []
    for cn, o in zip(case, obs):
        d, a = HS[cn['hs']]
        conn = '(mk_conn %s %s %s %s)' % (d, a, creq(cn['req'], o['newids']), cnat(cn.get('hsf', 0)))
        ob = '((%s, %s, %s, %s), %s)' % (cbool(o['read']), clist(o['outs'], creply), copt(o['exit']),
                                        cbool(o['closed']), csnap(o['snap']))
        items.append('(%s, %s)' % (conn, ob))
    return '([' + ';\n  '.join(items) + '] : Manager.case)'


# ----------------------------------------------------------------- generation
LIST_M = ['append', 'extend', 'insert', 'pop', 'remove', 'index', 'count', 'reverse', 'sort',
          '__getitem__', '__setitem__', '__delitem__', '__len__', '__contains__']
DICT_M = ['__getitem__', '__setitem__', '__delitem__', '__len__', '__contains__', 'get', 'pop',
          'setdefault', 'clear', 'keys', 'values', 'items', 'popitem', 'update', 'copy', 'has_key']
# what Server.create exposes for a list registered without proxy type / exposed tuple (AutoProxy)
AUTO_M = ['append', 'clear', 'copy', 'count', 'extend', 'index', 'insert', 'pop', 'remove', 'reverse', 'sort']
OTHER_M = ['get', 'set', '__next__', 'send', 'clone', 'me', '__str__', '__repr__', '#GETVALUE', '__iter__',
           'bogus', '__init__']


def z(rng, lo=-3, hi=5):
    return ['z', rng.randint(lo, hi)]


def zl(rng):
    return ['l', [rng.randint(0, 5) for _ in range(rng.randint(0, 4))]]


def zd(rng):
    return ['d', [[rng.randint(0, 4), rng.randint(0, 9)] for _ in range(rng.randint(0, 4))]]


def gen_args(rng, meth, kind):
    """well-formed arguments for `meth` on a referent believed to be of `kind`"""
    if meth in ('append', 'remove', 'index', 'count', '__contains__', '__delitem__', 'has_key', 'set'):
        a = [z(rng)]
    elif meth == 'extend':
        a = [zl(rng)] if rng.random() < 0.9 else [z(rng)]
    elif meth in ('insert', '__setitem__', 'setdefault'):
        a = [z(rng), z(rng, 0, 9)]
    elif meth == 'pop':
        a = rng.choice([[], [z(rng)], [z(rng)]]) if kind != 'dict' else rng.choice([[z(rng)], [z(rng), z(rng)]])
    elif meth == '__getitem__':
        a = [z(rng)] if rng.random() < 0.93 else [['n']]
    elif meth == 'get':
        a = [] if kind == 'Value' else rng.choice([[z(rng)], [z(rng), z(rng)]])
    elif meth == 'update':
        a = rng.choice([[zd(rng)], [zd(rng)], [], [z(rng)]])
    else:
        a = []
    # wrong number of (integer) arguments now and then
    if rng.random() < 0.06 and all(x[0] == 'z' for x in a) and meth not in ('index', 'setdefault'):
        if a and rng.random() < 0.5:
            a = a[:-1]
        else:
            a = a + [z(rng)]
        if meth == 'setdefault' and len(a) == 1:
            a = []
        if meth == 'pop' and kind == 'dict' and len(a) == 2:
            a = a + [z(rng)]
        if meth == 'pop' and kind != 'dict' and len(a) == 1:
            a = a + [z(rng)]
        if meth == 'get' and kind != 'Value' and len(a) in (1, 2):
            a = []
        if meth == 'update' and len(a) <= 1:
            a = [z(rng), z(rng)]
    if meth == 'setdefault' and len(a) == 1:
        a = [z(rng), z(rng)]
    return a


def gen_call(rng, kinds):
    """kinds: believed kind per model id (1-based list)"""
    n = len(kinds)
    r = rng.random()
    if r < 0.04:
        return ['malformed', rng.choice([0, 0, 1, 2])]
    if r < 0.10 or n == 0:
        mid = rng.choice([0, n + 1, n + 2, rng.randint(0, n + 2)])
        kind = 'list'
    else:
        mid = rng.randint(1, n)
        kind = kinds[mid - 1]
    r = rng.random()
    if r < 0.72:
        pool = {'list': LIST_M, 'Shelf': LIST_M + ['clone', 'me', 'clone'], 'ShelfRef': LIST_M, 'AList': AUTO_M,
                'dict': DICT_M, 'Value': ['get', 'set'], 'Iterator': ['__next__', '__next__', '__next__', 'send']}[kind]
        meth = rng.choice(pool)
    elif r < 0.9:
        meth = rng.choice(LIST_M + DICT_M)
    else:
        meth = rng.choice(OTHER_M)
    sf = 0 if rng.random() < 0.93 else rng.choice([1, 1, 2])
    return ['call', mid, meth, gen_args(rng, meth, kind), sf]


def gen_create(rng):
    typ = rng.choice(['list', 'list', 'dict', 'dict', 'Value', 'Shelf', 'Shelf', 'Iterator', 'ShelfRef', 'nosuch',
                      'AList', 'AList'])
    r = rng.random()
    if typ in ('list', 'Shelf', 'AList'):
        args = [zl(rng)] if r < 0.8 else rng.choice([[], [z(rng)], [z(rng), z(rng)]])
    elif typ == 'dict':
        args = [zd(rng)] if r < 0.8 else rng.choice([[], [z(rng)]])
    elif typ == 'Value':
        args = [z(rng), z(rng)] if r < 0.8 else rng.choice([[z(rng), z(rng), z(rng)], [z(rng)], []])
    elif typ in ('Iterator', 'ShelfRef'):
        args = [zl(rng)] if r < 0.85 else rng.choice([[], [zl(rng), zl(rng)]])
    else:
        args = [zl(rng)]
    ok = (typ in ('list', 'Shelf', 'AList') and (not args or args[0][0] == 'l') and len(args) <= 1) or \
         (typ == 'dict' and (not args or args[0][0] == 'd')) or \
         (typ == 'Value' and len(args) >= 2) or (typ in ('Iterator', 'ShelfRef') and len(args) == 1)
    return ['create', typ, args], (typ if ok else None)


def gen_server_case(rng):
    case = []
    kinds = []
    for _ in range(rng.randint(2, 9)):
        r = rng.random()
        hs = 'ok' if rng.random() < 0.85 else rng.choice(['bad_digest', 'wrong_key', 'eof_digest', 'reject', 'bad_challenge'])
        hsf = 0 if rng.random() < 0.92 else rng.choice([1, 2])
        n = len(kinds)
        if r < 0.30 or not kinds:
            req, kind = gen_create(rng)
            if kind and hs == 'ok':
                kinds.append(kind)
        elif r < 0.62:
            calls = []
            for _ in range(rng.randint(1, 12)):
                c = gen_call(rng, kinds)
                calls.append(c)
                if c[0] == 'call' and c[2] == 'clone' and 1 <= c[1] <= len(kinds) and kinds[c[1] - 1] == 'Shelf' \
                        and not c[3] and hs == 'ok':
                    kinds.append('list')
                if c[0] == 'call' and c[2] == 'me' and 1 <= c[1] <= len(kinds) and kinds[c[1] - 1] == 'Shelf' \
                        and not c[3] and hs == 'ok':
                    kinds[c[1] - 1] = 'ShelfRef'
                if c[-1] == 2 or (c[0] == 'malformed' and c[1] == 2):
                    pass
            req = ['accept', calls]
        elif r < 0.72:
            req = ['incref', rng.choice([0, n + 1] + list(range(1, n + 1)) * 3)]
        elif r < 0.88:
            req = ['decref', rng.choice([0, n + 1] + list(range(1, n + 1)) * 3)]
        else:
            req = [rng.choice(['numobj', 'numobj', 'dummy', 'notpublic', 'malformed', 'eof'])]
        case.append(dict(hs=hs, req=req, hsf=hsf))
    return case


BOUNDARY_SERVER = [
    # create leaves the count at 1; incref/decref; removal exactly at 0; second decref is refused
    [dict(hs='ok', req=['create', 'list', [['l', [1, 2]]]], hsf=0), dict(hs='ok', req=['incref', 1], hsf=0),
     dict(hs='ok', req=['decref', 1], hsf=0), dict(hs='ok', req=['numobj'], hsf=0),
     dict(hs='ok', req=['decref', 1], hsf=0), dict(hs='ok', req=['numobj'], hsf=0),
     dict(hs='ok', req=['decref', 1], hsf=0), dict(hs='ok', req=['incref', 1], hsf=0),
     dict(hs='ok', req=['decref', 0], hsf=0), dict(hs='ok', req=['incref', 0], hsf=0)],
    # every handshake failure: nothing is read, nothing changes
    [dict(hs='ok', req=['create', 'dict', [['d', [[1, 2]]]]], hsf=0)] +
    [dict(hs=h, req=['decref', 1], hsf=0) for h in ('bad_digest', 'wrong_key', 'eof_digest', 'reject', 'bad_challenge')] +
    [dict(hs='ok', req=['accept', [['call', 1, '__getitem__', [['z', 1]], 0]]], hsf=0)],
    # dispatch: unknown id, id 0, not exposed, fallback names, referent raises, send failures
    [dict(hs='ok', req=['create', 'list', [['l', [3, 1, 2]]]], hsf=0),
     dict(hs='ok', req=['accept', [['call', 1, 'sort', [], 0], ['call', 1, 'pop', [['z', 7]], 0],
                                   ['call', 5, '__len__', [], 0], ['call', 0, '__len__', [], 0],
                                   ['call', 1, 'bogus', [], 0], ['call', 1, '__iter__', [], 0],
                                   ['call', 1, '__str__', [], 0], ['call', 1, '#GETVALUE', [], 0],
                                   ['call', 1, '__repr__', [['z', 1]], 0], ['call', 1, 'keys', [], 0],
                                   ['call', 1, 'append', [['z', 9]], 1], ['malformed', 0],
                                   ['call', 1, 'append', [['z', 8]], 2], ['call', 1, '__len__', [], 0]]], hsf=0),
     dict(hs='ok', req=['accept', [['call', 1, '#GETVALUE', [], 0]]], hsf=0)],
    # proxy-returning methods: fresh referent, and the same referent under another typeid
    [dict(hs='ok', req=['create', 'Shelf', [['l', [7, 8]]]], hsf=0),
     dict(hs='ok', req=['accept', [['call', 1, 'clone', [], 0], ['call', 1, 'me', [], 0], ['call', 1, 'pop', [], 0],
                                   ['call', 1, 'append', [['z', 1]], 0], ['call', 2, 'pop', [], 0],
                                   ['call', 1, 'me', [], 0], ['call', 1, 'clone', [], 1]]], hsf=0),
     dict(hs='ok', req=['decref', 1], hsf=0), dict(hs='ok', req=['decref', 1], hsf=0),
     dict(hs='ok', req=['decref', 2], hsf=0), dict(hs='ok', req=['numobj'], hsf=0)],
    # dict and Value referents
    [dict(hs='ok', req=['create', 'dict', [['d', [[1, 10], [2, 20], [1, 11]]]]], hsf=0),
     dict(hs='ok', req=['create', 'Value', [['z', 0], ['z', 5]]], hsf=0),
     dict(hs='ok', req=['accept', [['call', 1, '__getitem__', [['z', 3]], 0], ['call', 1, 'popitem', [], 0],
                                   ['call', 1, 'setdefault', [['z', 4], ['z', 40]], 0], ['call', 1, 'items', [], 0],
                                   ['call', 1, 'update', [['d', [[1, 0], [9, 9]]]], 0], ['call', 1, 'keys', [], 0],
                                   ['call', 1, 'has_key', [['z', 1]], 0], ['call', 1, 'pop', [['z', 8]], 0],
                                   ['call', 1, 'pop', [['z', 8], ['z', 0]], 0], ['call', 1, 'copy', [], 0],
                                   ['call', 2, 'get', [], 0], ['call', 2, 'set', [['z', 6]], 0],
                                   ['call', 2, 'get', [['z', 1]], 0], ['call', 2, '__str__', [], 0],
                                   ['call', 1, 'clear', [], 0], ['call', 1, 'popitem', [], 0]]], hsf=0)],
]
# a typeid registered without proxy type: exposed = public_methods(list) -- no dunder name, but clear / copy
BOUNDARY_SERVER.append(
    [dict(hs='ok', req=['create', 'AList', [['l', [3, 1, 2]]]], hsf=0),
     dict(hs='ok', req=['accept', [['call', 1, 'sort', [], 0], ['call', 1, 'copy', [], 0], ['call', 1, '__len__', [], 0],
                                   ['call', 1, '__getitem__', [['z', 0]], 0], ['call', 1, 'pop', [['z', 0]], 0],
                                   ['call', 1, 'clear', [['z', 0]], 0], ['call', 1, 'clear', [], 0],
                                   ['call', 1, 'pop', [], 0], ['call', 1, '#GETVALUE', [], 0]]], hsf=0),
     dict(hs='ok', req=['incref', 1], hsf=0), dict(hs='ok', req=['decref', 1], hsf=0),
     dict(hs='ok', req=['decref', 1], hsf=0), dict(hs='ok', req=['numobj'], hsf=0)])
# the Iterator typeid (registered for PoolProxy.imap): __next__ through the proxy, to exhaustion
ITER_CASE = [dict(hs='ok', req=['create', 'Iterator', [['l', [4, 5]]]], hsf=0),
             dict(hs='ok', req=['accept', [['call', 1, '__next__', [], 0], ['call', 1, '__next__', [], 0],
                                           ['call', 1, '__next__', [], 0], ['call', 1, 'send', [['z', 1]], 0],
                                           ['call', 1, '__next__', [['z', 1]], 0]]], hsf=0)]


def iterator_typo(case, outs):
    """did the real server answer __next__ on an Iterator referent with the fallback KeyError
    (the `_exposed` typo of IteratorProxy, repaired in /repo by 8d304c0)"""
    snap = []
    for cn, o in zip(case, outs):
        if cn['req'][0] == 'accept' and cn['hs'] == 'ok' and not cn.get('hsf'):
            iters = {e[0] for e in snap if e[2][0] == 'I'}
            for c, r in zip(cn['req'][1], o['outs'][1:]):
                if c[0] != 'call' or c[4]:
                    break
                if c[2] == '__next__' and c[1] in iters and r == ['tb', 'E_Key']:
                    return True
        snap = o['snap']
    return False


def correspond_server(res, n):
    rng = random.Random(res.seed * 65537 + 20)
    corpus = [c for c in json.load(open(core.VERIF + '/corpus/C20.json')) if c.get('mode') == 'server']
    cases = [c['case'] for c in corpus] + BOUNDARY_SERVER + [gen_server_case(rng) for _ in range(n)] + [ITER_CASE]
    outs = core.run_driver('mgr_driver.py', dict(mode='server', cases=cases))
    terms = [server_case_term(c, o) for c, o in zip(cases, outs)]
    codes, _ = core.coq_eval('C20s', HEADER, core.chunks(terms, 100))
    hist = {}
    nontrivial = set()
    executed = 0
    for c, o in zip(cases, outs):
        ex = 0
        for j, (cn, ob) in enumerate(zip(c, o)):
            hist['hs:' + cn['hs']] = hist.get('hs:' + cn['hs'], 0) + 1
            hist['req:' + cn['req'][0]] = hist.get('req:' + cn['req'][0], 0) + 1
            for r in ob['outs']:
                k = r[0] + (':' + r[1] if r[0] in ('err', 'tb') else '')
                hist['reply:' + k] = hist.get('reply:' + k, 0) + 1
                if r[0] in ('ret', 'err', 'proxy'):
                    ex += 1
            if ob.get('unlocked'):
                res.alarms.append(dict(signature='C20:table-update-without-mutex',
                                       what='the real Server changed its tables without holding Server.mutex '
                                            '(table, operation, function): %s on request %s -- the lock is what makes '
                                            'one incref / decref / create atomic among the serving threads'
                                            % (json.dumps(ob['unlocked'][:4]), json.dumps(cn['req'])[:200]),
                                       replay=dict(mode='server', case=c[:j + 1])))
            if not ob['order_ok']:
                res.alarms.append(dict(signature='C20:request-read-before-handshake',
                                       what='Server.handle_request read a request before the handshake completed',
                                       replay=dict(mode='server', case=c)))
        executed += ex
        if ex >= 3:
            nontrivial.add(json.dumps(c, sort_keys=True))
    res.add_cov(evaluations=len(cases), distinct=len(nontrivial), traces=len(cases),
                samples=[dict(case=cases[len(corpus) + 3], impl=outs[len(corpus) + 3]),
                         dict(case=cases[len(corpus) + len(BOUNDARY_SERVER)], impl=outs[len(corpus) + len(BOUNDARY_SERVER)])],
                rule='server level: random sequences of 2-9 connections through the real Server.handle_request '
                     '(handshake ok or failing in 5 ways; create/incref/decref/number_of_objects/dummy/'
                     'accept_connection with 1-12 scripted calls on list/dict/Value/Iterator/Shelf referents, '
                     'scripted send failures); non-trivial = at least 3 answered requests; distinct by canonical JSON',
                server_histogram=hist, server_requests_answered=executed)
    late = []
    typo = []
    for i, code in codes:
        c, o = cases[i], outs[i]
        rp = dict(mode='server', case=c, impl=o)
        if code == 2 and iterator_typo(c, o):
            typo.append(dict(signature='C20:iterator-proxy-next-not-exposed',
                             what='__next__ on an Iterator referent (typeid registered for PoolProxy.imap) is '
                                  'answered with #TRACEBACK KeyError instead of the next item: IteratorProxy does '
                                  'not provide `_exposed_` (regression of the fix in /repo)', replay=rp))
        elif code == 2:
            res.alarms.append(dict(signature='C20:server-differs-from-model',
                                   what='real Server (replies / request-read flag / exit code / object table and '
                                        'refcounts) differs from the proved model on %s' % json.dumps(c)[:600],
                                   replay=rp))
        elif code == 4:
            res.alarms.append(dict(signature='C20:proxy-call-differs-from-local',
                                   what='a call through an offered proxy method is not answered like the local object: %s'
                                        % json.dumps(c)[:600], replay=rp))
        elif code == 3:
            late.append(dict(signature='C20:iterator-proxy-next-not-exposed',
                             what='__next__ on an Iterator referent (typeid registered for PoolProxy.imap) is '
                                  'answered with #TRACEBACK instead of the next item: IteratorProxy defines '
                                  '`_exposed` (not `_exposed_`) on Python 3, so no method is exposed',
                             replay=rp))
        else:
            res.broken.append(dict(kind='correspondence', name='Manager.check_case code %d' % code,
                                   detail=json.dumps(rp)[:1500]))
    if typo:       # the repaired defect is back: report it before the generic differences it causes
        typo.sort(key=lambda a: len(json.dumps(a['replay']['case'])))
        res.alarms.insert(0, typo[0])
    return late


# ------------------------------------------------------------- client level
def chop(op, newid):
    k = op[0]
    if k == 'create':
        return '(H_create %s %s %s %s)' % (cz(op[1]), TYP[op[2]], clist(op[3], carg), cz(newid))
    if k == 'copy':
        return '(H_copy %s %s)' % (cnat(op[1]), cz(op[2]))
    if k in ('inherit', 'spawn'):
        return '(H_inherit %s %s)' % (cnat(op[1]), cz(op[2]))
    if k == 'stale':
        return '(H_stale %s %s)' % (cz(op[1]), cz(op[2]))
    if k == 'drop':
        return '(H_drop %s)' % cnat(op[1])
    if k == 'vanish':
        return '(H_vanish %s)' % cnat(op[1])
    if k == 'call':
        return '(H_call %s %s %s %s)' % (cnat(op[1]), METH[op[2]], clist(op[3], carg), cz(newid))
    raise ValueError(op)


def ccobs(op, o):
    """client-visible result -> Manager.cobs"""
    kind, k = op[0], o[0]
    if k == 'noop':
        return 'CO_noop'
    if kind == 'create':
        return {'ok': 'CO_ok'}.get(k) or ('(CO_reply (R_traceback %s))' % cexn(o[1]) if k == 'fail' else 'CO_lost')
    if kind in ('copy', 'inherit', 'spawn', 'stale', 'drop', 'vanish', 'batch', 'kill'):
        return {'ok': 'CO_ok'}.get(k) or ('(CO_fail %s)' % cexn(o[1]) if k == 'fail' else 'CO_lost')
    if k == 'ret':
        return '(CO_reply (R_return %s))' % cval(o[1])
    if k == 'raise':        # the referent's exception re-raised in the caller
        if o[1] == 'E_Attribute':
            return '(CO_fail E_Attribute)'
        return '(CO_reply (R_error %s))' % cexn(o[1])
    if k == 'fail':         # RemoteError
        return '(CO_reply (R_traceback %s))' % cexn(o[1])
    if k == 'proxy':
        return '(CO_reply (R_proxy %s %s))' % (cz(o[1]), TYP.get(o[2], 'TUnknown'))
    return 'CO_lost'


def client_case_term(case, obs):
    items = []
    for op, o in zip(case, obs):
        if op[0] == 'batch':        # [ 'batch', [ops...] ]  (fork / process exit / intruder)
            hops = '[' + '; '.join(chop(x, 0) for x in op[1]) + ']'
        else:
            hops = '[%s]' % chop(op, o.get('newid', 0))
        items.append('(%s, (%s, %s))' % (hops, ccobs(op, o['obs']), csnap(o['snap'])))
    return '([' + ';\n  '.join(items) + '] : Manager.ccase)'


def gen_client_case(rng):
    case = []
    kinds = []      # believed (kind, has_manager) of live proxies, in creation order
    for _ in range(rng.randint(3, 22)):
        r = rng.random()
        n = len(kinds)
        if r < 0.2 or n == 0:
            typ = rng.choice(['list', 'list', 'dict', 'Value', 'Shelf', 'Shelf', 'nosuch', 'AList', 'AList'])
            rr = rng.random()
            if typ in ('list', 'Shelf', 'AList'):
                args = [zl(rng)] if rr < 0.85 else rng.choice([[], [z(rng)]])
            elif typ == 'dict':
                args = [zd(rng)] if rr < 0.85 else rng.choice([[], [z(rng)]])
            elif typ == 'Value':
                args = [z(rng), z(rng)] if rr < 0.85 else [z(rng)]
            else:
                args = []
            case.append(['create', rng.randint(10, 12), typ, args])
            ok = typ != 'nosuch' and not (args and args[0][0] == 'z' and typ != 'Value') and \
                not (typ == 'Value' and len(args) < 2)
            if ok:
                kinds.append((typ, True))
        elif r < 0.34:
            k = rng.randint(0, n)
            case.append([rng.choice(['copy', 'copy', 'inherit', 'inherit']), k, rng.randint(10, 13)])
            if k < n:
                kinds.append((kinds[k][0], False))
        elif r < 0.54:
            k = rng.randint(0, n)
            case.append(['drop', k])
            if k < n:
                kinds.pop(k)
        elif r < 0.57:
            case.append(['stale', rng.randint(10, 13), rng.randint(0, 6)])
            kinds.append(('list', False))      # only if the ident is still live; indices may drift
        elif r < 0.60:
            k = rng.randint(0, n)              # the holder vanishes without a decref
            case.append(['vanish', k])
            if k < n:
                kinds.pop(k)
        else:
            k = rng.randint(0, n) if rng.random() < 0.1 else rng.randint(0, n - 1)
            kind = kinds[k][0] if k < n else 'list'
            rr = rng.random()
            if rr < 0.75:
                pool = {'list': LIST_M, 'Shelf': LIST_M + ['clone', 'me', 'clone', 'clone'], 'ShelfRef': LIST_M,
                        'AList': AUTO_M, 'dict': DICT_M, 'Value': ['get', 'set']}[kind]
                meth = rng.choice(pool)
            elif rr < 0.9:
                meth = rng.choice(LIST_M + DICT_M)
            else:
                meth = rng.choice(['__str__', '__repr__', '#GETVALUE', '__iter__', 'bogus', 'get', 'set'])
            args = gen_args(rng, meth, kind)
            case.append(['call', k, meth, args])
            if k < n and kind == 'Shelf' and meth in ('clone', 'me') and not args and kinds[k][1]:
                kinds.append(('list' if meth == 'clone' else 'ShelfRef', True))
    return case


BOUNDARY_CLIENT = [
    # two holders in two processes; the referent goes with the last one, in either order
    [['create', 10, 'list', [['l', [1, 2]]]], ['copy', 0, 11], ['call', 1, 'append', [['z', 3]]],
     ['call', 0, 'pop', []], ['drop', 0], ['call', 0, '__len__', []], ['drop', 0], ['stale', 12, 1]],
    [['create', 10, 'dict', [['d', [[1, 2]]]]], ['copy', 0, 11], ['copy', 1, 12], ['drop', 2], ['drop', 1],
     ['call', 0, '__getitem__', [['z', 7]]], ['call', 0, 'items', []], ['drop', 0]],
    # results of proxy-returning methods through the creator's proxy
    [['create', 10, 'Shelf', [['l', [7]]]], ['call', 0, 'clone', []], ['call', 0, 'me', []],
     ['call', 1, 'append', [['z', 1]]], ['call', 2, 'append', [['z', 2]]], ['call', 0, 'pop', []],
     ['drop', 0], ['call', 1, '__len__', []], ['drop', 1], ['drop', 0]],
    # exceptions of the referent are re-raised; unexposed names give RemoteError
    [['create', 10, 'list', [['l', []]]], ['call', 0, 'pop', []], ['call', 0, 'remove', [['z', 1]]],
     ['call', 0, '__getitem__', [['z', 0]]], ['call', 0, 'append', []], ['call', 0, 'bogus', []],
     ['call', 0, '__str__', []], ['call', 0, '#GETVALUE', []], ['create', 10, 'nosuch', []],
     ['create', 10, 'list', [['z', 3]]]],
]
# a proxy handed to a child inside the Process object (RebuildProxy incref=False + after-fork hook)
BOUNDARY_CLIENT.append(
    [['create', 10, 'list', [['l', [1, 2]]]], ['inherit', 0, 11], ['drop', 0], ['call', 0, 'append', [['z', 3]]],
     ['call', 0, '#GETVALUE', []], ['inherit', 0, 12], ['drop', 0], ['call', 0, '__len__', []], ['drop', 0]])
# the same with a proxy of an AutoProxy class (typeid registered without proxy type, like Queue):
# pickled as (RebuildProxy, (AutoProxy, token, serializer, {exposed})), rebuilt through AutoProxy()
BOUNDARY_CLIENT.append(
    [['create', 10, 'AList', [['l', [1, 2]]]], ['inherit', 0, 11], ['drop', 0], ['call', 0, 'append', [['z', 3]]],
     ['call', 0, 'copy', []], ['copy', 0, 12], ['inherit', 1, 13], ['drop', 0], ['call', 1, 'pop', []],
     ['call', 0, '__len__', []], ['drop', 1], ['call', 0, 'clear', []], ['call', 0, '#GETVALUE', []], ['drop', 0]])
# holders that vanish without a decref (finalised while the manager is not STARTED / with a connection
# that fails): the server is not told, the count stays, the referent survives every later drop
BOUNDARY_CLIENT.append(
    [['create', 10, 'list', [['l', [1]]]], ['copy', 0, 11], ['vanish', 1], ['call', 0, 'append', [['z', 2]]],
     ['drop', 0], ['stale', 12, 1], ['call', 0, '__len__', []], ['drop', 0],
     ['create', 10, 'dict', [['d', [[1, 2]]]]], ['vanish', 0], ['vanish', 0]])
# a proxy-returning method through a proxy that was passed on (unpickled): AttributeError + leak
LEAK_CASE = [['create', 10, 'Shelf', [['l', [7]]]], ['copy', 0, 11], ['call', 1, 'clone', []],
             ['drop', 1], ['drop', 0]]


def correspond_client(res, n):
    rng = random.Random(res.seed * 92821 + 21)
    corpus = [c for c in json.load(open(core.VERIF + '/corpus/C20.json')) if c.get('mode') == 'client']
    cases = [c['case'] for c in corpus] + BOUNDARY_CLIENT + [gen_client_case(rng) for _ in range(n)] + [LEAK_CASE]
    outs = core.run_driver('mgr_driver.py', dict(mode='client', cases=cases))
    if outs and outs[-1] and outs[-1][-1].get('hang'):
        bad = cases[len(outs) - 1]
        res.alarms.append(dict(signature='C20:client-operation-hangs-or-crashes',
                               what='a real manager client operation did not return (%s) in %s'
                                    % (outs[-1][-1].get('error', 'timeout'), json.dumps(bad)[:500]),
                               replay=dict(mode='client', case=bad)))
        outs = outs[:-1]
        cases = cases[:len(outs)]
    terms = [client_case_term(c, o[:-1]) for c, o in zip(cases, outs)]
    codes = dict(core.coq_eval('C20c', CHEADER, core.chunks(terms, 100))[0]) if terms else {}
    hist = {}
    nontrivial = set()
    late = []
    for i, (c, o) in enumerate(zip(cases, outs)):
        live_calls = 0
        for op, ob in zip(c, o[:-1]):
            hist['op:' + op[0]] = hist.get('op:' + op[0], 0) + 1
            k = ob['obs'][0] + (':' + ob['obs'][1] if ob['obs'][0] in ('raise', 'fail') else '')
            hist['result:' + k] = hist.get('result:' + k, 0) + 1
            if op[0] == 'call' and ob['obs'][0] in ('ret', 'raise', 'proxy'):
                live_calls += 1
            if ob['numobj'] != len(ob['snap']):
                res.alarms.append(dict(signature='C20:number-of-objects-wrong',
                                       what='number_of_objects() = %s but the table has %d referents'
                                            % (ob['numobj'], len(ob['snap'])), replay=dict(mode='client', case=c)))
        if live_calls >= 2:
            nontrivial.add(json.dumps(c))
        code = codes.get(i, 0)
        rp = dict(mode='client', case=c, impl=o)
        fin = o[-1]
        if fin.get('unlocked'):
            res.alarms.append(dict(signature='C20:table-update-without-mutex',
                                   what='the real server threads changed the tables without holding Server.mutex '
                                        '(table, operation, function): %s in %s'
                                        % (json.dumps(fin['unlocked'][:4]), json.dumps(c)[:300]), replay=rp))
        if code == 2:
            res.alarms.append(dict(signature='C20:client-differs-from-model',
                                   what='real proxies / real server (results, exceptions, table, refcounts) differ '
                                        'from the proved model on %s' % json.dumps(c)[:600], replay=rp))
        elif code == 5:
            late.append(dict(signature='C20:proxy-result-via-unpickled-proxy-fails-and-leaks',
                             what='a proxy-returning method called through a proxy that was passed to another '
                                  'process (BaseProxy._manager is None there) raises AttributeError in the caller '
                                  'after the server created and counted the result: the referent is never released '
                                  '(%d left in the table after every proxy was dropped)' % fin['final_objects'],
                             replay=rp))
        elif code:
            res.broken.append(dict(kind='correspondence', name='Manager.check_client_case code %d' % code,
                                   detail=json.dumps(rp)[:1500]))
        elif fin['final_objects'] != fin.get('expected_leaked', 0) or \
                fin['final_refcounts'] != fin.get('expected_leaked', 0):
            res.alarms.append(dict(signature='C20:referent-survives-all-proxies' if fin['final_objects'] >
                                   fin.get('expected_leaked', 0) else 'C20:referent-disposed-while-proxy-lives',
                                   what='%d referents left in the server after every proxy was dropped (%d are held '
                                        'by holders that vanished without a decref): %s'
                                        % (fin['final_objects'], fin.get('expected_leaked', 0), json.dumps(c)[:500]),
                                   replay=rp))
    k0 = len(corpus)
    res.add_cov(evaluations=len(cases), distinct=len(nontrivial), traces=len(cases),
                samples=[dict(case=c, impl=o) for c, o in list(zip(cases, outs))[k0:k0 + 1]]
                + [dict(case=c, impl=o) for c, o in list(zip(cases, outs))[k0 + len(BOUNDARY_CLIENT):k0 + len(BOUNDARY_CLIENT) + 1]],
                rule='client level: the real accepter/handle_request/serve_client threads in-process, real '
                     'BaseManager/BaseProxy objects over real connections; random sequences of 3-22 operations '
                     '(create list/dict/Value/Shelf and a list registered without proxy type (AutoProxy), copy by '
                     'pickling, inherit = unpickle under _inheriting + after-fork hook, drop, unpickle a stale token, call); '
                     'non-trivial = at least 2 calls executed on a live referent; distinct by canonical JSON',
                client_histogram=hist)
    return late


# ------------------------------------------------- real processes (thorough tier)
def gen_procs_case(rng):
    case = []
    owners = []      # believed owner pid per live proxy
    kinds = []
    pids = [10, 11, 12]
    forked = []
    spawned = 0
    for _ in range(rng.randint(6, 18)):
        r = rng.random()
        n = len(owners)
        if r < 0.18 or n == 0:
            typ = rng.choice(['list', 'dict', 'Value', 'Shelf', 'AList', 'AList'])
            args = {'list': [zl(rng)], 'Shelf': [zl(rng)], 'AList': [zl(rng)], 'dict': [zd(rng)],
                    'Value': [z(rng), z(rng)]}[typ]
            case.append(['create', 10, typ, args])
            owners.append(10)
            kinds.append((typ, True))
        elif r < 0.36:
            k = rng.randrange(n)
            pid = rng.choice(pids + forked)
            case.append(['copy', k, pid])
            owners.append(pid)
            kinds.append((kinds[k][0], False))
        elif r < 0.52:
            k = rng.randrange(n)
            case.append(['drop', k])
            owners.pop(k)
            kinds.pop(k)
        elif r < 0.57 and len(forked) < 2:
            pid = 13 + len(forked)
            case.append(['fork', pid])
            for i in range(n):
                if owners[i] == 10:
                    owners.append(pid)
                    kinds.append((kinds[i][0], False))
            forked.append(pid)
        elif r < 0.62 and forked:
            pid = forked.pop(rng.randrange(len(forked)))
            case.append([rng.choice(['exit', 'exit', 'kill']), pid])
            keep = [i for i in range(n) if owners[i] != pid]
            owners[:] = [owners[i] for i in keep]
            kinds[:] = [kinds[i] for i in keep]
        elif r < 0.66:
            case.append(['intruder', rng.choice(['wrong_key', 'no_key'])])
        elif r < 0.72 and spawned < 2 and 10 in owners:
            k = rng.choice([i for i in range(n) if owners[i] == 10])
            pid = 15 + spawned
            spawned += 1
            case.append(['spawn', k, pid, rng.choice(['spawn', 'forkserver'])])
            owners.append(pid)
            kinds.append((kinds[k][0], False))
            forked.append(pid)          # may exit like a forked one
        else:
            k = rng.randrange(n)
            kind = kinds[k][0]
            pool = {'list': LIST_M, 'Shelf': LIST_M + ['clone', 'clone'], 'ShelfRef': LIST_M, 'AList': AUTO_M,
                    'dict': DICT_M, 'Value': ['get', 'set']}[kind]
            meth = rng.choice(pool)
            args = gen_args(rng, meth, kind)
            case.append(['call', k, meth, args])
            if kind == 'Shelf' and meth == 'clone' and not args and kinds[k][1]:
                owners.append(owners[k])
                kinds.append(('list', True))
    return case


BOUNDARY_PROCS = [
    # one referent, three processes, dropped in two different orders; an intruder in between
    [['create', 10, 'list', [['l', [1, 2]]]], ['copy', 0, 11], ['copy', 1, 12], ['call', 1, 'append', [['z', 5]]],
     ['call', 2, 'pop', []], ['intruder', 'wrong_key'], ['intruder', 'no_key'], ['drop', 0],
     ['call', 0, '__len__', []], ['drop', 1], ['call', 0, '__getitem__', [['z', 0]]], ['drop', 0]],
    [['create', 10, 'dict', [['d', [[1, 2]]]]], ['copy', 0, 11], ['copy', 0, 12], ['drop', 2], ['drop', 1],
     ['call', 0, 'items', []], ['drop', 0]],
    # fork with proxies, orderly exit of the child
    [['create', 10, 'list', [['l', [3]]]], ['create', 10, 'Value', [['z', 0], ['z', 4]]], ['fork', 13],
     ['call', 2, 'append', [['z', 1]]], ['call', 3, 'set', [['z', 9]]], ['drop', 0], ['drop', 0],
     ['call', 1, 'get', []], ['exit', 13]],
]


# the spawn scenario of the quick tier: the child got the proxy as a Process argument, the parent
# drops its own, the child appends and reads back, the referent stays until the child exits
SPAWN_CASE = [['create', 10, 'list', [['l', [1, 2]]]], ['spawn', 0, 15], ['drop', 0],
              ['call', 0, 'append', [['z', 3]]], ['call', 0, '#GETVALUE', []], ['exit', 15]]
BOUNDARY_PROCS.append(SPAWN_CASE)
BOUNDARY_PROCS.append([['create', 10, 'dict', [['d', [[1, 2]]]]], ['spawn', 0, 15], ['spawn', 0, 16], ['drop', 0],
                       ['call', 1, '__setitem__', [['z', 5], ['z', 6]]], ['exit', 16], ['call', 0, 'items', []],
                       ['exit', 15]])


# the same scenario with an AutoProxy-class proxy (typeid registered like Queue), quick tier too;
# and through the forkserver start method (thorough tier)
SPAWN_AUTO_CASE = [['create', 10, 'AList', [['l', [1, 2]]]], ['spawn', 0, 15], ['call', 1, 'append', [['z', 3]]],
                   ['drop', 0], ['call', 0, 'copy', []], ['exit', 15]]
BOUNDARY_PROCS.append(SPAWN_AUTO_CASE)
BOUNDARY_PROCS.append([['create', 10, 'AList', [['l', [4]]]], ['create', 10, 'list', [['l', [5]]]],
                       ['spawn', 0, 15, 'forkserver'], ['spawn', 1, 16, 'forkserver'], ['call', 2, 'pop', []],
                       ['call', 3, 'append', [['z', 6]]], ['exit', 15], ['exit', 16],
                       ['call', 0, 'copy', []], ['call', 1, '__len__', []], ['drop', 0], ['drop', 0]])


# a client process killed (SIGKILL) while it holds proxies: the server is not told, the counts stay,
# the referent survives the parent's drop (C20_vanished_holder_never_released; the model follows the code)
KILL_CASE = [['create', 10, 'list', [['l', [1, 2]]]], ['create', 10, 'dict', [['d', [[1, 2]]]]], ['fork', 13],
             ['call', 2, 'append', [['z', 3]]], ['copy', 3, 11], ['kill', 13], ['call', 0, '__len__', []],
             ['drop', 0], ['drop', 0], ['exit', 11]]
BOUNDARY_PROCS.append(KILL_CASE)


def procs_to_model(case, outs):
    """fork / exit / intruder become batches of model operations (owners come from the driver)"""
    mcase = []
    owners = []
    for op, o in zip(case, outs):
        if op[0] == 'fork':
            mcase.append(['batch', [['copy', k, op[1]] for k, w in enumerate(owners) if w == 10]])
        elif op[0] == 'exit':
            mcase.append(['batch', [['drop', k] for k in reversed(range(len(owners))) if owners[k] == op[1]]])
        elif op[0] == 'kill':       # SIGKILL: every proxy of that process vanishes without a decref
            mcase.append(['batch', [['vanish', k] for k in reversed(range(len(owners))) if owners[k] == op[1]]])
        elif op[0] == 'intruder':
            mcase.append(['batch', []])
        else:
            mcase.append(op)
        owners = o['owners']
    return mcase


def correspond_procs(res, n, only=None):
    rng = random.Random(res.seed * 31337 + 22)
    cases = only if only is not None else BOUNDARY_PROCS + [gen_procs_case(rng) for _ in range(n)]
    outs = []
    for ch in core.chunks(cases, 25):
        outs += core.run_driver('mgr_driver.py', dict(mode='procs', cases=ch), timeout=1500)
    terms = [client_case_term(procs_to_model(c, o[:-1]), o[:-1]) for c, o in zip(cases, outs)]
    codes = dict(core.coq_eval('C20p', CHEADER, core.chunks(terms, 60))[0])
    late = []
    hist = {}
    for i, (c, o) in enumerate(zip(cases, outs)):
        for op, ob in zip(c, o[:-1]):
            hist[op[0]] = hist.get(op[0], 0) + 1
            if op[0] == 'intruder' and ob['obs'] != ['ok']:
                res.alarms.append(dict(signature='C20:intruder-served',
                                       what='a client without the manager key was served', replay=dict(mode='procs', case=c)))
            if ob['numobj'] != len(ob['snap']):
                res.alarms.append(dict(signature='C20:number-of-objects-wrong',
                                       what='number_of_objects() = %s, debug_info shows %d' % (ob['numobj'], len(ob['snap'])),
                                       replay=dict(mode='procs', case=c)))
        code = codes.get(i, 0)
        rp = dict(mode='procs', case=c, impl=o)
        if code == 2:
            res.alarms.append(dict(signature='C20:real-processes-differ-from-model',
                                   what='real manager process + client processes differ from the proved model on %s'
                                        % json.dumps(c)[:600], replay=rp))
        elif code == 5:
            late.append(dict(signature='C20:proxy-result-via-unpickled-proxy-fails-and-leaks',
                             what='(real processes) proxy-returning method through a proxy in a child process: '
                                  'AttributeError in the caller and %d referents left after every process released '
                                  'its proxies' % o[-1]['final_objects'], replay=rp))
        elif code:
            res.broken.append(dict(kind='correspondence', name='real processes: check_client_case code %d' % code,
                                   detail=json.dumps(rp)[:1500]))
        elif o[-1]['final_objects'] != o[-1].get('expected_leaked', 0):
            res.alarms.append(dict(signature='C20:referent-survives-all-proxies' if o[-1]['final_objects'] >
                                   o[-1].get('expected_leaked', 0) else 'C20:referent-disposed-while-proxy-lives',
                                   what='(real processes) %d referents left after every proxy was released '
                                        '(%d are held by killed processes)'
                                        % (o[-1]['final_objects'], o[-1].get('expected_leaked', 0)), replay=rp))
    res.add_cov(evaluations=len(cases), distinct=len({json.dumps(c) for c in cases}), traces=len(cases),
                rule='real processes: a real manager server process, two pre-started client processes and up to two '
                     'forked with live proxies; proxies passed by pickling, dropped in random orders, orderly '
                     'process exit, wrong-key and no-key intruders; tables read through debug_info()',
                procs_histogram=hist)
    return late



# ------------------------------------- lifetime of the typeids SyncManager registers itself
# Referents whose values are outside the Coq model (Queue, JoinableQueue, Event, Lock, ...): the
# proved equation C20_refcount (refcount = live proxies) and C20_in_table_iff_held are evaluated
# as monitors on histories of the real SyncManager: proxies handed to fork / spawn / forkserver
# children as Process arguments, used on both sides, dropped / children exiting in scripted orders.
LIFE_TYPEIDS = ['Queue', 'JoinableQueue', 'Event', 'Lock', 'RLock', 'Semaphore', 'BoundedSemaphore', 'Condition',
                'Barrier', 'list', 'dict', 'Value', 'Array', 'Namespace']
LIFE_AUTO = ('Queue', 'JoinableQueue')        # registered without a proxy type: AutoProxy classes


def life_basic(method, types, parent_first):
    n = len(types)
    case = [['create', t] for t in types] + [['start', method, 20, list(range(n))], ['use', 20, list(range(n))]]
    case += [['puse', i] for i in range(n)]
    drops = [['drop', i] for i in range(n)]
    return case + (drops + [['exit', 20]] if parent_first else [['exit', 20]] + drops)


def gen_life_case(rng):
    types = [rng.choice(LIFE_TYPEIDS if rng.random() < 0.6 else LIFE_AUTO) for _ in range(rng.randint(1, 5))]
    n = len(types)
    case = [['create', t] for t in types]
    parent = set(range(n))
    kids = {}
    used = set()
    pused = set()
    pid = 20
    for _ in range(rng.randint(3, 14)):
        r = rng.random()
        if r < 0.3 and parent and len(kids) < 3:
            idxs = sorted(rng.sample(sorted(parent), rng.randint(1, len(parent))))
            case.append(['start', rng.choice(['spawn', 'forkserver', 'fork', 'spawn']), pid, idxs])
            kids[pid] = idxs
            pid += 1
        elif r < 0.5 and kids:
            k = rng.choice(sorted(kids))
            todo = [i for i in kids[k] if i not in used and i not in pused]
            if todo:
                case.append(['use', k, todo])
                used.update(todo)
        elif r < 0.65 and parent:
            i = rng.choice(sorted(parent))
            if i not in pused:
                case.append(['puse', i])
                pused.add(i)
        elif r < 0.85 and parent:
            i = rng.choice(sorted(parent))
            case.append(['drop', i])
            parent.discard(i)
        elif kids:
            k = rng.choice(sorted(kids))
            case.append(['exit', k])
            del kids[k]
    order = [['exit', k] for k in sorted(kids)] + [['drop', i] for i in sorted(parent)]
    rng.shuffle(order)
    return case + order


def life_monitor(case, out):
    """-> (signature, what, object index or None) of the first / gravest deviation, or None"""
    parent = {}
    kids = {}
    n = 0
    worst = None
    for step, (st, o) in enumerate(zip(case, out)):
        k = st[0]
        if k == 'create':
            parent[n] = 1
            n += 1
        elif k == 'start':
            held = set(st[3])
            if st[1] == 'fork':      # a forked child has every proxy object the parent has
                held |= {i for i, v in parent.items() if v}
            kids[st[2]] = held
            if o['obs'] != ['ok', len(st[3])]:
                return ('C20:client-operation-hangs-or-crashes', 'child did not start: %r' % (o['obs'],), None)
        elif k == 'drop':
            parent[st[1]] = 0
        elif k == 'exit':
            kids.pop(st[1], None)
            if o['obs'] != ['exit', 0]:
                return ('C20:client-operation-hangs-or-crashes', 'child exit code %r' % (o['obs'],), None)
        elif k in ('use', 'puse'):
            if o['obs'][1] != o['obs'][2]:
                objs = st[2] if k == 'use' else [st[1]]
                i = next(x for x, g, w in zip(objs, o['obs'][1], o['obs'][2]) if g != w)
                return ('C20:proxy-call-differs-from-local',
                        'step %d %r, %s referent: through the proxy %r, on the local object %r'
                        % (step, st, case[i][1], o['obs'][1], o['obs'][2]), i)
        want = {i: parent[i] + sum(1 for h in kids.values() if i in h) for i in parent}
        got = dict((i, rc) for i, rc in o['rc'])
        for i in sorted(want):
            typ = case[i][1]
            if want[i] >= 1 and i not in got:
                return ('C20:referent-disposed-while-proxy-lives',
                        'after step %d %r the %s referent is gone although %d proxies exist' % (step, st, typ, want[i]), i)
            if want[i] == 0 and i in got and (worst is None or worst[0] != 'C20:referent-survives-all-proxies'):
                worst = ('C20:referent-survives-all-proxies',
                         'after step %d %r no proxy to the %s referent exists in any process but the server '
                         'still holds it (refcount %d)' % (step, st, typ, got[i]), i)
            elif i in got and got[i] != want[i] and worst is None:
                worst = ('C20:refcount-differs-from-live-proxies',
                         'after step %d %r the %s referent has refcount %d, live proxies %d'
                         % (step, st, typ, got[i], want[i]), i)
        if o['numobj'] != len(got) and worst is None:
            worst = ('C20:number-of-objects-wrong',
                     'number_of_objects() = %s, debug_info shows %d' % (o['numobj'], len(got)), None)
    return worst


def life_restrict(case, i):
    """the history of object i alone (the other objects and the statements on them removed)"""
    out = []
    n = 0
    for st in case:
        k = st[0]
        if k == 'create':
            if n == i:
                out.append(st)
            n += 1
        elif k == 'start':
            out.append(['start', st[1], st[2], [0] if i in st[3] else []])
        elif k == 'use':
            if i in st[2]:
                out.append(['use', st[1], [0]])
        elif k in ('puse', 'drop'):
            if st[1] == i:
                out.append([k, 0])
        else:
            out.append(st)
    return out


def correspond_life(res, only=None):
    rng = random.Random(res.seed * 7919 + 23)
    if only is not None:
        cases = only
    else:
        cases = [life_basic('spawn', LIFE_TYPEIDS, True), life_basic('forkserver', LIFE_TYPEIDS, False)]
        if res.tier != 'quick':
            cases += [life_basic('fork', LIFE_TYPEIDS, True), life_basic('fork', LIFE_TYPEIDS, False),
                      life_basic('spawn', LIFE_TYPEIDS, False), life_basic('forkserver', LIFE_TYPEIDS, True)]
            cases += [gen_life_case(rng) for _ in range(24)]
    outs = []
    for ch in core.chunks(cases, 10):
        outs += core.run_driver('mgr_driver.py', dict(mode='life', cases=ch), timeout=1500)
    hist = {}
    steps = 0
    for c, o in zip(cases, outs):
        for st in c:
            key = st[0] + (':' + st[1] if st[0] in ('create', 'start') else '')
            hist[key] = hist.get(key, 0) + 1
        steps += len(o)
        bad = life_monitor(c, o)
        if bad and bad[2] is not None and sum(1 for st in c if st[0] == 'create') > 1:
            # smaller witness: the history of the object concerned alone, run again
            c1 = life_restrict(c, bad[2])
            o1 = core.run_driver('mgr_driver.py', dict(mode='life', cases=[c1]), timeout=300)[0]
            bad1 = life_monitor(c1, o1)
            if bad1 and bad1[0] == bad[0]:
                c, o, bad = c1, o1, bad1
        if bad:
            res.alarms.append(dict(signature=bad[0], what='(real SyncManager, real processes) %s; history %s'
                                                          % (bad[1], json.dumps(c)[:500]),
                                   replay=dict(mode='life', case=c, impl=o)))
    res.add_cov(evaluations=len(cases), distinct=len({json.dumps(c) for c in cases}), traces=len(cases),
                rule='lifetime on the typeids SyncManager registers itself (Queue and JoinableQueue = AutoProxy '
                     'classes, Event, Lock, RLock, Semaphore, BoundedSemaphore, Condition, Barrier, list, dict, Value, '
                     'Array, Namespace): proxies passed as Process arguments to children started with spawn / '
                     'forkserver (thorough: fork too), statements run through the proxies in child and parent and on '
                     'a local twin, drops and child exits in both orders; after every step refcount = live proxies, '
                     'in the table iff held, results equal those of the twin',
                life_histogram=hist, life_steps_observed=steps)


def thread_affine(res):
    """proxies of thread-affine referents (RLock, Condition) across the release of OTHER proxies by the
    same client thread, with other clients connected in between: a real SyncManager against local twins
    (harness/mgr_affine_driver.py)"""
    outs = core.run_driver('mgr_affine_driver.py', dict(), timeout=200)
    for r in outs:
        if r['kind'] == 'undecodable-after':
            for opname, o in r['ops'].items():
                if o['outcome'][0] == 'returned' and o['size_after'] == 0:
                    res.alarms.append(dict(signature='C20:undecodable-request-dropped-with-a-made-up-reply',
                                           what='one connection: %s on the proxy, then %s with an argument the server cannot unpickle: the call returned %s, '
                                                'raised nothing, and the container is still empty' % (r['first'], opname, o['outcome'][1]),
                                           replay=dict(mode='affine', case=dict(kind='undecodable-after', first=r['first'], other_clients=0), impl=r)))
            continue
        diff = [(a, b) for a, b in zip(r['proxy'], r['local']) if a[:2] != b[:2]]
        stuck = [x for x in r['proxy'] if x[0] == 'other-thread-acquires' and x[2] != '[True]']
        if diff or stuck:
            a, b = (diff[0] if diff else (stuck[0], ['other-thread-acquires', 'ok', '[True]']))
            res.alarms.append(dict(signature='C20:proxy-operation-differs-from-local-object-after-another-proxy-was-released',
                                   what='%s held through its proxy, the same thread releases an unrelated proxy (%d other clients connected): '
                                        '%s gives %s through the proxy and %s on the local object'
                                        % (r['kind'], r['other_clients'], a[0], a[1:], b[1:]),
                                   replay=dict(mode='affine', case=dict(kind=r['kind'], other_clients=r['other_clients']), impl=r)))
    res.add_cov(evaluations=len(outs), traces=len(outs), affine_scenarios=len(outs))


def run(res):
    import time
    phases = {}

    def timed(name, fn, *a, **kw):
        t0 = time.time()
        try:
            return fn(*a, **kw)
        finally:
            phases[name] = round(time.time() - t0, 1)
            res.cov['phase_wall_s'] = dict(phases)
    timed('proof (incl. waiting for the shared build lock)', res.proof_step, 'Props/C20.v',
          extra_targets=['Model/Manager.vo'], kernels_needed=['G_manager'])
    n = 150 if res.tier == 'quick' else 3000      # (thorough: + ~3 min of concurrent scenarios, 15 min budget)
    if res.broken:
        n = max(n, 1500)
    late = timed('server', correspond_server, res, n)
    late += timed('client', correspond_client, res,
                  40 if res.tier == 'quick' and not res.broken else min(n // 3, 800))
    late += timed('procs', correspond_procs, res, 25) if res.tier != 'quick' else \
        timed('procs', correspond_procs, res, 0, only=[SPAWN_CASE, SPAWN_AUTO_CASE, KILL_CASE])
    timed('life', correspond_life, res)
    timed('affine', thread_affine, res)
    # "each single operation from concurrent clients takes effect atomically": real client processes and
    # threads hammering one referent through its proxy (props/c20conc.py, harness/mgr_conc_driver.py)
    timed('conc', c20conc.correspond_conc, res)
    # a history on which the statement itself fails (a referent outliving every proxy / disposed
    # under a live proxy) is reported before the differences from the model that accompany it;
    # the repaired Iterator defect, if it is back, stays first
    rank = {'C20:iterator-proxy-next-not-exposed': 0, 'C20:referent-survives-all-proxies': 1,
            'C20:referent-disposed-while-proxy-lives': 1, 'C20:concurrent-update-lost': 1,
            'C20:concurrent-operation-not-atomic': 1, 'C20:table-update-without-mutex': 1}
    res.alarms.sort(key=lambda a: rank.get(a['signature'], 2))
    # defects of the unchanged tree (see docs/C20.md): one alarm per signature, smallest witness,
    # after everything else so that a new problem is reported first
    best = {}
    for a in late:
        size = len(json.dumps(a['replay']['case']))
        if a['signature'] not in best or size < best[a['signature']][0]:
            best[a['signature']] = (size, a)
    res.alarms += [best[k][1] for k in sorted(best)]
    res.assumptions += [
        'requests are interleaved at request grain: one Server method call / one serve_client iteration is atomic '
        '(rests on the GIL, the RLock in create/incref/decref -- its presence around every table access is a checked '
        'structural fact, C20_code_mutex, and monitored on the running Server -- and C-level container methods; the '
        'interleaving itself is not modelled: atomicity of single operations under truly concurrent clients is '
        'TESTED by the concurrent scenarios (monitors on real processes / threads), not proved)',
        'id(obj) of a new referent is non-zero and differs from the idents of live referents (CPython addresses)',
        'referents: list, dict (int keys/values), managers.Value, list iterators, a harness list subclass with '
        'proxy-returning methods and a list registered without proxy type (AutoProxy class); a subset of their '
        'methods (34 names); the other typeids SyncManager registers (Queue, JoinableQueue, Event, Lock, RLock, '
        'Semaphore, Condition, Barrier, Array, Namespace) through the generic dispatch / lifetime theorems, whose '
        'refcount equation is monitored on real fork / spawn / forkserver histories with a few statements per type '
        'compared with a local twin; Pool and AsyncResult only through the generic theorems',
        'pickling of requests/replies, finaliser timing (CPython refcounting runs BaseProxy._decref at the last '
        'reference), socket transport and the HMAC itself (C18) are outside the model',
        'a holder that disappears without a decref (client killed, BaseProxy._decref skipped or its connection '
        'failing) leaves its reference counted for ever: modelled (H_vanish), proved (C20_vanished_holder_never_released) '
        'and observed on the real code (SIGKILLed child, finalisation while the manager is not STARTED); the positive '
        'disposal theorem excludes such steps',
    ]


def replay(path):
    d = json.load(open(path))
    rp = d.get('replay')
    if not rp:
        print('no concrete input in this replay file (broken obligations):')
        for b in d.get('broken', []):
            print(' ', b.get('kind'), b.get('name'))
        return 1
    c = rp['case']
    if rp['mode'] == 'conc':
        print('signature:', d.get('signature'))
        return c20conc.replay_conc(c)
    if rp['mode'] == 'affine':
        bad = 0
        for r in core.run_driver('mgr_affine_driver.py', dict(kinds=[c['kind']] if c['kind'] != 'undecodable-after' else []), timeout=200):
            if r['kind'] == 'undecodable-after':
                if c['kind'] == 'undecodable-after' and r['first'] == c.get('first'):
                    print(json.dumps(r['ops']))
                    bad += sum(1 for o in r['ops'].values() if o['outcome'][0] == 'returned' and o['size_after'] == 0)
                continue
            if r.get('other_clients') != c['other_clients']:
                continue
            for a, b in zip(r['proxy'], r['local']):
                print(a, '| local:', b)
                bad += a[:2] != b[:2]
        return 1 if bad else 0
    out = core.run_driver('mgr_driver.py', dict(mode=rp['mode'], cases=[c]), timeout=900)[0]
    print('signature:', d.get('signature'))
    print('case:', json.dumps(c))
    if rp['mode'] == 'life':
        print('implementation now:')
        for step, o in zip(c, out):
            print('  ', json.dumps(step), '-> refcounts', json.dumps(o['rc']), 'objects', o['numobj'],
                  json.dumps(o['obs'])[:300])
        bad = life_monitor(c, out)
        print('monitors satisfied (refcount = live proxies after every step, results as on the local twin)'
              if not bad else '%s: %s' % bad[:2])
        return 1 if bad else 0
    if out and out[-1].get('hang'):
        print('implementation now: the operation does not return / crashes:', out[-1])
        return 1
    print('implementation now:')
    for step, o in zip(c, out):
        print('  ', json.dumps(step)[:160], '->', json.dumps({k: v for k, v in o.items() if k != 'order_ok'})[:400])
    if rp['mode'] == 'server':
        codes, _ = core.coq_eval('C20r', HEADER, [[server_case_term(c, out)]])
        bad_order = [o for o in out if not o.get('order_ok', True)]
        if bad_order:
            print('a request was read before the handshake completed')
        unl = [o['unlocked'] for o in out if o.get('unlocked')]
        if unl:
            print('tables changed without holding Server.mutex (table, operation, function):', json.dumps(unl[0]))
            bad_order = bad_order or unl
    elif rp['mode'] == 'client':
        codes, _ = core.coq_eval('C20r', CHEADER, [[client_case_term(c, out[:-1])]])
        print('   after dropping every proxy:', out[-1])
        bad_order = out[-1].get('unlocked') or []
        if bad_order:
            print('tables changed without holding Server.mutex (table, operation, function):', json.dumps(bad_order))
    else:
        codes, _ = core.coq_eval('C20r', CHEADER, [[client_case_term(procs_to_model(c, out[:-1]), out[:-1])]])
        print('   after every process released its proxies:', out[-1])
        bad_order = []
    code = codes[0][1] if codes else 0
    if code == 0 and bad_order:
        print('model and implementation agree on replies and tables, but a monitor on the implementation failed (above)')
        return 1
    print({0: 'model and implementation agree, monitors satisfied',
           1: 'input outside the model',
           2: 'implementation differs from the proved model',
           3: 'agree, but C20 is violated: Iterator proxy __next__ is not exposed',
           4: 'agree, but a call through an offered proxy method differs from the local object',
           5: 'agree, but C20 is violated: result of a proxy-returning method leaked'}[code])
    return 1 if (code or bad_order) else 0
