"""C01 -- every job resolves exactly once, with its own outcome.  Pool family: theorems over Model/Pool.v (Props/C01.v), tied to
billiard/pool.py by differential correspondence on fake-process histories."""
import json
from vlib import core
from props import poolcommon as pc

MANIFEST = dict(
    text="Theorems (all histories of worker messages from any pid incl. stale/duplicate, exits, supervision passes, scans, clock, put failures, user calls): an Apply job outcome, once observable, is the same in every extension (single assignment); success+error callbacks fire at most once and exactly once iff resolved; WorkerLostError names this job and its marker status, TimeLimitExceeded carries this job's own limit; resolved+accepted jobs have left the cache so late/duplicate messages are ignored; a result touches only its own job. Completion: proved for the closed composition client/queues/workers/parent in which nothing fails (Model/PoolSys.v: every schedule is at most 6n steps, never stuck before the end, and ends with every job resolved once with its own result); with failures, resolution is by the per-cause theorems (result, put failure, lost worker after its grace period, hard limit, terminate_job) and completion of arbitrary mixed schedules is validated on implementation traces only. Closed system WITH crashes (Model/PoolCrash.v, every schedule in which a pass runs after the messages of the dead worker were drained; pools without restart limit): every resolved job has its own result or the loss of its own worker, and from every reachable state an end with every job resolved is reachable (C01_crash_*).",
    note='Trusted: Coq kernel; hand-written model Model/Pool.v validated on every run against the real billiard.pool parent-side code (harness/pool_driver.py: fake processes, fake clock, recorded signals); event-level atomicity; worker side and OS not modelled here (C03 covers the worker loop). Partial: liveness/completion and map/imap part-level exactly-once are only checked by correspondence and monitors; races inside one handler (beyond the repaired _set race) are outside the grain.',
    technique='Coq proof (invariants by induction over all event histories of an executable pool model) + differential correspondence against the real parent-side code',
    ref='5.1',
)

FOCUS = {'ready': 14, 'ack': 12, 'scan': 6, 'exit': 5, 'stale_ready': 1.5, 'stale_ack': 1.5}


def run(res):
    res.proof_step('Props/C01.v', extra_targets=['Model/Pool.vo', 'Model/PoolCrash.vo'], kernels_needed=['G_pool_shape', 'G_pool_pins'])
    n = 150 if res.tier == 'quick' else 6000
    if res.broken:
        n = max(n, 1500)      # failing-input search on the implementation
    pc.pool_check(res, 'C01', n, focus=FOCUS)
    pc.closed_check(res, 'C01', 120 if res.tier == 'quick' else 2000)
    # the closed system with crashes (Model/PoolCrash.v), schedules without the racy pass of the recorded C04 finding
    pc.crash_closed_check(res, 'C01', 40 if res.tier == 'quick' else 800, allow_early=False)
    set_race_probe(res)
    pc.real_scenarios(res, 'C01', [dict(kind='closed_system', n=2, jobs=12), dict(kind='closed_system', n=3, jobs=7, putlocks=False)] if res.tier == 'quick' else [dict(kind='closed_system', n=n, jobs=j, putlocks=pl) for n in (1, 2, 4) for j in (0, 1, 9, 40) for pl in (True, False)])
    res.assumptions += pc_assumptions()


def set_race_probe(res):
    """two pool threads inside ApplyResult._set for the same job (the worker's result and a
    pool-made failure): the second arrives while the first is inside its critical section
    (forced through the hook the first one calls under the job's mutex).  First outcome kept,
    exactly one callback, once."""
    cases = [dict(first=a, second=b, hold_s=h) for a in ('value', 'failure') for b in ('value', 'failure') for h in (0.05, 0.2)]
    outs = core.run_driver('set_race_driver.py', cases, timeout=120)
    for c, o in zip(cases, outs):
        want_cb = 'callback' if c['first'] == 'value' else 'error_callback'
        want_final = ['value', 41] if c['first'] == 'value' else ['failure', 'TimeLimitExceeded']
        bad = None
        if o['hung']:
            bad = ('C01:concurrent-set-hangs', 'a _set call did not return')
        elif not o['entered']:
            res.broken.append(dict(kind='harness', name='set_race_driver: the first _set never reached its hook', detail=json.dumps(o)))
        elif [x[0] for x in o['calls']] != [want_cb]:
            bad = ('C01:callbacks-fired-twice', 'callbacks run: %s' % o['calls'])
        elif o['final'] != want_final:
            bad = ('C01:outcome-changed', 'final outcome %s, first outcome was %s' % (o['final'], want_final))
        if bad:
            res.alarms.append(dict(signature=bad[0],
                                   what='two threads in ApplyResult._set for one job (first: %s, second: %s arriving while the first holds the job\'s mutex): %s'
                                        % (c['first'], c['second'], bad[1]),
                                   replay=dict(kind='set-race', case=c, observed=o)))
    res.add_cov(set_race_probes=len(cases))


def pc_assumptions():
    return [
        'atomicity grain: one event = one message handled, one supervision pass, one full timeout scan, one user call; preemption inside these is not modelled',
        'worker processes, the clock, kill() and waitpid() are harness fakes; task values are abstract tags',
        'threads=False driving of the real handlers (handle_result_event, _maintain_pool, TimeoutHandler.handle_event, TaskHandler.body)',
    ]


def replay(path):
    d = json.load(open(path))
    rep = d.get('replay') or {}
    if rep.get('kind') == 'set-race':
        out = core.run_driver('set_race_driver.py', [rep['case']], timeout=60)[0]
        print('case:', json.dumps(rep['case']))
        print('implementation now:', json.dumps(out))
        want = 'callback' if rep['case']['first'] == 'value' else 'error_callback'
        return 0 if [x[0] for x in out['calls']] == [want] and not out['hung'] else 1
    return pc.pool_replay(path)
