"""C06 -- soft time limit raised once, in the right task.  Pool family: theorems over Model/Pool.v (Props/C06.v), tied to
billiard/pool.py by differential correspondence on fake-process histories."""
from vlib import core
from props import poolcommon as pc

MANIFEST = dict(
    text="Theorems: no signal unless due (not after the result was handled, not without an effective limit); the soft step is taken only for an unmarked job and marks it; a marked job gets nothing more until the hard limit; the mark survives later scans while the job is cached; callback gets (soft=True, job's soft limit); signal goes to the owner; hard has priority; job limit precedence. Positive direction: when the soft limit is due and the worker is in the pool the signal IS sent and the callback run with the job's limit; when the worker has left the pool nothing is sent and the job is remembered all the same.",
    note='Trusted: Coq kernel; hand-written model Model/Pool.v validated on every run against the real billiard.pool parent-side code (harness/pool_driver.py: fake processes, fake clock, recorded signals); event-level atomicity; worker side and OS not modelled here (C03 covers the worker loop). Partial: delivery of SIGUSR1 into the right Python frame and the task catching it are runtime behaviour (validated in thorough tier only); the result-arrives-mid-scan interleaving is at scan grain here. Interleavings below the event grain (the timeout scan running inside ApplyResult._ack while its on_timeout_set hook runs, or inside ApplyResult._set while the result callback runs) are not in the model: they are driven on the real code as hook cases and judged by monitors only (exactly one soft signal / none).',
    technique='Coq proof (invariants by induction over all event histories of an executable pool model) + differential correspondence against the real parent-side code',
    ref='5.6',
)

FOCUS = {'scan': 14, 'advance': 12, 'ack': 12, 'apply': 12, 'ready': 8}


def run(res):
    res.proof_step('Props/C06.v', extra_targets=['Model/Pool.vo'], kernels_needed=['G_pool_shape', 'G_pool_pins'])
    n = 150 if res.tier == 'quick' else 6000
    if res.broken:
        n = max(n, 1500)      # failing-input search on the implementation
    pc.pool_check(res, 'C06', n, focus=FOCUS)
    pc.hook_cases(res, 'C06')
    pc.real_scenarios(res, 'C06', [dict(kind='soft_timeout'), dict(kind='soft_timeout', initializer='dfl'), dict(kind='soft_timeout', initializer='ign')] if res.tier == 'quick' else [dict(kind='soft_timeout'), dict(kind='soft_timeout', initializer='dfl'), dict(kind='soft_timeout', initializer='ign')] * 3)
    res.assumptions += pc_assumptions()


def pc_assumptions():
    return [
        'atomicity grain: one event = one message handled, one supervision pass, one full timeout scan, one user call; preemption inside these is not modelled',
        'worker processes, the clock, kill() and waitpid() are harness fakes; task values are abstract tags',
        'threads=False driving of the real handlers (handle_result_event, _maintain_pool, TimeoutHandler.handle_event, TaskHandler.body)',
    ]


def replay(path):
    return pc.pool_replay(path)
