"""C16 -- queues lose nothing, duplicate nothing and respect their capacity.

Tie (a): translate/kernels/semprog.py compiles Queue.put/get, JoinableQueue.put/task_done/join,
SimpleQueue.put/get (and the threading.Condition stand-in of harness/c16_fakes.py) from the working
tree into coq/Gen/P_queue.v; Queue._feed is a hand translation guarded by an exact-text check, the test
`self._thread is None` / the call `self._start_thread()` are compiled where the code has them.
Tie (b): harness/c16_driver.py runs billiard's REAL queue classes, including the feeder thread
Queue._feed, over harness/detsched.py under explicit schedules; the Coq interpreter consumes the
same schedule; micro-traces, results, final semaphores, pipe and buffers must be identical;
Gallina monitors on the implementation's trace classify differences."""
import itertools
import json
import os
import random
import re
import subprocess
import threading
import time
from vlib import core
from vlib.core import cz, cbool, clist

MANIFEST = dict(
    text='Theorems (Coq; any number of main threads, each running any script of put/get/task_done/join calls and each with '
         'the feeder thread Queue._feed its own _start_thread call would start, grouped into processes in ANY way: the main '
         'threads of one process share its queue object (buffer, _notempty, _thread); any capacity; any schedule at '
         'semaphore/pipe/clock/_start_thread-operation grain, timed acquires and polls giving up at any step, the deadline of a '
         'timed get passing at any clock reading; all Closed under the global context), about the programs compiled from '
         'queues.py on every run (Gen = Model by reflexivity; _feed is a hand translation guarded by an exact-text check; the '
         'test `self._thread is None` and the call self._start_thread() are compiled WHERE the working tree has them, '
         '_start_thread itself = one scheduling point QStartThread guarded by a shape check): an inductive invariant holds in '
         'every reachable state: capacity accounting sem + buffered + in pipe + in transit = maxsize (so at most maxsize items '
         'wait and no release of the capacity semaphore raises); reader lock, writer lock and each _notempty lock have one '
         'holder on every path; per process, the messages its puts appended = sent by its feeder ++ held by THE feeder ++ '
         'buffered, in order; per (process, THREAD) the messages a thread\'s puts appended are, in the order of its calls, a '
         'subsequence of that append log (C16_fifo_per_thread); the pipe is FIFO; the send log is an ORDER-PRESERVING merge of '
         'the processes; every message received is returned by exactly one get call or held by a get about to return it, hence '
         'put-to-get exactness; _unfinished_tasks = puts counted - task_dones counted, task_done raises ValueError exactly when '
         'that is 0 and join\'s test reads zero exactly then. SEVERAL PRODUCER THREADS PER PROCESS: the test-and-start is atomic '
         'under _notempty (a thread that has read self._thread is None as true holds the lock, alone, no feeder started, nothing '
         'buffered: C16_start_is_atomic_under_notempty), at most ONE feeder thread is ever started per process '
         '(C16_one_feeder_per_process, C16_running_feeder_is_unique), _start_thread\'s buffer.clear() never drops an item '
         '(C16_start_thread_clears_nothing), and every event trace of the model passes the monitors one_feeder_ok / clear_ok '
         'that are evaluated on the traces of the real classes (C16_every_trace_passes_the_start_monitors); evaluated Example '
         'C16_two_threads_of_one_process. On the choice go a put fails with Full exactly when the semaphore is 0; a non-blocking '
         'get finds nothing exactly when the pipe is empty. Failing serialisation (feeder as repaired by 36337df): FIFO and '
         'no-loss hold for every object that can be serialised, an object that cannot is the only loss and costs no capacity, a '
         'feeder never ends. Correspondence: the real Queue / JoinableQueue / SimpleQueue, including the real feeder Queue._feed '
         'and the real Queue._start_thread, run over the fake _semlock / pipe / threading / collections.deque / clock of '
         'harness/detsched.py + c16_fakes.py under explicit schedules -- one main thread per process AND several main threads '
         'sharing ONE queue object (two threads racing on the first put of a fresh queue, bounded-preemption exhaustive; random) '
         '-- and must produce the micro-trace, results, final semaphores, pipe and buffers the Coq interpreter computes; Gallina '
         'monitors (loss/dup/order per producer thread on the pipe traffic, results vs events, capacity at quiet ends, every '
         'accepted picklable item written in order at a quiet end, more than one feeder thread started for one queue object, a '
         'buffer.clear() that dropped an item, an ended feeder thread, locks held by finished calls, a get stuck beside a '
         'non-empty pipe, join/task_done) classify differences; a bounded-preemption search in Coq over the program table '
         'compiled on this run (also with two threads per process) proposes failing schedules, which are replayed on the real '
         'classes before they are reported.',
    note='Trusted: Coq kernel; translate/kernels/semprog.py; semaphore primitive as in C17; threading.Condition modelled by '
         'harness/c16_fakes.TCond (lock + notification semaphore + waiter count); pipe = list of whole messages (C13 + locks), send '
         'never blocks; pickling modelled only as far as it can fail (messages >= 1000 are objects whose pickling raises); the '
         'deadline of a timed get is an oracle at the point where the code computes deadline - monotonic(); Queue._start_thread '
         'is ONE step (clear the buffer, create, record and start the thread; the harness parks the caller at buffer.clear()), '
         'the threads of a process interleave at the scheduling points only (GIL-atomic statements in between). PARTIAL: the '
         'sleeping path of JoinableQueue.join (wait/notify_all) and SimpleQueue are covered by the correspondence, the monitors '
         'and the search on the generated program only; Full for timed puts is an oracle choice; eventual delivery is liveness, '
         'not modelled; get/task_done/join by several threads of one process are covered by the same theorems (they touch shared '
         'semaphores only). The translator also recognises the feeder as it was before the repair (thread ends on a '
         'serialisation error) so that the check reports that behaviour concretely if it returns.',
    technique='Coq proof over translator-regenerated queue programs (weight functions + ghost logs + case analysis on pc) + schedule-exact differential correspondence on the real classes',
    ref='5.16',
)

HEADER = '''From Coq Require Import ZArith List Bool.
From BV Require Import Lib.Cases Model.SemProg Model.QueueProg Model.QueueCode Model.QueueCheck.
Import ListNotations. Open Scope Z_scope.
Definition check_case := QueueCheck.check_case.'''

SEARCH_HEADER = '''From Coq Require Import ZArith List Bool.
From BV Require Import Lib.Cases Model.SemProg Model.QueueProg Model.QueueCode Model.QueueCheck Model.QueueSearch.
Import ListNotations. Open Scope Z_scope.
'''

KINDS = {'queue': 0, 'joinable': 1, 'simple': 2}
UNPICKLABLE = 1000      # messages >= this are put as objects whose pickling raises
FEEDER_SIG = 'C16:feeder-thread-ends-on-unpicklable-item-later-puts-never-delivered'


# Search on the GENERATED program table (Model/QueueSearch.v: all schedules with at most
# `preemptions` preemptions, every monitor of Model/QueueCheck.v judged at every leaf), `shards`
# coqc processes per configuration.  What it finds is replayed on the real classes.
SEARCH_QUICK = [
    dict(kind='joinable', maxsize=1, preemptions=2, shards=[1],
         scripts=[[[3, 0, 1, 11]], [[1, 0, 1, 0], [4, 0, 0, 0]], [[5, 0, 0, 0]]]),
    dict(kind='joinable', maxsize=2, preemptions=2, shards=[1],
         scripts=[[[3, 0, 1, 11], [5, 0, 0, 0]], [[1, 0, 1, 0], [4, 0, 0, 0]]]),
    dict(kind='joinable', maxsize=2, preemptions=1, shards=[1],
         scripts=[[[3, 0, 1, 11], [3, 0, 1, 12]], [[1, 0, 1, 0], [4, 0, 0, 0], [1, 0, 1, 0], [4, 0, 0, 0]], [[5, 0, 0, 0]]]),
    dict(kind='queue', maxsize=1, preemptions=2, shards=[1],
         scripts=[[[0, 0, 1, 11], [0, 0, 0, 12]], [[1, 0, 1, 0], [1, 0, 0, 0]]]),
    dict(kind='simple', maxsize=1, preemptions=2, shards=[1],
         scripts=[[[6, 0, 0, 11], [6, 0, 0, 12]], [[7, 0, 0, 0]], [[7, 0, 0, 0]]]),
    # timed gets (the scheduler decides at `deadline - monotonic()` whether the deadline has passed)
    dict(kind='queue', maxsize=1, preemptions=1, shards=[1],
         scripts=[[[0, 0, 1, 11]], [[1, 1, 1, 0], [1, 0, 1, 0]]]),
    # TWO PRODUCER THREADS OF ONE PROCESS (owners: pairs 0 and 1 are threads of process 0) racing on the first
    # put of a fresh queue (the test `self._thread is None` / Queue._start_thread), one consumer process
    dict(kind='queue', maxsize=2, preemptions=1, shards=[1], owners=[0, 0, 2],
         scripts=[[[0, 0, 1, 11]], [[0, 0, 1, 12]], [[1, 0, 1, 0], [1, 0, 1, 0]]]),
    dict(kind='joinable', maxsize=2, preemptions=1, shards=[1], owners=[0, 0, 2],
         scripts=[[[3, 0, 1, 11]], [[3, 0, 1, 12]], [[1, 0, 1, 0], [4, 0, 0, 0]]]),
]
# the quick tier when an obligation is broken (the generated program is no longer the hand-kept
# model: failing-input search), and part of the thorough tier
SEARCH_DEEP = [
    dict(kind='joinable', maxsize=1, preemptions=3, shards=[3],
         scripts=[[[3, 0, 1, 11]], [[1, 0, 1, 0], [4, 0, 0, 0]], [[5, 0, 0, 0]]]),
    dict(kind='joinable', maxsize=2, preemptions=3, shards=[2],
         scripts=[[[3, 0, 1, 11], [5, 0, 0, 0]], [[1, 0, 1, 0], [4, 0, 0, 0]]]),
    dict(kind='joinable', maxsize=2, preemptions=2, shards=[3],
         scripts=[[[3, 0, 1, 11], [3, 0, 1, 12]], [[1, 0, 1, 0], [4, 0, 0, 0], [1, 0, 1, 0], [4, 0, 0, 0]], [[5, 0, 0, 0]]]),
    dict(kind='joinable', maxsize=1, preemptions=1, shards=[1],
         scripts=[[[3, 0, 1, 11], [5, 0, 0, 0]], [[3, 0, 1, 12], [5, 0, 0, 0]], [[1, 0, 1, 0], [4, 0, 0, 0], [1, 0, 1, 0], [4, 0, 0, 0]]]),
    dict(kind='queue', maxsize=1, preemptions=3, shards=[1],
         scripts=[[[0, 0, 1, 11], [0, 0, 0, 12]], [[1, 0, 1, 0], [1, 0, 0, 0]]]),
    dict(kind='queue', maxsize=2, preemptions=1, shards=[1],
         scripts=[[[0, 0, 1, 11], [0, 1, 1, 12]], [[0, 0, 1, 13]], [[1, 0, 1, 0], [1, 1, 1, 0], [1, 0, 0, 0]]]),
    dict(kind='simple', maxsize=1, preemptions=3, shards=[1],
         scripts=[[[6, 0, 0, 11], [6, 0, 0, 12]], [[7, 0, 0, 0]], [[7, 0, 0, 0]]]),
    dict(kind='queue', maxsize=1, preemptions=2, shards=[1],
         scripts=[[[0, 0, 1, 11]], [[1, 1, 1, 0], [1, 0, 1, 0]]]),
    dict(kind='queue', maxsize=2, preemptions=1, shards=[1],
         scripts=[[[0, 0, 1, 11], [0, 1, 1, 12]], [[1, 1, 1, 0]], [[1, 1, 1, 0], [1, 1, 1, 0]]]),
    # two producer threads of one process
    dict(kind='queue', maxsize=2, preemptions=2, shards=[2], owners=[0, 0, 2],
         scripts=[[[0, 0, 1, 11]], [[0, 0, 1, 12]], [[1, 0, 1, 0], [1, 0, 1, 0]]]),
    dict(kind='queue', maxsize=3, preemptions=1, shards=[1], owners=[0, 0, 2],
         scripts=[[[0, 0, 1, 11], [0, 0, 1, 13]], [[0, 0, 1, 12]], [[1, 0, 1, 0], [1, 0, 1, 0], [1, 0, 1, 0]]]),
    dict(kind='joinable', maxsize=2, preemptions=2, shards=[2], owners=[0, 0, 2],
         scripts=[[[3, 0, 1, 11]], [[3, 0, 1, 12]], [[1, 0, 1, 0], [4, 0, 0, 0]]]),
    # producer threads and the consumer thread all in ONE process
    dict(kind='queue', maxsize=2, preemptions=1, shards=[1], owners=[0, 0, 0],
         scripts=[[[0, 0, 1, 11]], [[0, 0, 1, 12]], [[1, 0, 1, 0], [1, 0, 1, 0]]]),
]
SEARCH_THOROUGH = [
    dict(kind='joinable', maxsize=1, preemptions=2, shards=[3, 3],
         scripts=[[[3, 0, 1, 11], [5, 0, 0, 0]], [[3, 0, 1, 12], [5, 0, 0, 0]], [[1, 0, 1, 0], [4, 0, 0, 0], [1, 0, 1, 0], [4, 0, 0, 0]]]),
    dict(kind='queue', maxsize=2, preemptions=2, shards=[3, 2],
         scripts=[[[0, 0, 1, 11], [0, 1, 1, 12]], [[0, 0, 1, 13]], [[1, 0, 1, 0], [1, 1, 1, 0], [1, 0, 0, 0]]]),
    # three producer threads of one process, one consumer process
    dict(kind='queue', maxsize=3, preemptions=1, shards=[2], owners=[0, 0, 0, 3],
         scripts=[[[0, 0, 1, 11]], [[0, 0, 1, 12]], [[0, 0, 1, 13]], [[1, 0, 1, 0], [1, 0, 1, 0], [1, 0, 1, 0]]]),
    dict(kind='queue', maxsize=2, preemptions=2, shards=[3], owners=[0, 0, 2],
         scripts=[[[0, 0, 1, 11], [0, 0, 0, 13]], [[0, 0, 1, 12]], [[1, 0, 1, 0], [1, 0, 1, 0]]]),
]
SEARCH_FUEL = 400

ENUM_QUICK = [
    dict(kind='queue', maxsize=1, scripts=[[[0, 0, 1, 11]], [[1, 0, 1, 0]]]),
    dict(kind='simple', maxsize=1, scripts=[[[6, 0, 0, 11], [6, 0, 0, 12]], [[7, 0, 0, 0]], [[7, 0, 0, 0]]]),
    dict(kind='queue', maxsize=1, scripts=[[[0, 0, 0, 11], [0, 0, 0, 12]], [[1, 1, 1, 0]]]),
]
# ALL schedules with at most K preemptions (switches away from a thread that could continue):
# the producer is preempted at every yield point inside put, the feeder / consumer / joiner run
BOUNDED_QUICK = [
    dict(kind='joinable', maxsize=1, preemptions=1,
         scripts=[[[3, 0, 1, 11]], [[1, 0, 1, 0], [4, 0, 0, 0]], [[5, 0, 0, 0]]]),
    dict(kind='joinable', maxsize=2, preemptions=1,
         scripts=[[[3, 0, 1, 11], [5, 0, 0, 0]], [[1, 0, 1, 0], [4, 0, 0, 0]]]),
    dict(kind='joinable', maxsize=2, preemptions=2,
         scripts=[[[3, 0, 1, 11]], [[1, 0, 1, 0], [4, 0, 0, 0]]]),
    dict(kind='queue', maxsize=1, preemptions=1,
         scripts=[[[0, 0, 1, 11], [0, 0, 0, 12]], [[1, 0, 1, 0], [1, 0, 0, 0]]]),
    # a timed get whose deadline passes at any point, followed by a plain get; two timed consumers
    dict(kind='queue', maxsize=1, preemptions=1,
         scripts=[[[0, 0, 1, 11]], [[1, 1, 1, 0], [1, 0, 1, 0]]]),
    dict(kind='queue', maxsize=1, preemptions=1, max_leaves=200,
         scripts=[[[0, 0, 1, 11]], [[1, 1, 1, 0]], [[1, 1, 1, 0]]]),
    # an object that cannot be pickled, then a good one; a consumer waits
    dict(kind='queue', maxsize=2, preemptions=1,
         scripts=[[[0, 0, 1, 1000], [0, 0, 1, 12]], [[1, 0, 1, 0]]]),
    dict(kind='joinable', maxsize=2, preemptions=0,
         scripts=[[[3, 0, 1, 11], [3, 0, 1, 1000], [3, 0, 0, 13]], [[1, 0, 1, 0], [4, 0, 0, 0]]]),
    # two producer threads of ONE process (pairs 0 and 1 share the queue object of process 0), each doing the
    # first put on a fresh queue; one consumer process
    dict(kind='queue', maxsize=2, preemptions=1, owners=[0, 0, 2],
         scripts=[[[0, 0, 1, 11]], [[0, 0, 1, 12]], [[1, 0, 1, 0], [1, 0, 1, 0]]]),
    dict(kind='joinable', maxsize=2, preemptions=1, owners=[0, 0, 2], max_leaves=250,
         scripts=[[[3, 0, 1, 11]], [[3, 0, 1, 12]], [[1, 0, 1, 0], [4, 0, 0, 0]]]),
    # two threads of one process, two puts each, non-preemptive interleavings at blocking points only
    dict(kind='queue', maxsize=1, preemptions=0, owners=[0, 0, 2],
         scripts=[[[0, 0, 1, 11], [0, 0, 1, 13]], [[0, 0, 1, 12], [0, 0, 0, 14]], [[1, 0, 1, 0], [1, 0, 1, 0], [1, 1, 1, 0]]]),
]
BOUNDED_THOROUGH = [
    dict(kind='joinable', maxsize=1, preemptions=2,
         scripts=[[[3, 0, 1, 11]], [[1, 0, 1, 0], [4, 0, 0, 0]], [[5, 0, 0, 0]]]),
    dict(kind='joinable', maxsize=2, preemptions=2,
         scripts=[[[3, 0, 1, 11], [3, 0, 1, 12]], [[1, 0, 1, 0], [4, 0, 0, 0], [1, 0, 1, 0], [4, 0, 0, 0]], [[5, 0, 0, 0]]]),
    dict(kind='queue', maxsize=2, preemptions=2, owners=[0, 0, 2],
         scripts=[[[0, 0, 1, 11]], [[0, 0, 1, 12]], [[1, 0, 1, 0], [1, 0, 1, 0]]]),
    dict(kind='queue', maxsize=3, preemptions=1, owners=[0, 0, 0, 3],
         scripts=[[[0, 0, 1, 11]], [[0, 0, 1, 12]], [[0, 0, 1, 13]], [[1, 0, 1, 0], [1, 0, 1, 0], [1, 0, 1, 0]]]),
    dict(kind='queue', maxsize=2, preemptions=1, owners=[0, 0, 0],
         scripts=[[[0, 0, 1, 11], [0, 0, 1, 13]], [[0, 0, 1, 12]], [[1, 0, 1, 0], [1, 0, 1, 0], [1, 0, 1, 0]]]),
]
ENUM_THOROUGH = [
    dict(kind='joinable', maxsize=1, scripts=[[[3, 0, 1, 11]], [[1, 0, 1, 0], [4, 0, 0, 0]]]),
    dict(kind='queue', maxsize=1, scripts=[[[0, 0, 1, 11], [0, 1, 1, 12]], [[1, 0, 1, 0], [1, 0, 0, 0]]]),
    dict(kind='joinable', maxsize=2, scripts=[[[3, 0, 1, 11], [5, 0, 0, 0]], [[1, 0, 1, 0], [4, 0, 0, 0]]]),
]


def gen_jobs(rng, n):
    jobs = []
    per = 3
    for _ in range((n + per - 1) // per):
        kind = rng.choice(['queue', 'queue', 'queue', 'joinable', 'joinable', 'simple'])
        nprocs = rng.choice([2, 2, 3, 3, 4])
        maxsize = rng.choice([1, 1, 2, 2, 3])
        scripts = []
        msg = 10
        # one job in five offers objects that cannot be pickled (Model/QueueProg.UNPICKLABLE)
        poison = kind != 'simple' and rng.random() < 0.2
        for p in range(nprocs):
            sc = []
            for _c in range(rng.randint(1, 4)):
                r = rng.random()
                blk = rng.choice([1, 1, 1, 0])
                to = rng.choice([0, 0, 1]) if blk else 0
                if kind == 'simple':
                    if r < 0.5:
                        msg += 1
                        sc.append([6, 0, 0, msg])
                    else:
                        sc.append([7, 0, 0, 0])
                elif kind == 'queue':
                    if r < 0.5:
                        msg += 1
                        sc.append([0, to, blk, msg + (UNPICKLABLE if poison and rng.random() < 0.3 else 0)])
                    else:
                        sc.append([1, to, blk, 0])
                else:
                    if r < 0.35:
                        msg += 1
                        sc.append([3, to, blk, msg + (UNPICKLABLE if poison and rng.random() < 0.3 else 0)])
                    elif r < 0.65:
                        sc.append([1, to, blk, 0])
                    elif r < 0.85:
                        sc.append([4, 0, 0, 0])
                    else:
                        sc.append([5, 0, 0, 0])
            scripts.append(sc)
        job = dict(kind=kind, maxsize=maxsize, scripts=scripts, mode='random',
                   seed=rng.randrange(1 << 30), n=per, ptimeout=rng.choice([0.1, 0.25, 0.5]))
        # one job in three has several main threads per process (pairs sharing one queue object)
        if rng.random() < 0.34:
            owners = [0]
            for p in range(1, nprocs):
                owners.append(rng.choice(owners) if rng.random() < 0.6 else p)
            job['owners'] = owners
        jobs.append(job)
    return jobs


def ccall(c):
    return '(%d%%nat, %s, %s, %s)' % (c[0], cz(c[1]), cz(c[2]), cz(c[3]))


def cevent(e):
    return '(%d%%nat, %d%%nat, %s, %s)' % (e[0], e[1], cz(e[2]), cz(e[3]))


def to_coq(r):
    endk = {'finished': 0, 'deadlock': 1}.get(r['end'], 2)
    return ('(%d, %s, (%s : list (list qcall)), (%s : list nat), (%s : list (nat * bool)), ((%s : list event), (%s : list nat), '
            '(%s : list (list Z)), (%s : list bool), (%s : list Z), (%s : list Z), (%s : list (list Z)), (%s : list Z), %d))') % (
        KINDS[r['kind']], cz(r['maxsize']),
        clist(r['scripts'], lambda sc: clist(sc, ccall)), cowners(r),
        clist(r['sched'], lambda s: '(%d%%nat, %s)' % (s[0], cbool(s[1]))),
        clist(r['events'], cevent), clist(r['callidx'], lambda k: '%d%%nat' % k),
        clist(r['results'], lambda rs: clist(rs, cz)), clist(r['fins'], cbool),
        clist(r['vals'], cz), clist(r['pipe'], cz), clist(r['bufs'], lambda b: clist(b, cz)),
        clist(r['pend'], cz), endk)


def owners_of(r):
    """process of each pair (main thread 2q + feeder slot 2q+1); default: one main thread per process"""
    return list(r.get('owners') or range(len(r['scripts'])))


def cowners(r):
    return clist(owners_of(r), lambda p: '%d%%nat' % p)


def rec_key(r):
    return json.dumps([r['kind'], r['maxsize'], r['scripts'], owners_of(r), r['sched']])


def nontrivial(r):
    """at least one message went through the pipe and two logical threads stepped"""
    return any(e[1] == 100 and e[2] == 4 for e in r['events']) and len({e[0] for e in r['events']}) >= 2


def search_generated(res, deep):
    """bounded-preemption search for a schedule of the program table compiled from core.REPO on this
    run on which a C16 monitor fails (Model/QueueSearch.v, vm_compute, one coqc per shard).  The
    table is inlined into the case files (coq/Gen may be regenerated by a concurrent check of
    another tree).  Returns replay jobs for the driver: the candidates are only reported after the
    real classes, run under the same schedule, fail the monitor too."""
    from kernels import semprog
    try:
        module = semprog.queue_module_text(core.REPO, 'GenQ')
    except Exception as exc:          # the translator failed closed (recorded by proof_step)
        res.notes.append('search on the generated program skipped: %s: %s' % (type(exc).__name__, str(exc)[:200]))
        res.add_cov(c16_search=dict(skipped='no generated program'))
        return []
    configs = SEARCH_QUICK if not deep else SEARCH_DEEP + (SEARCH_THOROUGH if res.tier != 'quick' else [])
    cdir = os.path.join(core.COQ, 'Cases')
    os.makedirs(cdir, exist_ok=True)
    shards = []
    for ci, cfg in enumerate(configs):
        ms = cfg['shards']
        for j, sel in enumerate(itertools.product(*[range(m) for m in ms])):
            shards.append(dict(ci=ci, j=j, text=(
                'Eval vm_compute in (qsearch_job GenQ.code GenQ.FEED GenQ.queue_sems %d %s (%s : list (list qcall)) '
                '(%s : list nat) %d %d [%s]%%nat).\n' % (KINDS[cfg['kind']], cz(cfg['maxsize']),
                                         clist(cfg['scripts'], lambda sc: clist(sc, ccall)), cowners(cfg),
                                         cfg['preemptions'], SEARCH_FUEL,
                                         '; '.join('(%d, %d)' % (a, m) for a, m in zip(sel, ms))))))
    # one coqc per shard when the search is deep; the small quick configurations share one
    units = [[sh] for sh in shards] if deep else [shards]
    files = []
    for k, unit in enumerate(units):
        fn = os.path.join(cdir, 'C16s%d_%d.v' % (os.getpid(), k))
        with open(fn, 'w') as fh:
            fh.write(SEARCH_HEADER + module + ''.join(sh['text'] for sh in unit))
        files.append(dict(fn=fn, unit=unit))
    t0 = time.time()
    pending, running, done = list(files), [], []
    try:
        while pending or running:
            while pending and len(running) < 8:
                f = pending.pop(0)
                out = open(f['fn'][:-2] + '.out', 'w')
                f['p'] = subprocess.Popen(['coqc', '-Q', '.', 'BV', '-w', '-notation-overridden',
                                           os.path.relpath(f['fn'], core.COQ)], cwd=core.COQ, stdout=out,
                                          stderr=subprocess.STDOUT, text=True, preexec_fn=core._limit_memory)
                out.close()
                running.append(f)
            for f in list(running):
                if f['p'].poll() is not None:
                    running.remove(f)
                    done.append(f)
            if time.time() - t0 > 900:
                for f in running:
                    f['p'].kill()
                raise RuntimeError('search on the generated program timed out')
            if running:
                time.sleep(0.05)
        per = []
        found = []
        for f in done:
            text = open(f['fn'][:-2] + '.out').read()
            ms_ = re.findall(r'=\s*\(\s*(\d+)\s*,\s*(\d+)\s*,\s*\[([^\]]*)\]\s*\)', text)
            if f['p'].returncode != 0 or len(ms_) != len(f['unit']):
                raise RuntimeError('search shard failed: %s' % text[-1500:])
            for sh, m in zip(f['unit'], ms_):
                sh['leaves'], sh['found'] = int(m[0]), int(m[1])
                sh['sched'] = [[int(x) // 2, bool(int(x) % 2)] for x in m[2].replace('%Z', '').split(';') if x.strip()]
        for ci, cfg in enumerate(configs):
            mine = sorted([sh for sh in shards if sh['ci'] == ci], key=lambda sh: sh['j'])
            hit = [sh for sh in mine if sh['found']]
            per.append(dict(kind=cfg['kind'], maxsize=cfg['maxsize'], scripts=cfg['scripts'], owners=owners_of(cfg),
                            preemptions=cfg['preemptions'], leaves=sum(sh['leaves'] for sh in mine),
                            failing_schedule_found=bool(hit)))
            for sh in hit[:2]:
                found.append(dict(kind=cfg['kind'], maxsize=cfg['maxsize'], scripts=cfg['scripts'],
                                  owners=owners_of(cfg), sched=sh['sched'],
                                  mode='replay', origin='search'))
    finally:
        for f in files:
            for ext in ('.v', '.vo', '.vok', '.vos', '.glob', '.out'):
                try:
                    os.remove(f['fn'][:-2] + ext)
                except OSError:
                    pass
            try:
                os.remove(os.path.join(cdir, '.' + os.path.basename(f['fn'])[:-2] + '.aux'))
            except OSError:
                pass
    res.add_cov(c16_search=dict(
        what='schedules of the GENERATED program table explored in Coq (all with at most K preemptions), every '
             'C16 monitor judged at every leaf; candidates are replayed on the real classes',
        configurations=per, leaves=sum(c['leaves'] for c in per), candidates=len(found),
        deep=bool(deep), wall_s=round(time.time() - t0, 1)))
    return found


def classify(res, records, codes):
    bad = {i for i, _ in codes}
    for i, r in enumerate(records):
        if r.get('origin') == 'search' and not (i in bad and dict(codes)[i] == 2):
            # the generated program fails a monitor on this schedule, the real classes do not
            res.broken.append(dict(kind='search', name='schedule fails a C16 monitor on the generated program but not on '
                                                       'the real classes (end %s)' % r['end'],
                                   detail=json.dumps(dict(kind=r['kind'], maxsize=r['maxsize'], scripts=r['scripts'],
                                                          owners=owners_of(r), sched=r['sched'], requested=r.get('requested')))[:3000]))
    for i, code in codes:
        r = records[i]
        replay = dict(kind=r['kind'], maxsize=r['maxsize'], scripts=r['scripts'], owners=owners_of(r), sched=r['sched'], impl=dict(
            events=r['events'], results=r['results'], fins=r['fins'], vals=r['vals'], pipe=r['pipe'],
            bufs=r['bufs'], pend=r['pend'], end=r['end']))
        if code == 3:
            dead = [t // 2 for t in range(1, len(r['fins']), 2) if r['fins'][t]]
            stranded = {str(p): r['bufs'][p] for p in dead if r['bufs'][p]}
            mains_done = all(r['fins'][t] for t in range(0, len(r['fins']), 2))
            res.alarms.append(dict(
                signature=FEEDER_SIG,
                what='real %s: the feeder thread Queue._feed of process(es) %s ENDED although its queue is in use (the defect '
                     'repaired by 36337df is back: an exception in the feeder, e.g. ForkingPickler.dumps raising for an unpicklable '
                     'item, leaves its `while 1`); items accepted by later puts stay in the dead feeder\'s buffer for ever: %s; '
                     'capacity semaphore %d of maxsize %d with %d item(s) in the pipe%s; scripts %s, schedule %s, results %s, end %s'
                     % (r['kind'], dead, json.dumps(stranded) if stranded else 'none in this run', r['vals'][0], r['maxsize'],
                        len(r['pipe']), ' (every main thread has finished: the missing tokens are lost)' if mains_done else '',
                        json.dumps(r['scripts']), json.dumps(r['sched']), json.dumps(r['results']), r['end']),
                replay=replay))
        elif code == 2:
            res.alarms.append(dict(
                signature='C16:monitor-or-result',
                what='real %s violates a C16 monitor (loss/duplication/order/capacity/Full/Empty/join/lock left held/get '
                     'stuck beside a non-empty pipe) or returns a '
                     'different result on the same history; more than one feeder thread started for one queue object, or '
                     'Queue._start_thread clearing a non-empty buffer), under schedule %s of scripts %s%s: results %s, pipe %s, '
                     'end %s, blocked on %s%s'
                     % (r['kind'], json.dumps(r['sched']), json.dumps(r['scripts']),
                        '' if owners_of(r) == list(range(len(r['scripts'])))
                        else ' (main threads 2q of processes %s: threads of one process share its queue object; feeder threads '
                             'started: %s, items dropped by _start_thread\'s buffer.clear(): %d)'
                             % (json.dumps(owners_of(r)), json.dumps([e[0] + 1 for e in r['events'] if e[1] == 102]),
                                sum(e[3] for e in r['events'] if e[1] == 102)),
                        json.dumps(r['results']),
                        json.dumps(r['pipe']), r['end'], json.dumps(r['pend']),
                        ' (schedule found by the search on the generated program, replayed on the real classes)'
                        if r.get('origin') == 'search' else ''),
                replay=replay))
        else:
            res.broken.append(dict(kind='correspondence', name='QueueProg interpreter vs real queue classes (micro-trace)',
                                   detail=json.dumps(replay)[:3000]))


def correspond(res, n, deep):
    rng = random.Random(res.seed * 7919 + 16)
    corpus = json.load(open(core.VERIF + '/corpus/C16.json'))
    jobs = [dict(c, mode='replay') for c in corpus]
    jobs += [dict(j, mode='enumerate', max_leaves=300) for j in ENUM_QUICK]
    jobs += [{**dict(mode='bounded', max_leaves=1500), **j} for j in BOUNDED_QUICK]
    if res.tier != 'quick':
        jobs += [dict(j, mode='enumerate', max_leaves=6000) for j in ENUM_THOROUGH]
        jobs += [dict(j, mode='bounded', max_leaves=8000) for j in BOUNDED_THOROUGH]
    jobs += gen_jobs(rng, n)
    # the model follows the code: while the driver explores schedules of the real classes, Coq looks
    # for a failing schedule of the program table compiled on this run (deeper when an obligation is
    # broken); its candidates are then replayed on the real classes, and only what fails THERE is
    # reported as a concrete failing input
    box = {}

    def searcher():
        try:
            box['found'] = search_generated(res, deep)
        except BaseException as exc:
            box['error'] = exc
    th = threading.Thread(target=searcher)
    th.start()
    try:
        out = core.run_driver('c16_driver.py', dict(jobs=jobs), timeout=3000)
    finally:
        th.join()
    if 'error' in box:
        raise box['error']
    records = out['records']
    if box['found']:
        out2 = core.run_driver('c16_driver.py', dict(jobs=box['found']), timeout=600)
        for r in out2['records']:
            r['origin'] = 'search'
            r['requested'] = box['found'][r['job']]['sched']
        records = out2['records'] + records
    terms = [to_coq(r) for r in records]
    codes, _ = core.coq_eval('C16', HEADER, core.chunks(terms, 200), timeout=600 if res.tier == 'quick' else 2400)
    classify(res, records, codes)
    # report first a witness in which Queue._start_thread's buffer.clear() dropped an accepted item, if there is one
    res.alarms.sort(key=lambda a: -sum(e[3] for e in a['replay']['impl']['events'] if e[1] == 102 and e[2] == 7))
    keys = {rec_key(r) for r in records if nontrivial(r)}
    ends, kinds, hist = {}, {}, {}
    for r in records:
        ends[r['end']] = ends.get(r['end'], 0) + 1
        kinds[r['kind']] = kinds.get(r['kind'], 0) + 1
        for sc in r['scripts']:
            for c in sc:
                hist[str(c[0])] = hist.get(str(c[0]), 0) + 1
    res.add_cov(evaluations=len(records), distinct=len(keys), traces=len(records),
                samples=[dict(kind=records[0]['kind'], scripts=records[0]['scripts'], sched=records[0]['sched'],
                              results=records[0]['results']),
                         dict(kind=records[-1]['kind'], scripts=records[-1]['scripts'], sched=records[-1]['sched'],
                              results=records[-1]['results'])],
                rule='schedules of 2-4 main threads (each with the feeder thread Queue._feed its _start_thread would start; '
                     'one main thread per process, or several main threads sharing the queue object of one process) running scripts of 1-4 '
                     'put/get/task_done/join calls on the real Queue / JoinableQueue / SimpleQueue (exhaustive DFS for the '
                     'listed small configurations, ALL schedules with at most K preemptions for the preemption-bounded ones, seeded random otherwise; corpus first); non-trivial = a message was '
                     'received from the pipe and two logical threads stepped; distinct by (kind, maxsize, scripts, process of each thread, schedule); '
                     'schedules found by the Coq search on the generated program table (c16_search) are replayed first',
                c16_run_ends=ends, c16_kinds=kinds, c16_call_histogram=hist,
                c16_steps_total=sum(len(r['sched']) for r in records),
                c16_messages_received=sum(1 for r in records for e in r['events'] if e[1] == 100 and e[2] == 4),
                c16_full_raised=sum(1 for r in records for rs in r['results'] for v in rs if v == -4),
                c16_empty_raised=sum(1 for r in records for rs in r['results'] for v in rs if v == -5),
                c16_deadline_passed=sum(1 for r in records for e in r['events'] if e[1] == 101 and e[3] == 1),
                c16_deadline_not_passed=sum(1 for r in records for e in r['events'] if e[1] == 101 and e[3] == 0),
                c16_unpicklable_offered=sum(1 for r in records for sc in r['scripts'] for c in sc
                                            if c[0] in (0, 3) and c[3] >= UNPICKLABLE),
                c16_runs_with_ended_feeder=sum(1 for r in records if any(r['fins'][1::2])),
                c16_runs_with_several_threads_in_a_process=sum(1 for r in records if len(set(owners_of(r))) < len(r['scripts'])),
                c16_feeder_threads_started=sum(1 for r in records for e in r['events'] if e[1] == 102),
                c16_enumerations_truncated=out['truncated'])


def run(res):
    build = res.proof_step('Props/C16.v', extra_targets=['Model/QueueCheck.vo', 'Model/QueueSearch.vo'],
                           kernels_needed=['P_queue'])
    if not build['ok']:
        # a broken proof stops make: the executable checkers are still needed
        core.coq_make(['Model/QueueCheck.vo', 'Model/QueueSearch.vo'])
    n = 240 if res.tier == 'quick' else 15000
    if res.broken:
        n = max(n, 2400)
    correspond(res, n, deep=bool(res.broken) or res.tier != 'quick')
    res.assumptions += [
        'semaphore primitive as in C17 (Model/SemProg.v); threading.Condition modelled by harness/c16_fakes.TCond',
        'the pipe is a list of whole messages (C13 + reader/writer locks); send never blocks; pickling not modelled (messages are integers)',
        'timed acquire / poll may give up at any step; the deadline of a timed get passes or not at the clock reading '
        '`deadline - monotonic()` as the scheduler chooses (deadline is an oracle)',
        'ForkingPickler.dumps raises exactly for the messages >= 1000 (objects whose __reduce_ex__ raises) and is the identity otherwise',
        'any number of main threads per process (they interleave at semaphore / pipe / clock / _start_thread operations); '
        'Queue._start_thread is one step; the queue is never closed; no process dies',
    ]


def replay(path):
    d = json.load(open(path))
    rp = d['replay']
    job = dict(kind=rp['kind'], maxsize=rp['maxsize'], scripts=rp['scripts'], sched=rp['sched'], mode='replay')
    if rp.get('owners'):
        job['owners'] = rp['owners']
    out = core.run_driver('c16_driver.py', dict(jobs=[job]))
    r = out['records'][0]
    print('kind=%s maxsize=%s scripts: %s process of each (main thread, feeder slot) pair: %s'
          % (r['kind'], r['maxsize'], json.dumps(r['scripts']), json.dumps(owners_of(r))))
    print('schedule:', json.dumps(rp['sched']))
    print('implementation now: events', json.dumps(r['events']))
    print('  results', json.dumps(r['results']), 'vals', r['vals'], 'pipe', r['pipe'], 'bufs', r['bufs'], 'end', r['end'])
    codes, _ = core.coq_eval('C16r', HEADER, [[to_coq(r)]])
    print('model agrees, monitors pass' if not codes else
          ('property monitor fails / results differ (code 2)' if codes[0][1] == 2 else
           'a feeder thread ended: later puts of its process are never delivered (code 3)'
           if codes[0][1] == 3 else 'micro-trace differs (code 1)'))
    return 1 if codes else 0
