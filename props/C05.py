"""C05 -- hard time limit: job fails on time, worker gone, pool usable.  Pool family: theorems over Model/Pool.v (Props/C05.v), tied to
billiard/pool.py by differential correspondence on fake-process histories."""
from vlib import core
from props import poolcommon as pc
from props import C03 as worker

MANIFEST = dict(
    text='Theorems: a cached accepted unresolved Apply job past its effective hard limit when a scan starts is failed by that scan with TimeLimitExceeded(own limit) whatever else is cached; never early; map/imap and unaccepted jobs untouched and the scan does not raise; TERM/KILL go to the owner only; job limit takes precedence; the next supervision pass restores the pool size (also size 1). Refuted with a witness (known finding): a per-job limit on a pool created without limits is enforced by nobody.',
    note='Trusted: Coq kernel; hand-written model Model/Pool.v validated on every run against the real billiard.pool parent-side code (harness/pool_driver.py: fake processes, fake clock, recorded signals); event-level atomicity; worker side and OS not modelled here (C03 covers the worker loop). Partial: that the signalled process really stops (kernel) and the worker-side reaction to TERM are validated by real-pool scenarios in the thorough tier, not proved; D14 (per-job limit on a pool without a scanner) is a known finding.',
    technique='Coq proof (invariants by induction over all event histories of an executable pool model) + differential correspondence against the real parent-side code',
    ref='5.5',
)

FOCUS = {'scan': 12, 'advance': 12, 'ack': 12, 'apply': 12, 'tick': 8, 'ready': 8}


def run(res):
    res.proof_step('Props/C05.v', extra_targets=['Model/Pool.vo', 'Model/Worker.vo'], kernels_needed=['G_pool_shape', 'K_timedout', 'K_worker', 'G_pool_pins'])
    n = 150 if res.tier == 'quick' else 6000
    if res.broken:
        n = max(n, 1500)      # failing-input search on the implementation
    pc.pool_check(res, 'C05', n, focus=FOCUS)
    pc.real_scenarios(res, 'C05', [dict(kind='hard_timeout', n=1, hard=1), dict(kind='hard_timeout', n=2, hard=1), dict(kind='hard_timeout', n=1, hard=1, task='convert'), dict(kind='hard_timeout', n=1, hard=1, task='finally_raises')] if res.tier == 'quick' else [dict(kind='hard_timeout', n=n, hard=h, task=t) for n in (1, 2, 4) for h in (1, 2) for t in ('sleep', 'convert', 'finally_raises')])
    # worker side ("the worker honours the termination signal instead of treating it as a task
    # error"): the real Worker.workloop against the worker model the C05 worker theorems are about;
    # termination requests inside tasks, and tasks that raise after the request, are part of the
    # generated scripts
    before = len(res.alarms)
    worker.correspond(res, 120 if res.tier == 'quick' else 4000)
    c03_known = {k['signature'] for k in core.load_known() if k.get('status') == 'known' and k.get('property') == 'C03'}
    kept = [a for a in res.alarms[before:] if a['signature'] not in c03_known]
    del res.alarms[before:]
    res.alarms.extend(kept)
    for a in res.alarms[before:]:
        a['signature'] = a['signature'].replace('C03:', 'C05:worker-')
    res.assumptions += pc_assumptions()


def pc_assumptions():
    return [
        'atomicity grain: one event = one message handled, one supervision pass, one full timeout scan, one user call; preemption inside these is not modelled',
        'worker processes, the clock, kill() and waitpid() are harness fakes; task values are abstract tags',
        'threads=False driving of the real handlers (handle_result_event, _maintain_pool, TimeoutHandler.handle_event, TaskHandler.body)',
    ]


def replay(path):
    return pc.pool_replay(path)
