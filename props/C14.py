"""C14 -- the shared-memory heap never hands out overlapping or misplaced memory.

Tie to the code: K_heap (Heap._roundup) and G_heap (size normalisation, split point/test,
arena length, doubling, alignment constant, bisect flavour) are regenerated from heap.py on
every run and proved equal to the model's arithmetic; the real Heap (private instance, Arena
replaced by a size-only stub) is run on malloc/free/deferred-free histories -- including frees issued
by the same thread from inside a running malloc/free at any line under the lock, the way a finaliser
run by the garbage collector does -- and every returned block, the arena list and the four free-list indexes are compared with the executable model
inside Coq; independently the property itself (alignment, size, in-arena, disjointness,
exact partition, coalescing, no needless arena) is judged on the implementation trace by
`monitor` below, which knows nothing about the model."""
import json
import mmap
import random
from vlib import core
from vlib.core import cz, cnat, cbool, clist

MANIFEST = dict(
    text='Theorems (Coq, all op sequences of malloc/free/deferred free/free issued from inside a malloc or free '
         'by the same thread (garbage collection), with valid frees, unbounded): '
         'Heap._roundup, the size normalisation, split test, arena length and doubling as translated from heap.py '
         'on every run equal the model; no modelled operation raises; every live block is 8-aligned, at least '
         'max(n,1) long, inside its arena and disjoint from every other live block; free and live blocks exactly '
         'partition every arena; the four free-list indexes describe the same set of free blocks; no two free blocks '
         'are adjacent; a new arena is mapped only when every free block is too short, and otherwise the block taken '
         'is a best fit; a deferred free acts exactly like an immediate free at the next malloc/free; the lock created '
         'by Heap.__init__ is not re-entrant and free() try-locks it (read from heap.py on every run), hence a free '
         'issued from inside malloc/free by the same thread, at any point, is exactly a deferred free (and with a '
         're-entrant lock coalescing would fail: refutation by computation). THREADS: a small-step interleaving model '
         '(any number of threads, blocking lock in malloc, try-lock in free, one drain iteration per step, appends to the '
         'pending list at any moment) whose cut into locked/unlocked statements is read from heap.py on every run; every '
         'interleaved run ends in the state of the sequential model on a computed op list and hands out the same blocks '
         '(refinement, no hypothesis), with valid frees no step raises and the invariant holds after every step, the '
         'block handed out is well placed and disjoint from all live blocks at that moment, mutual exclusion, no deadlock. '
         'FORK: the first malloc in a forked child uses nothing inherited (one thread); with two threads in the child the '
         'unlocked re-initialisation races (refuted by a computed witness, reproduced on the real code: known-finding '
         'candidate C14:fork-reinit-race). Correspondence of '
         'the real Heap (stub arenas; real mmap arenas with byte patterns in the thorough tier) with the model on '
         'random and adversarial histories, plus an independent monitor of the property on the implementation traces.',
    note='Trusted: Coq kernel, translate/pykernel.py + translate/kernels/heap.py, Lib/PyVal.v; stdlib bisect (modelled as '
         'first index with element >= x on a sorted list; sortedness is part of the proved invariant), dict/set/list as '
         'association lists; mmap and the page size being a power of two >= 8; the heap lock makes malloc/free atomic '
         '(a free that finds the lock taken is the FreeDeferred op; that the thread holding it finds it taken too is '
         'the extracted fact lock_reentrant = false plus threading.Lock semantics); GIL-atomic list.append/pop for the pending list; '
         'real threads are driven line by line by harness/heap_conc.py (sys.settrace + a proxy around the lock heap.py '
         'creates): preemption between two bytecodes of one line is not exercised.',
    technique='Coq invariant proof over the faithful index-level model + translator-regenerated arithmetic kernels + '
              'differential correspondence + independent trace monitor',
    ref='5.14',
)

HEADER = '''From Coq Require Import ZArith List Bool.
From BV Require Import Lib.Cases Model.Heap.
Import ListNotations. Open Scope Z_scope.
Definition check_case := Heap.check_case.'''


# --------------------------------------------------------------------- case generation
def size_choices(rng, pg):
    base = [0, 1, 7, 8, 9, 15, 16, 17, 24, 31, 32, 40, 64, pg - 8, pg - 1, pg, pg + 1,
            2 * pg, 2 * pg + 8, 3 * pg]
    r = rng.random()
    if r < 0.55:
        return rng.choice(base)
    if r < 0.85:
        return rng.randint(0, max(8, pg // 4))
    return rng.randint(0, 3 * pg)


def gen_history(rng, pg, nops, style):
    """ops with valid frees; style: random | lifo | fifo | checker | exact"""
    ops = []
    live = []          # malloc numbers that are live and not pending
    nm = 0
    if style == 'checker':
        # fill with equal blocks, free every other one, then the rest (coalescing), then reuse
        unit = rng.choice([8, 16, 24, 64])
        cnt = max(4, min(nops // 3, 40))
        for _ in range(cnt):
            ops.append(['m', unit]); live.append(nm); nm += 1
        order = live[0::2] + (live[1::2] if rng.random() < 0.5 else list(reversed(live[1::2])))
        for k in order:
            ops.append([rng.choice(['f', 'f', 'd']), k])
        live = []
        for _ in range(cnt // 2):
            ops.append(['m', rng.choice([unit, 2 * unit, 3 * unit, unit - 1, 1])]); live.append(nm); nm += 1
        return ops
    if style == 'exact':
        # carve blocks, free some, ask for exactly the freed sizes (exact fit / best fit)
        sizes = [rng.choice([8, 16, 24, 32, 40, 48]) for _ in range(max(4, min(nops // 3, 30)))]
        for s in sizes:
            ops.append(['m', s]); live.append(nm); nm += 1
        freed = []
        for k in list(live):
            if rng.random() < 0.5:
                ops.append(['f', k]); live.remove(k); freed.append(sizes[k])
        rng.shuffle(freed)
        for s in freed:
            ops.append(['m', rng.choice([s, s, s - 7, s + 8])]); live.append(nm); nm += 1
        return ops
    pfree = rng.choice([0.25, 0.4, 0.5, 0.6])
    for _ in range(nops):
        r = rng.random()
        if live and r < pfree:
            if style == 'lifo':
                k = live.pop()
            elif style == 'fifo':
                k = live.pop(0)
            else:
                k = live.pop(rng.randrange(len(live)))
            ops.append([rng.choice(['f', 'f', 'f', 'd', 'd']), k])
        elif live and r < pfree + 0.08:
            k = live.pop(rng.randrange(len(live)))
            ops.append(['g', size_choices(rng, pg), k]); live.append(nm); nm += 1
        else:
            ops.append(['m', size_choices(rng, pg)]); live.append(nm); nm += 1
    return ops


def gen_cases(rng, n, long_cases=2, long_ops=400):
    cases = []
    styles = ['random', 'random', 'random', 'lifo', 'fifo', 'checker', 'exact']
    for j in range(n):
        pg = rng.choice([4096, 4096, 64, 32, 8])
        size = rng.choice([pg, pg, 1, 100, 2 * pg, 3 * pg + 5])
        nops = rng.choice([3, 8, 15, 25, 40, 60, 80])
        ops = gen_history(rng, pg, nops, rng.choice(styles))
        r = rng.random()
        if r < 0.03 and any(o[0] == 'f' for o in ops):
            # an invalid (double) free: the code raises KeyError, so must the model
            k = next(o[1] for o in ops if o[0] == 'f')
            ops.append([rng.choice(['f', 'd']), k]); ops.append(['m', 8])
        elif r < 0.04:
            ops.append(['m', -1])
        cases.append(dict(pg=pg, size=size, ops=ops))
    for j in range(long_cases):
        pg = rng.choice([4096, 64])
        cases.append(dict(pg=pg, size=pg, ops=gen_history(rng, pg, long_ops, 'random')))
    return cases + boundary_cases()


def boundary_cases():
    """systematically enumerated small cases: every request size around the alignment and the
    page boundary, followed by free / deferred free and an exact-fit, a smaller and a larger request"""
    out = []
    for pg in (8, 32, 4096):
        for n in (0, 1, 7, 8, 9, pg - 8, pg - 7, pg, pg + 1, 2 * pg):
            for f in ('f', 'd'):
                out.append(dict(pg=pg, size=pg, ops=[['m', n], ['m', 8], [f, 0], ['m', n], ['m', max(n - 8, 0)],
                                                     [f, 1], ['m', n + 8], ['m', 1]]))
    # split remainder exactly 8; neighbour merge left, right, both
    out.append(dict(pg=64, size=64, ops=[['m', 56], ['m', 8], ['f', 0], ['f', 1], ['m', 64]]))
    out.append(dict(pg=64, size=64, ops=[['m', 16], ['m', 16], ['m', 16], ['f', 0], ['f', 2], ['f', 1], ['m', 64]]))
    out.append(dict(pg=64, size=64, ops=[['m', 16], ['m', 16], ['m', 16], ['m', 16], ['d', 1], ['d', 2], ['m', 32], ['f', 0], ['f', 3]]))
    out.append(dict(pg=64, size=64, ops=[['m', 16], ['m', 16], ['g', 16, 0], ['g', 16, 1], ['m', 32], ['m', 8]]))
    # two free blocks of the same length: the last one freed is taken first
    out.append(dict(pg=64, size=64, ops=[['m', 8], ['m', 8], ['m', 8], ['m', 8], ['m', 8], ['f', 1], ['f', 3], ['m', 8], ['m', 8], ['m', 8]]))
    # best fit among several lengths, exact fit must not open a new arena
    out.append(dict(pg=64, size=64, ops=[['m', 24], ['m', 8], ['m', 16], ['m', 16], ['f', 0], ['f', 2], ['m', 16], ['m', 24], ['m', 1]]))
    return out


def gen_nested_history(rng, pg, nops):
    """random history in which many frees are issued by the same thread from inside a running malloc/free
    (['M', n, t, k] / ['F', j, t, k], t = -1: before the pending list is drained, t >= 0: at the t-th line after);
    small sizes, so that the block freed from inside is often a neighbour of the blocks being merged or split"""
    ops = []
    live = []
    nm = 0
    pfree = rng.choice([0.3, 0.45, 0.55])
    unit = rng.choice([8, 8, 16, 24])

    def size():
        r = rng.random()
        if r < 0.6:
            return unit * rng.choice([1, 1, 1, 2, 3])
        if r < 0.8:
            return rng.choice([0, 1, 7, 9, 40, 64])
        return size_choices(rng, pg)
    for _ in range(nops):
        r = rng.random()
        pre = rng.random() < 0.08
        if len(live) >= 2 and r < pfree * 0.55:
            j = live.pop(rng.randrange(len(live)))
            # the block freed from inside is most often a neighbour (in allocation order) of the outer one
            near = [x for x in live if abs(x - j) <= 2]
            k = rng.choice(near) if near and rng.random() < 0.7 else rng.choice(live)
            live.remove(k)
            ops.append(['F', j, -1 if pre else rng.randint(0, 31), k])
        elif live and r < pfree:
            k = live.pop(rng.randrange(len(live)))
            ops.append([rng.choice(['f', 'f', 'd']), k])
        elif live and r < pfree + 0.22:
            k = live.pop(rng.randrange(len(live)))
            ops.append(['M', size(), -1 if pre else rng.randint(0, 45), k]); live.append(nm); nm += 1
        else:
            ops.append(['m', size()]); live.append(nm); nm += 1
    return ops


def nested_boundary_cases():
    """systematic: four blocks Y P X G filling the start of an arena, P freed; then a free / malloc during
    which the same thread frees a neighbour at EVERY line under the lock (and before the drain), followed
    by a request that fits exactly if and only if the freed space was merged"""
    out = []
    for pg, u in ((64, 16), (4096, 768)):
        four = [['m', u], ['m', u], ['m', u], ['m', u], ['f', 1]]
        for t in range(-1, 33):
            # free(X) absorbs P; Y (left of P) / G (right of X) freed from inside
            out.append(dict(pg=pg, size=pg, ops=four + [['F', 2, t, 0], ['m', 3 * u], ['m', 8]]))
            out.append(dict(pg=pg, size=pg, ops=four + [['F', 2, t, 3], ['m', 3 * u], ['m', 8]]))
            # free(Y) absorbs P on the right; X freed from inside
            out.append(dict(pg=pg, size=pg, ops=four + [['F', 0, t, 2], ['m', 3 * u], ['m', 8]]))
        for t in range(-1, 47):
            # malloc(8) splits P; X (right of P) / Y (left of P) freed from inside; then the rest must be one extent
            out.append(dict(pg=pg, size=pg, ops=four + [['M', 8, t, 2], ['m', 2 * u - 8], ['m', 8]]))
            out.append(dict(pg=pg, size=pg, ops=four + [['M', 8, t, 0], ['f', 4], ['m', 2 * u], ['m', 8]]))
            # exact fit (no split) and a new arena, with a free from inside
            out.append(dict(pg=pg, size=pg, ops=four + [['M', u, t, 2], ['m', u], ['m', 8]]))
            out.append(dict(pg=pg, size=pg, ops=four + [['M', 2 * pg, t, 0], ['m', 2 * u], ['m', 8]]))
    return out


def gen_nested_cases(rng, n):
    cases = []
    for _ in range(n):
        pg = rng.choice([4096, 64, 64, 32, 8])
        size = rng.choice([pg, pg, 1, 2 * pg])
        nops = rng.choice([6, 12, 20, 30, 45, 60])
        cases.append(dict(pg=pg, size=size, ops=gen_nested_history(rng, pg, nops)))
    return cases + nested_boundary_cases()


# --------------------------------------------------------------------- rendering
def cblock(b):
    return '(%s, %s, %s)' % (cz(b[0]), cz(b[1]), cz(b[2]))


def ckey(k):
    return '(%s, %s)' % (cz(k[0]), cz(k[1]))


def cop(o):
    if o[0] == 'm':
        return '(CMalloc %s)' % cz(o[1])
    if o[0] == 'f':
        return '(CFree %s)' % cnat(o[1])
    if o[0] == 'd':
        return '(CFreeDeferred %s)' % cnat(o[1])
    if o[0] == 'M':
        return '(CMallocRe %s %s %s)' % (cz(o[1]), cbool(o[2] < 0), cnat(o[3]))
    if o[0] == 'F':
        return '(CFreeRe %s %s %s)' % (cnat(o[1]), cbool(o[2] < 0), cnat(o[3]))
    return '(CMallocGC %s %s)' % (cz(o[1]), cnat(o[2]))


def effective_ops(c, out):
    """the ops as they were really performed: a nested free whose point was never reached
    (aux.fired = 0) did not happen, the op is then a plain malloc / free"""
    aux = out.get('aux') or []
    ops = []
    for j, o in enumerate(c['ops']):
        if o[0] in ('M', 'F') and j < len(aux) and not aux[j]['fired']:
            o = ['m', o[1]] if o[0] == 'M' else ['f', o[1]]
        ops.append(o)
    return ops


def to_coq(c, out):
    c = dict(c, ops=effective_ops(c, out))
    obs = clist(out['obs'], lambda o: '(%s, %s, %s, %s)' % (cbool(o[0]), cblock(o[1]), cz(o[2]), cz(o[3])))
    s = out['snap']
    snap = '(mk_snap %s %s %s %s %s %s %s %s)' % (
        clist(s['lengths']),
        clist(s['l2s'], lambda e: '(%s, %s)' % (cz(e[0]), clist(e[1], cblock))),
        clist(s['s2b'], lambda e: '(%s, %s)' % (ckey(e[0]), cblock(e[1]))),
        clist(s['e2b'], lambda e: '(%s, %s)' % (ckey(e[0]), cblock(e[1]))),
        clist(s['alloc'], cblock), clist(s['arenas']), cz(s['nsize']), clist(s['pending'], cblock))
    return '((%s, %s, %s, %s, %s) : Heap.case)' % (cz(c['pg']), cz(c['size']), clist(c['ops'], cop), obs, snap)


# --------------------------------------------------------------------- the property, on the implementation trace
def gaps(arenas, blocks):
    """maximal extents of the arenas not covered by `blocks` -> sorted list of (arena, start, stop);
    None if blocks overlap or leave their arena"""
    per = {}
    for b in blocks:
        per.setdefault(b[0], []).append(b)
    out = []
    for a, size in enumerate(arenas):
        pos = 0
        for b in sorted(per.get(a, [])):
            if b[1] < pos or b[2] > size or b[1] >= b[2]:
                return None
            if b[1] > pos:
                out.append((a, pos, b[1]))
            pos = b[2]
        if pos < size:
            out.append((a, pos, size))
    if any(a >= len(arenas) or a < 0 for a in per):
        return None
    return out


def monitor(c, out):
    """returns None or (signature, text).  Judges the implementation trace only.

    live  : blocks handed out whose free() has not been called;
    limbo : blocks whose free() was called while the lock was held -- by another thread ('d') or by the calling
            thread itself, from inside malloc/free ('g', 'M', 'F': a finaliser run by the garbage collector) --
            and that wait in the pending list: freed for their owner, but they still occupy their place.
    The next malloc/free must apply them: from then on the monitor counts their space as free.  Whether the free
    issued from inside an op was queued or applied on the spot is read from the implementation's pending list
    after that op (aux); the property allows both, it allows neither to break the partition, the coalescing,
    the indexes or the arena economy."""
    arenas_final = out['snap']['arenas']
    aux = out.get('aux')
    ops = effective_ops(c, out)
    live = {}           # malloc number -> block
    limbo = {}          # malloc number -> block
    invalid = False     # a block was freed that was not live: nothing can be judged after that
    na = 0
    nm = 0
    for j, (op, ob) in enumerate(zip(ops, out['obs'])):
        err = ob[0]
        ax = aux[j] if aux and j < len(aux) else None
        kind = op[0]
        if kind == 'd':
            if err:
                return ('C14:valid-op-raised', 'deferred free raised %s at op %d' % (ob[4], j))
            if op[1] in live:
                limbo[op[1]] = live.pop(op[1])
            else:
                invalid = True
            continue
        victim = op[2] if kind == 'g' else op[3] if kind in ('M', 'F') else None
        victim_ok = victim is None or (victim in live and not (kind == 'F' and victim == op[1]))
        if err:
            if invalid or not victim_ok:
                return None     # an invalid op raised: nothing more to judge
            if kind in ('f', 'F') and op[1] in live:
                return ('C14:valid-op-raised', 'free of a live block raised %s at op %d%s'
                        % (ob[4], j, nested_text(kind, victim, ax)))
            if kind in ('m', 'g', 'M') and 0 <= op[1] < 2 ** 63 - 1:
                return ('C14:valid-op-raised', 'malloc(%d) raised %s at op %d%s'
                        % (op[1], ob[4], j, nested_text(kind, victim, ax)))
            return None
        if invalid:
            return None         # invalid history went unnoticed by the code: outside the property
        # malloc and free first apply the pending frees
        limbo = {}
        if kind in ('f', 'F'):
            if op[1] not in live:
                return None
            del live[op[1]]
        else:
            n = op[1]
            b = ob[1]
            na_after = ob[2]
            before = gaps(arenas_final[:na], list(live.values()))
            if before is None:
                return ('C14:overlap', 'live blocks overlap or leave their arena before op %d' % j)
            if na_after not in (na, na + 1):
                return ('C14:arena-count', 'arena count went from %d to %d at op %d' % (na, na_after, j))
            if b[1] % 8 or b[2] % 8:
                return ('C14:misaligned', 'malloc(%d) returned %s at op %d' % (n, b, j))
            if b[2] - b[1] < max(n, 1):
                return ('C14:too-small', 'malloc(%d) returned %s at op %d' % (n, b, j))
            if not (0 <= b[0] < na_after and 0 <= b[1] < b[2] <= arenas_final[b[0]]):
                return ('C14:outside-arena', 'malloc(%d) returned %s, arenas %s at op %d' % (n, b, arenas_final[:na_after], j))
            for k, x in live.items():
                if k == victim:
                    continue    # its owner freed it during this very malloc (whether it is still queued is judged below)
                if x[0] == b[0] and x[1] < b[2] and b[1] < x[2]:
                    return ('C14:overlap', 'malloc(%d) returned %s overlapping live block %s (malloc #%d) at op %d' % (n, b, x, k, j))
            if na_after > na and any(g[2] - g[1] >= max(n, 1) for g in before):
                return ('C14:needless-arena', 'malloc(%d) mapped a new arena although a free extent %s exists, at op %d%s'
                        % (n, max(before, key=lambda g: g[2] - g[1]), j, nested_text(kind, victim, ax)))
            na = na_after
            live[nm] = b
            nm += 1
        if victim is not None:
            if not victim_ok or victim not in live:
                return None
            if ax and ax.get('nested_err'):
                return ('C14:valid-op-raised', 'free of live block #%d issued from inside op %d (%s) raised %s'
                        % (victim, j, kind, ax['nested_err']))
            vb = live.pop(victim)
            if ax is None or list(vb) in [list(x) for x in ax['pending']]:
                limbo[victim] = vb      # queued: applied by the next malloc/free
        # exact partition + coalescing: the number of free blocks is the number of maximal gaps
        g = gaps(arenas_final[:na], list(live.values()) + list(limbo.values()))
        if g is None:
            return ('C14:overlap', 'live blocks overlap or leave their arena after op %d%s' % (j, nested_text(kind, victim, ax)))
        if len(g) != ob[3]:
            return ('C14:free-list-not-the-gaps', 'after op %d there are %d free blocks but %d maximal free extents%s'
                    % (j, ob[3], len(g), nested_text(kind, victim, ax)))
        if ax is not None and sorted(map(tuple, ax['pending'])) != sorted(map(tuple, limbo.values())):
            return ('C14:pending-list-wrong', 'after op %d the pending list is %s, the frees not yet applied are %s'
                    % (j, ax['pending'], sorted(limbo.values())))
    if out['obs'] and out['obs'][-1][0]:
        return None
    if len(out['obs']) != len(c['ops']):
        return ('C14:valid-op-raised', 'driver stopped early')
    if invalid:
        return None
    return final_check(out['snap'], sorted(list(live.values()) + list(limbo.values())), out.get('damage'))


def final_check(s, held, damage=None):
    """final state: the free lists are exactly the maximal gaps, and the four indexes agree"""
    g = gaps(s['arenas'], s['alloc'])
    if g is None or sorted(map(tuple, s['alloc'])) != sorted(map(tuple, held)):
        return ('C14:live-set-wrong', '_allocated_blocks %s, handed out and not freed %s' % (s['alloc'], held))
    free = sorted(tuple(b) for _, seq in s['l2s'] for b in seq)
    if free != sorted(g):
        return ('C14:free-list-not-the-gaps', 'free blocks %s, maximal free extents %s' % (free, sorted(g)))
    if sorted((tuple(k), tuple(b)) for k, b in s['s2b']) != sorted(((b[0], b[1]), b) for b in free) or \
       sorted((tuple(k), tuple(b)) for k, b in s['e2b']) != sorted(((b[0], b[2]), b) for b in free) or \
       s['lengths'] != sorted({b[2] - b[1] for b in free}) or \
       any(b[2] - b[1] != ln for ln, seq in s['l2s'] for b in seq) or any(not seq for _, seq in s['l2s']):
        return ('C14:indexes-disagree', 'the four free-list indexes do not describe the same blocks: %s' % json.dumps(s))
    if damage:
        return ('C14:byte-damage', 'bytes of live block changed: (op, malloc#) %s' % damage[:5])
    return None


# --------------------------------------------------------------------- real threads under a forced schedule
KINDS = dict(want='KWant', acq='KAcq', pop='KPop', drained='KDrained', body='KBody', rel='KRel',
             try_ok='KTryOk', try_fail='KTryFail', append='KAppend')

HEADER_CONC = '''From Coq Require Import ZArith List Bool.
From BV Require Import Lib.Cases Model.Heap Model.HeapConc.
Import ListNotations. Open Scope Z_scope.
Definition check_case := HeapConc.check_conc_case.'''

HEADER_FORK = '''From Coq Require Import ZArith List Bool.
From BV Require Import Lib.Cases Model.Heap Model.HeapConc.
Import ListNotations. Open Scope Z_scope.
Definition check_case := HeapConc.check_fork_case.'''

# P B C D E fill the start of the arena, C is freed: an isolated hole between live B and D
LAYOUTS = [
    dict(pg=4096, ops=[['m', 32], ['m', 8], ['m', 64], ['m', 8], ['m', 128], ['f', 2]], big=128, hole=64),
    dict(pg=64, ops=[['m', 8], ['m', 8], ['m', 16], ['m', 8], ['m', 8], ['f', 2]], big=24, hole=16),
]


def conc_boundary_cases(kmax=50):
    """three threads; thread 0 is interrupted after k pieces (k enumerated: before the lock, at every line
    under the lock, after the release), then thread 1 runs as far as it can, then thread 2, then the rest:
      A  T0 malloc(big: does not fit the hole)  T1 free(P) (queued when T0 holds the lock)   T2 malloc(8)
      B  T0 free(D) (merges with the hole)      T1 free(P)                                   T2 malloc(hole)
      C  T0 malloc(8) (splits the hole)         T1 free(B) (neighbour of the hole)           T2 malloc(16)
      D  T0 malloc, malloc                      T1 free(P), free(D)                          T2 malloc(big)
      E  T0 free(B)                             T1 free(D) (both neighbours of the hole)     T2 free(P)"""
    out = []
    for L in LAYOUTS:
        base = dict(pg=L['pg'], size=L['pg'], ops=L['ops'])
        fams = [
            [[['m', L['big']]], [['f', 0]], [['m', 8]]],
            [[['f', 3]], [['f', 0]], [['m', L['hole']]]],
            [[['m', 8]], [['f', 1]], [['m', 16]]],
            [[['m', 8], ['m', L['hole']]], [['f', 0], ['f', 3]], [['m', L['big']]]],
            [[['f', 1]], [['f', 3]], [['f', 0]]],
        ]
        for progs in fams:
            for k in range(0, kmax, 1 if L['pg'] == 4096 else 2):
                out.append(dict(base, conc=dict(progs=progs, sched=[[0, k], [1, 99], [2, 99], [0, 99]])))
                if k % 4 == 1:     # the third thread first
                    out.append(dict(base, conc=dict(progs=progs, sched=[[0, k], [2, 99], [1, 99], [0, 99]])))
        # F: the pending list already holds P and D (frees that found the lock taken): thread 0's malloc drains
        #    them; frees of B and E arrive BETWEEN two iterations of the drain loop / inside the _free of a drained block
        pre = dict(base, ops=L['ops'] + [['d', 0], ['d', 3]])
        for k in range(0, kmax + 34, 1 if L['pg'] == 4096 else 3):
            out.append(dict(pre, conc=dict(progs=[[['m', 8]], [['f', 1]], [['f', 4]]],
                                           sched=[[0, k], [1, 99], [2, 99], [0, 99]])))
    return out


def gen_conc_random(rng, n):
    out = []
    for _ in range(n):
        pg = rng.choice([4096, 64, 64])
        nm = rng.randint(3, 9)
        ops = [['m', rng.choice([8, 8, 16, 24, 1, 9, 40])] for _ in range(nm)]
        ks = list(range(nm))
        rng.shuffle(ks)
        nf = rng.randint(0, nm // 2)
        for k in ks[:nf]:
            ops.append([rng.choice(['f', 'f', 'd']), k])
        rest = ks[nf:]
        nt = rng.choice([2, 3, 3, 4])
        progs = []
        for t in range(nt):
            pr = []
            for _ in range(rng.randint(1, 3)):
                if rest and rng.random() < 0.5:
                    pr.append(['f', rest.pop()])
                else:
                    pr.append(['m', rng.choice([8, 8, 16, 24, 1, 9, 40, 64, pg])])
            progs.append(pr)
        sched = [[rng.randrange(nt), rng.choice([1, 1, 2, 3, 5, 8, 13, 21])] for _ in range(rng.randint(4, 40))]
        out.append(dict(pg=pg, size=rng.choice([pg, pg, 1]), ops=ops, conc=dict(progs=progs, sched=sched)))
    return out


def prefix_live(c, got):
    live = {}
    nm = 0
    for o in c['ops']:
        if o[0] == 'm':
            live[nm] = got[nm]
            nm += 1
        else:
            live.pop(o[1], None)
    queued = [got[o[1]] for o in c['ops'] if o[0] == 'd']
    return live, queued


def block_alarm(n, b, arenas, where):
    if b[0] < 0 or b[0] >= len(arenas):
        return ('C14:outside-arena', 'malloc(%d) returned %s, a block of an arena the heap does not list (arenas %s) %s'
                % (n, b, arenas, where))
    if b[1] % 8 or b[2] % 8:
        return ('C14:misaligned', 'malloc(%d) returned %s %s' % (n, b, where))
    if b[2] - b[1] < max(n, 1):
        return ('C14:too-small', 'malloc(%d) returned %s %s' % (n, b, where))
    if not (0 <= b[1] < b[2] <= arenas[b[0]]):
        return ('C14:outside-arena', 'malloc(%d) returned %s, arenas %s %s' % (n, b, arenas, where))
    return None


def reinit_cases(quick=True):
    """a heap object inherited through fork() (os.getpid() != _lastpid) used by TWO threads of the child: thread 0
    is interrupted after k pieces of its first malloc (before / inside / after the unlocked self.__init__()), then
    thread 1 allocates.  stale_pid: _lastpid is made stale in this process; fork: a real forked child."""
    base = dict(pg=4096, size=4096, ops=[['m', 16], ['m', 16], ['f', 0]])
    out = []
    for k in range(0, 18):
        out.append(dict(base, conc=dict(progs=[[['m', 24]], [['m', 8]]], sched=[[0, k], [1, 99], [0, 99]], stale_pid=True)))
    for k in ((5, 9) if quick else range(0, 18)):
        out.append(dict(base, conc=dict(progs=[[['m', 24]], [['m', 8]]], sched=[[0, k], [1, 99], [0, 99]], fork=True)))
    return out


def reinit_monitor(c, out):
    """after the re-initialisation nothing of the parent may be used: every block comes from an arena the child's
    heap lists, no call raises, and the heap records exactly the blocks handed out in the child"""
    sig = 'C14:fork-reinit-race'
    how = ('in a forked child' if c['conc'].get('fork') else 'on a heap whose _lastpid is stale (as in a forked child)')
    pre = ('two threads %s, thread 0 interrupted after %d pieces of its first malloc (the pid test and '
           'self.__init__() run outside the lock; __init__ sets _lastpid first): ' % (how, c['conc']['sched'][0][1]))
    if out.get('stuck') or out.get('child_died'):
        return (sig, pre + 'a thread never returned')
    for t, k, i, op, x in out['trace']:
        if k == 'exc':
            import re
            return (sig, pre + 'malloc(%d) in thread %d raised %s' % (
                op[1], t, re.sub(r'<[^>]* object at 0x[0-9a-f]+>', '<arena>', x)))
    for t, k, i, op, x in out['trace']:
        if k == 'ret' and op[0] == 'm' and x[0] < 0:
            return (sig, pre + 'malloc(%d) in thread %d was served from the tables inherited from the parent and '
                               'returned bytes [%d, %d) of the PARENT\'s arena (shared memory, free in the parent: it '
                               'will be handed out there again); the child\'s heap lists arenas %s and records %s as live; '
                               'all results %s' % (op[1], t, x[1], x[2], (out.get('snap') or {}).get('arenas'),
                                                   (out.get('snap') or {}).get('alloc'), out['results']))
    if out['snap'] is None:
        return (sig, pre + 'the heap holds blocks of arenas it does not list: %s' % out.get('live_raw'))
    m = conc_monitor(dict(c, ops=[]), dict(out, got=[]))
    if m:
        return (sig, pre + m[1])
    return None


def conc_monitor(c, out):
    """the property on the trace of the real threads alone: no valid call raises or hangs; every block returned is
    aligned, large enough, inside a listed arena and disjoint from every block that is live at that moment
    (returned earlier, free() not yet called); the final state is an exact partition with coalesced free blocks,
    consistent indexes, and _allocated_blocks = live blocks + blocks still queued"""
    if out.get('setup_failed'):
        return None
    if out.get('stuck'):
        return ('C14:valid-op-raised', 'threads under a forced schedule: Stuck -- every unfinished thread waits for '
                                       'the heap lock (or a call did not return within 5 s); events %s' % out.get('events'))
    for t, k, i, op, x in out['trace']:
        if k == 'exc':
            return ('C14:valid-op-raised', 'thread %d: %s of a %s raised %s' % (
                t, 'malloc(%d)' % op[1] if op[0] == 'm' else 'free(block #%d)' % op[1],
                'valid size' if op[0] == 'm' else 'live block', x))
    s = out['snap']
    if s is None:
        return ('C14:outside-arena', 'the heap holds blocks of arenas it does not list: %s' % out.get('live_raw'))
    live, queued0 = prefix_live(c, out['got'])
    live = {('p', k): b for k, b in live.items()}
    called = [tuple(b) for b in queued0]
    for t, k, i, op, x in out['trace']:
        if k == 'call' and op[0] == 'f':
            b = live.pop(('p', op[1]), None)
            if b is not None:
                called.append(tuple(b))
        elif k == 'ret' and op[0] == 'm':
            where = '(thread %d)' % t
            al = block_alarm(op[1], x, s['arenas'], where)
            if al:
                return al
            for key, y in live.items():
                if y[0] == x[0] and y[1] < x[2] and x[1] < y[2]:
                    return ('C14:overlap', 'malloc(%d) in thread %d returned %s overlapping live block %s (%s)'
                            % (op[1], t, x, y, 'malloc #%d of the prefix' % key[1] if key[0] == 'p'
                               else 'returned to thread %d' % key[1]))
            live[('t', t, i)] = x
    pend = [tuple(b) for b in s['pending']]
    if len(set(pend)) != len(pend) or any(b not in called for b in pend):
        return ('C14:pending-list-wrong', 'pending list %s, blocks whose free() was called %s' % (pend, called))
    return final_check(s, sorted([list(b) for b in live.values()] + [list(b) for b in pend]))


def conc_to_coq(c, out):
    s = out['snap']
    snap = '(mk_snap %s %s %s %s %s %s %s %s)' % (
        clist(s['lengths']),
        clist(s['l2s'], lambda e: '(%s, %s)' % (cz(e[0]), clist(e[1], cblock))),
        clist(s['s2b'], lambda e: '(%s, %s)' % (ckey(e[0]), cblock(e[1]))),
        clist(s['e2b'], lambda e: '(%s, %s)' % (ckey(e[0]), cblock(e[1]))),
        clist(s['alloc'], cblock), clist(s['arenas']), cz(s['nsize']), clist(s['pending'], cblock))
    return snap


def creq(o):
    return '(QMalloc %s)' % cz(o[1]) if o[0] == 'm' else '(QFree %s)' % cnat(o[1])


def conc_term(c, out):
    return '((%s, %s, %s, %s, %s, %s, %s) : HeapConc.conc_case)' % (
        cz(c['pg']), cz(c['size']), clist(c['ops'], cop),
        clist(c['conc']['progs'], lambda pr: clist(pr, creq)),
        clist(out['events'], lambda e: '(%s, %s)' % (cnat(e[0]), KINDS[e[1]])),
        clist(out['log'], lambda e: '(%s, %s)' % (cnat(e[0]), cblock(e[1]))),
        conc_to_coq(c, out))


def judge_conc(res, cases, outs, tag='conc'):
    terms, idx = [], []
    alarmed = 0
    for i, (c, o) in enumerate(zip(cases, outs)):
        reinit = c['conc'].get('stale_pid') or c['conc'].get('fork')
        m = reinit_monitor(c, o) if reinit else conc_monitor(c, o)
        if reinit and not m:
            continue        # (the interleaving model has no re-initialisation: judged by the monitor only)
        if m:
            alarmed += 1
            res.alarms.append(dict(signature=m[0], what='%s; case %s' % (m[1], json.dumps(c)[:700]),
                                   replay=dict(case=c, impl={k: v for k, v in o.items() if k != 'live_raw'})))
        elif o.get('snap') and not o.get('setup_failed'):
            terms.append(conc_term(c, o))
            idx.append(i)
    if terms:
        codes, _ = core.coq_eval('C14' + tag, HEADER_CONC, core.chunks(terms, 150))
        for j, code in codes:
            i = idx[j]
            res.broken.append(dict(kind='correspondence', name='HeapConc model vs real threads on billiard.heap.Heap',
                                   detail=json.dumps(dict(case=cases[i], events=outs[i]['events'], log=outs[i]['log'],
                                                          snap=outs[i]['snap']))[:4000]))
    return alarmed


def correspond_conc(res, n_random, search=0, kmax=50):
    rng = random.Random(res.seed * 4409 + 1415 + 104729 * search)
    cases = (conc_boundary_cases(kmax) + reinit_cases(res.tier == 'quick') if not search else []) \
        + gen_conc_random(rng, n_random)
    outs = core.run_driver('heap_driver.py', cases)
    judge_conc(res, cases, outs, 'conc%d' % search)
    kinds = {}
    blocked = 0
    deferred = 0
    drained_by_other = 0
    mid_drain = 0
    for o in outs:
        ev = o.get('events') or []
        draining = None
        for t, k in ev:
            if k in ('acq', 'try_ok'):
                draining = t
            elif k == 'drained' and t == draining:
                draining = None
            elif k == 'append' and draining is not None and t != draining:
                mid_drain += 1
        for t, k in ev:
            kinds[k] = kinds.get(k, 0) + 1
        deferred += sum(1 for t, k in ev if k == 'try_fail')
        # a thread asked for the lock while another one held it
        held = None
        for t, k in ev:
            if k in ('acq', 'try_ok'):
                held = t
            elif k == 'rel':
                held = None
            elif k == 'want' and held is not None and held != t:
                blocked += 1
        drained_by_other += sum(1 for t, k in ev if k == 'pop')
    nontrivial = {json.dumps(c, sort_keys=True) for c, o in zip(cases, outs)
                  if len({t for t, k in (o.get('events') or [])}) >= 2}
    res.add_cov(evaluations=len(cases), distinct=len(nontrivial), traces=len(cases),
                rule='real threads on one heap under forced schedules (every heap.py line and every wait for the lock is '
                     'a scheduling point): 5 three-thread scenarios x 2 layouts with thread 0 interrupted after every '
                     'k-th piece, plus random programs/schedules; non-trivial = at least two threads performed events',
                thread_cases=len(cases), thread_event_histogram=kinds, thread_waits_for_held_lock=blocked,
                thread_frees_that_found_the_lock_taken=deferred, thread_pending_blocks_drained=drained_by_other,
                thread_appends_during_a_drain_loop=mid_drain)
    return cases, outs


# --------------------------------------------------------------------- a forked child
def fork_cases(rng, n):
    out = []
    fixed = [
        (dict(pg=64, size=64, ops=[['m', 16], ['m', 16]]), [['m', 8], ['m', 100], ['f', 0], ['m', 8], ['p', 0]]),
        (dict(pg=64, size=64, ops=[['m', 16], ['m', 16]]), [['p', 0]]),
        (dict(pg=64, size=64, ops=[['m', 16], ['m', 16], ['d', 0]]), [['m', 16], ['m', 16], ['p', 1]]),
        (dict(pg=4096, size=4096, ops=[['m', 5000], ['m', 8], ['f', 0]]), [['m', 0], ['f', 0], ['m', 4096]]),
        (dict(pg=4096, size=1, ops=[]), [['m', 1]]),
    ]
    for base, child in fixed:
        out.append(dict(base, fork=child))
    for _ in range(n):
        pg = rng.choice([4096, 64, 32])
        ops, plive, nm = [], [], 0
        for _ in range(rng.choice([0, 3, 8, 15])):
            if plive and rng.random() < 0.4:
                ops.append([rng.choice(['f', 'f', 'd']), plive.pop(rng.randrange(len(plive)))])
            else:
                ops.append(['m', size_choices(rng, pg)]); plive.append(nm); nm += 1
        child, live, cm = [], [], 0
        for _ in range(rng.randint(1, 10)):
            r = rng.random()
            if live and r < 0.35:
                child.append(['f', live.pop(rng.randrange(len(live)))])
            elif nm and r < 0.42:
                child.append(['p', rng.randrange(nm)])
            else:
                child.append(['m', size_choices(rng, pg)]); live.append(cm); cm += 1
        out.append(dict(pg=pg, size=rng.choice([pg, 1, 2 * pg]), ops=ops, fork=child))
    return out


def chop(o):
    if o[0] == 'm':
        return '(HMalloc %s)' % cz(o[1])
    return ('(HFreeOwn %s)' if o[0] == 'f' else '(HFreeInherited %s)') % cnat(o[1])


def fork_monitor(c, out):
    """a forked child that allocates must get memory of its own: no arena of the parent in its heap, its blocks
    well placed in its own arenas; a block of the parent cannot be freed there; the parent's heap is untouched"""
    ch = out['child']
    if ch.get('died') or ch.get('snap') is None:
        return ('C14:valid-op-raised', 'forked child died or holds blocks of unknown arenas: %s' % json.dumps(ch)[:300])
    did_malloc = False
    for o, ob in zip(c['fork'], ch['obs']):
        if o[0] == 'p' and not ob[0]:
            return ('C14:child-freed-parent-block', 'free() of a block of the parent succeeded in the forked child '
                                                    '(op %s): the block now sits in the child\'s free lists' % o)
        if o[0] == 'm' and not ob[0]:
            did_malloc = True
            if ob[1][0] < 0:
                return ('C14:child-uses-parent-arena', 'malloc(%d) in the forked child returned a block of an arena '
                                                       'inherited from the parent: %s' % (o[1], ob[1]))
    if did_malloc and ch.get('arenas_shared_with_parent'):
        return ('C14:child-uses-parent-arena', 'after malloc in the forked child its heap still lists %d arena(s) of '
                                               'the parent' % ch['arenas_shared_with_parent'])
    if did_malloc:
        # the child's own history, judged like any other
        ops = [['f', 10 ** 6] if o[0] == 'p' else o for o in c['fork']]
        m = monitor(dict(c, ops=ops), dict(obs=ch['obs'], snap=ch['snap']))
        if m:
            return (m[0], 'in the forked child: ' + m[1])
    return None


def fork_term(c, out):
    ch = out['child']
    obs = clist(ch['obs'], lambda o: '(%s, %s, %s, %s)' % (cbool(o[0]), cblock(o[1]), cz(o[2]), cz(o[3])))
    return '((%s, %s, %s, %s, %s, %s, %s, %s) : HeapConc.fork_case)' % (
        cz(c['pg']), cz(c['size']), cz(out['dsize']), clist(c['ops'], cop), clist(c['fork'], chop), obs,
        conc_to_coq(c, ch), conc_to_coq(c, out))


def correspond_fork(res, n):
    rng = random.Random(res.seed * 2207 + 1416)
    cases = fork_cases(rng, n)
    outs = core.run_driver('heap_driver.py', cases)
    terms, idx = [], []
    for i, (c, o) in enumerate(zip(cases, outs)):
        m = fork_monitor(c, o)
        if m:
            res.alarms.append(dict(signature=m[0], what='%s; case %s' % (m[1], json.dumps(c)[:600]),
                                   replay=dict(case=c, impl=o)))
        else:
            terms.append(fork_term(c, o))
            idx.append(i)
    if terms:
        codes, _ = core.coq_eval('C14fork', HEADER_FORK, core.chunks(terms, 150))
        for j, code in codes:
            i = idx[j]
            res.broken.append(dict(kind='correspondence', name='fork model vs billiard.heap.Heap in a forked child',
                                   detail=json.dumps(dict(case=cases[i], impl=outs[i]))[:4000]))
    res.add_cov(evaluations=len(cases), traces=len(cases), fork_cases=len(cases),
                distinct=len({json.dumps(c, sort_keys=True) for c, o in zip(cases, outs)
                              if any(not ob[0] for ob in o['child']['obs'])}),
                fork_child_mallocs=sum(1 for c, o in zip(cases, outs) for op, ob in zip(c['fork'], o['child']['obs'])
                                       if op[0] == 'm' and not ob[0]),
                fork_child_refused_frees=sum(1 for c, o in zip(cases, outs) for op, ob in zip(c['fork'], o['child']['obs'])
                                             if op[0] != 'm' and ob[0]),
                rule='real os.fork(): the child uses the inherited heap object (malloc re-initialises it; free of an '
                     'inherited block must raise), child and parent states compared with the model')


def nested_text(kind, victim, ax):
    if victim is None:
        return ''
    return ' (free of block #%d issued by the same thread from inside this %s%s)' % (
        victim, 'free' if kind == 'F' else 'malloc',
        '' if not ax else ', it was %s' % ('queued' if ax['pending'] else 'not queued'))


# --------------------------------------------------------------------- shrinking a failing history
def drop_op(ops, i):
    """ops without op i; malloc numbers are renumbered, ops that referred to a removed malloc go too
    (a nested free of a removed block goes, its outer op stays)"""
    gone = set()
    out = []
    nm = 0
    ren = {}
    for j, o in enumerate(ops):
        is_m = o[0] in ('m', 'g', 'M')
        if j == i:
            if is_m:
                gone.add(nm)
                nm += 1
            continue
        if o[0] in ('f', 'd'):
            if o[1] in gone:
                continue
            out.append([o[0], ren[o[1]]])
        elif o[0] == 'g':
            if o[2] in gone:
                out.append(['m', o[1]])
            else:
                out.append(['g', o[1], ren[o[2]]])
        elif o[0] == 'M':
            if o[3] in gone:
                out.append(['m', o[1]])
            else:
                out.append(['M', o[1], o[2], ren[o[3]]])
        elif o[0] == 'F':
            if o[1] in gone and o[3] in gone:
                continue
            if o[1] in gone:
                out.append(['f', ren[o[3]]])
            elif o[3] in gone:
                out.append(['f', ren[o[1]]])
            else:
                out.append(['F', ren[o[1]], o[2], ren[o[3]]])
        else:
            out.append(list(o))
        if is_m:
            ren[nm] = sum(1 for x in out if x[0] in ('m', 'g', 'M')) - 1
            nm += 1
    return out


def shrink(case, sig, budget=120):
    """greedy minimisation of a failing history (re-running the real code); keeps the signature"""
    def fails(c):
        try:
            o = core.run_driver('heap_driver.py', [c])[0]
        except Exception:
            return False
        m = monitor(c, o)
        return bool(m) and m[0] == sig
    best = case
    # cut after the op the monitor complained about, then remove ops one by one
    n = len(best['ops'])
    lo = 1
    while lo < n and budget > 0:
        budget -= 1
        c = dict(best, ops=best['ops'][:lo])
        if fails(c):
            best = c
            break
        lo = min(n, lo * 2)
    changed = True
    while changed and budget > 0:
        changed = False
        i = len(best['ops']) - 1
        while i >= 0 and budget > 0:
            budget -= 1
            c = dict(best, ops=drop_op(best['ops'], i))
            if len(c['ops']) < len(best['ops']) and fails(c):
                best = c
                changed = True
            i -= 1
    return best


# --------------------------------------------------------------------- run
def judge(res, cases, outs, tag):
    skipped = sum(1 for o in outs if o.get('skipped'))
    if skipped:
        res.notes.append('%d cases not run after the heap lock deadlocked twice' % skipped)
    pairs = [(c, o) for c, o in zip(cases, outs) if not o.get('skipped')]
    cases = [c for c, _ in pairs]
    outs = [o for _, o in pairs]
    terms = [to_coq(c, o) for c, o in zip(cases, outs)]
    codes, _ = core.coq_eval('C14' + tag, HEADER, core.chunks(terms, 150))
    bad = dict(codes)
    alarmed = 0
    for i, (c, o) in enumerate(zip(cases, outs)):
        m = monitor(c, o)
        if m:
            alarmed += 1
            if alarmed == 1 and not c.get('real'):
                small = shrink(c, m[0])
                if small is not c:
                    o2 = core.run_driver('heap_driver.py', [small])[0]
                    m2 = monitor(small, o2)
                    if m2 and m2[0] == m[0]:
                        c, o, m = small, o2, m2
            res.alarms.append(dict(signature=m[0], what='%s; history %s' % (m[1], json.dumps(c)[:600]),
                                   replay=dict(case=c, impl=o)))
        elif i in bad:
            res.broken.append(dict(kind='correspondence', name='Heap model vs billiard.heap.Heap',
                                   detail=json.dumps(dict(case=c, impl=o))[:4000]))
    return alarmed


def correspond(res, n, long_cases, long_ops, n_nested, search=0):
    """search = 0: the regular run; search = k > 0: k-th extra round of the failing-input search (other seeds,
    no corpus, no enumerated cases twice)"""
    rng = random.Random(res.seed * 6151 + 14 + 104729 * search)
    corpus = json.load(open(core.VERIF + '/corpus/C14.json')) if not search else []
    cases = corpus + gen_cases(rng, n, long_cases, long_ops)
    # frees issued from inside malloc/free by the same thread: their own generator (the histories above
    # are the same as before for a given seed)
    cases += gen_nested_cases(random.Random(res.seed * 7919 + 1414 + 104729 * search), n_nested)
    outs = core.run_driver('heap_driver.py', cases)
    judge(res, cases, outs, '')
    cases = [c for c, o in zip(cases, outs) if not o.get('skipped')]
    outs = [o for o in outs if not o.get('skipped')]
    hist = {}
    lens = {}
    nested = dict(in_malloc_before_drain=0, in_malloc_after_drain=0, in_free_before_drain=0, in_free_after_drain=0,
                  point_not_reached=0)
    lines = {}
    for c, o in zip(cases, outs):
        for j, (x, y) in enumerate(zip(c['ops'], effective_ops(c, o))):
            if x[0] in ('M', 'F') and j < len(o.get('aux') or []):
                if y[0] != x[0]:
                    nested['point_not_reached'] += 1
                else:
                    nested['in_%s_%s_drain' % ('malloc' if x[0] == 'M' else 'free', 'before' if x[2] < 0 else 'after')] += 1
                    if x[2] >= 0:
                        lines[(x[0], x[2])] = lines.get((x[0], x[2]), 0) + 1
    for c in cases:
        for o in c['ops']:
            hist[o[0]] = hist.get(o[0], 0) + 1
        b = min(len(c['ops']) // 20 * 20, 100)
        lens['%d+' % b] = lens.get('%d+' % b, 0) + 1
    nontrivial = {json.dumps(c, sort_keys=True) for c, o in zip(cases, outs)
                  if len(o['snap']['arenas']) >= 1 and any(x[0] in 'fdgMF' for x in c['ops'])
                  and sum(1 for x in c['ops'] if x[0] in 'mgM') >= 3}
    res.add_cov(evaluations=len(cases), distinct=len(nontrivial), traces=len(cases),
                samples=[dict(case=cases[min(len(corpus), len(cases) - 1)], impl=outs[min(len(corpus), len(cases) - 1)]['obs'])],
                rule='random/LIFO/FIFO/checkerboard/exact-fit histories of malloc, free, deferred free (lock held by '
                     'another thread) and free-during-malloc, page sizes 8/32/64/4096, plus enumerated boundary cases; '
                     'plus histories with frees issued by the same thread from inside malloc/free (on entry to '
                     '_free_pending_blocks, or at the t-th heap.py line after it returned, every t enumerated on '
                     'the boundary layouts); non-trivial = at least three mallocs and one free; distinct by canonical JSON',
                op_histogram=dict(malloc=hist.get('m', 0), free=hist.get('f', 0), deferred_free=hist.get('d', 0),
                                  malloc_with_gc_free=hist.get('g', 0), malloc_with_nested_free=hist.get('M', 0),
                                  free_with_nested_free=hist.get('F', 0)),
                nested_free_points=nested,
                nested_free_distinct_lines=dict(in_malloc=len([1 for k in lines if k[0] == 'M']),
                                                in_free=len([1 for k in lines if k[0] == 'F'])),
                history_length_histogram=lens,
                multi_arena_cases=sum(1 for o in outs if len(o['snap']['arenas']) >= 2),
                cases_ending_in_exception=sum(1 for o in outs if o['obs'] and o['obs'][-1][0]))
    return cases, outs


def real_arena(res, n):
    """thorough: the real mmap-backed Arena, a byte pattern in every live block re-read after every op"""
    rng = random.Random(res.seed * 31 + 1414)
    pg = mmap.PAGESIZE
    cases = []
    for _ in range(n):
        ops = gen_history(rng, pg, rng.choice([10, 30, 60]), rng.choice(['random', 'lifo', 'fifo', 'checker', 'exact']))
        cases.append(dict(pg=pg, size=pg, ops=ops, real=True))
    for _ in range(n // 3):     # with frees issued from inside malloc/free by the same thread
        cases.append(dict(pg=pg, size=pg, ops=gen_nested_history(rng, pg, rng.choice([10, 30, 60])), real=True))
    outs = core.run_driver('heap_driver.py', cases)
    judge(res, cases, outs, 'real')
    res.add_cov(evaluations=len(cases), traces=len(cases), real_arena_cases=len(cases),
                rule='real mmap arenas with byte patterns (thorough)')


def threads_scenario(res, n):
    """thorough: real threads on one heap; the final state must be a partition with coalesced free blocks and
    consistent indexes, and the live set must be exactly what the threads still hold"""
    cases = [dict(threads=4, n=1500, seed=res.seed * 100 + i, pg=64, size=64) for i in range(n)]
    outs = core.run_driver('heap_driver.py', cases)
    for c, o in zip(cases, outs):
        s = o['snap']
        bad = None
        if o['errors'] or any(o['alive']):
            bad = ('C14:valid-op-raised', 'threads: %s alive=%s' % (o['errors'][:3], o['alive']))
        else:
            g = gaps(s['arenas'], s['alloc'])
            free = sorted(tuple(b) for _, seq in s['l2s'] for b in seq)
            if g is None:
                bad = ('C14:overlap', 'threads: live blocks overlap: %s' % s['alloc'][:20])
            elif sorted(map(tuple, s['alloc'])) != sorted(map(tuple, o['live'])):
                bad = ('C14:live-set-wrong', 'threads: _allocated_blocks differs from the blocks the threads hold')
            elif free != sorted(g) or s['pending']:
                bad = ('C14:free-list-not-the-gaps', 'threads: free blocks %s, maximal free extents %s' % (free[:10], sorted(g)[:10]))
            elif sorted((tuple(k), tuple(b)) for k, b in s['s2b']) != sorted(((b[0], b[1]), b) for b in free) or \
                    sorted((tuple(k), tuple(b)) for k, b in s['e2b']) != sorted(((b[0], b[2]), b) for b in free) or \
                    s['lengths'] != sorted({b[2] - b[1] for b in free}):
                bad = ('C14:indexes-disagree', 'threads: indexes disagree')
        if bad:
            res.alarms.append(dict(signature=bad[0], what=bad[1], replay=dict(case=c, impl=dict(snap=s))))
    res.add_cov(evaluations=len(cases), traces=len(cases), real_thread_scenarios=len(cases),
                rule='4 real threads x 1500 malloc/free on one heap, final state judged (thorough)')


def run(res):
    res.proof_step('Props/C14.v', extra_targets=['Model/Heap.vo'], kernels_needed=['K_heap', 'G_heap'])
    if res.tier == 'quick':
        n, lc, lo, nn = 260, 2, 400, 200
    else:
        n, lc, lo, nn = 6000, 30, 2000, 4000
    import time
    t0 = time.time()
    correspond(res, n, lc, lo, nn)
    t1 = time.time()
    correspond_conc(res, 120 if res.tier == 'quick' else 3000)
    t2 = time.time()
    correspond_fork(res, 8 if res.tier == 'quick' else 150)
    res.cov['stage_wall_s'] = dict(sequential_histories=round(t1 - t0, 1), threads=round(t2 - t1, 1),
                                   fork=round(time.time() - t2, 1))
    if res.broken and not res.alarms and res.tier == 'quick':
        correspond_conc(res, 1500, search=1)
    if res.broken and not res.alarms and res.tier == 'quick':
        # failing-input search: a proof, the translation or the correspondence is broken but no history on
        # which the property itself fails has been found yet -- look harder
        correspond(res, 3000, 2, 400, 800, search=1)
    if res.tier != 'quick':
        real_arena(res, 300)
        threads_scenario(res, 6)
    res.assumptions += [
        'threading.Lock gives mutual exclusion (C17); the steps under the lock of the interleaving model are one drain '
        'iteration / the rest of the critical section (justified by the mutual-exclusion theorem and the commutation of the '
        'body with appends to the pending list)',
        'threading.Lock (the kind of lock extracted from Heap.__init__) cannot be acquired again by the thread that '
        'holds it; finalisers run by the garbage collector run in the thread that triggered the collection, between '
        'two lines of heap.py (sys.settrace line granularity in the driver; the model has seven points)',
        'list.append / list.pop on the pending list are atomic under the GIL',
        'mmap.PAGESIZE is a power of two >= 8',
        'bisect.bisect_left/insort (C implementation) behave as specified on sorted lists',
        'frees are valid: the block was returned by malloc and is freed once (BufferWrapper guarantees this through Finalize)',
        'a forked child shares the parent\'s arenas (MAP_SHARED files): not modelled beyond "arenas are objects"',
    ]


def replay(path):
    d = json.load(open(path))
    if 'replay' not in d:
        print(json.dumps(d.get('broken', d))[:3000])
        return 1
    c = d['replay']['case']
    out = core.run_driver('heap_driver.py', [c])[0]
    if 'threads' in c:
        print('thread scenario re-run; final state:', json.dumps(out['snap'])[:2000], out['errors'])
        return 0
    if 'conc' in c:
        print('case:', json.dumps(c))
        print('events of the real threads:', json.dumps(out.get('events')))
        print('calls/returns:', json.dumps(out.get('trace')))
        reinit = c['conc'].get('stale_pid') or c['conc'].get('fork')
        m = reinit_monitor(c, out) if reinit else conc_monitor(c, out)
        print('monitor:', m or 'property holds on this trace')
        codes = []
        if not m and out.get('snap') and not reinit:
            codes, _ = core.coq_eval('C14r', HEADER_CONC, [[conc_term(c, out)]])
            print('interleaving model agrees' if not codes else 'interleaving model disagrees')
        return 1 if (m or codes) else 0
    if 'fork' in c:
        print('case:', json.dumps(c))
        print('child:', json.dumps(out['child'])[:2000])
        m = fork_monitor(c, out)
        print('monitor:', m or 'property holds on this trace')
        codes = []
        if not m:
            codes, _ = core.coq_eval('C14r', HEADER_FORK, [[fork_term(c, out)]])
            print('model agrees' if not codes else 'model disagrees')
        return 1 if (m or codes) else 0
    print('case:', json.dumps(c))
    print('implementation now:', json.dumps(out['obs']))
    m = monitor(c, out)
    print('monitor:', m or 'property holds on this trace')
    codes, _ = core.coq_eval('C14r', HEADER, [[to_coq(c, out)]])
    print('model agrees' if not codes else 'model disagrees')
    return 1 if (m or codes) else 0
