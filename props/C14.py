"""C14 -- the shared-memory heap never hands out overlapping or misplaced memory.

Tie to the code: K_heap (Heap._roundup) and G_heap (size normalisation, split point/test,
arena length, doubling, alignment constant, bisect flavour) are regenerated from heap.py on
every run and proved equal to the model's arithmetic; the real Heap (private instance, Arena
replaced by a size-only stub) is run on malloc/free/deferred-free histories -- including frees issued
by the same thread from inside a running malloc/free at any line under the lock, the way a finaliser
run by the garbage collector does -- and every returned block, the arena list and the four free-list indexes are compared with the executable model
inside Coq; independently the property itself (alignment, size, in-arena, disjointness,
exact partition, coalescing, no needless arena) is judged on the implementation trace by
`monitor` below, which knows nothing about the model."""
import json
import mmap
import random
from vlib import core
from vlib.core import cz, cnat, cbool, clist

MANIFEST = dict(
    text='Theorems (Coq, all op sequences of malloc/free/deferred free/free issued from inside a malloc or free '
         'by the same thread (garbage collection), with valid frees, unbounded): '
         'Heap._roundup, the size normalisation, split test, arena length and doubling as translated from heap.py '
         'on every run equal the model; no modelled operation raises; every live block is 8-aligned, at least '
         'max(n,1) long, inside its arena and disjoint from every other live block; free and live blocks exactly '
         'partition every arena; the four free-list indexes describe the same set of free blocks; no two free blocks '
         'are adjacent; a new arena is mapped only when every free block is too short, and otherwise the block taken '
         'is a best fit; a deferred free acts exactly like an immediate free at the next malloc/free; the lock created '
         'by Heap.__init__ is not re-entrant and free() try-locks it (read from heap.py on every run), hence a free '
         'issued from inside malloc/free by the same thread, at any point, is exactly a deferred free (and with a '
         're-entrant lock coalescing would fail: refutation by computation). Correspondence of '
         'the real Heap (stub arenas; real mmap arenas with byte patterns in the thorough tier) with the model on '
         'random and adversarial histories, plus an independent monitor of the property on the implementation traces.',
    note='Trusted: Coq kernel, translate/pykernel.py + translate/kernels/heap.py, Lib/PyVal.v; stdlib bisect (modelled as '
         'first index with element >= x on a sorted list; sortedness is part of the proved invariant), dict/set/list as '
         'association lists; mmap and the page size being a power of two >= 8; the heap lock makes malloc/free atomic '
         '(a free that finds the lock taken is the FreeDeferred op; that the thread holding it finds it taken too is '
         'the extracted fact lock_reentrant = false plus threading.Lock semantics); GIL-atomic list.append/pop for the pending list; '
         'the post-fork re-initialisation in malloc is not modelled.',
    technique='Coq invariant proof over the faithful index-level model + translator-regenerated arithmetic kernels + '
              'differential correspondence + independent trace monitor',
    ref='5.14',
)

HEADER = '''From Coq Require Import ZArith List Bool.
From BV Require Import Lib.Cases Model.Heap.
Import ListNotations. Open Scope Z_scope.
Definition check_case := Heap.check_case.'''


# --------------------------------------------------------------------- case generation
def size_choices(rng, pg):
    base = [0, 1, 7, 8, 9, 15, 16, 17, 24, 31, 32, 40, 64, pg - 8, pg - 1, pg, pg + 1,
            2 * pg, 2 * pg + 8, 3 * pg]
    r = rng.random()
    if r < 0.55:
        return rng.choice(base)
    if r < 0.85:
        return rng.randint(0, max(8, pg // 4))
    return rng.randint(0, 3 * pg)


def gen_history(rng, pg, nops, style):
    """ops with valid frees; style: random | lifo | fifo | checker | exact"""
    ops = []
    live = []          # malloc numbers that are live and not pending
    nm = 0
    if style == 'checker':
        # fill with equal blocks, free every other one, then the rest (coalescing), then reuse
        unit = rng.choice([8, 16, 24, 64])
        cnt = max(4, min(nops // 3, 40))
        for _ in range(cnt):
            ops.append(['m', unit]); live.append(nm); nm += 1
        order = live[0::2] + (live[1::2] if rng.random() < 0.5 else list(reversed(live[1::2])))
        for k in order:
            ops.append([rng.choice(['f', 'f', 'd']), k])
        live = []
        for _ in range(cnt // 2):
            ops.append(['m', rng.choice([unit, 2 * unit, 3 * unit, unit - 1, 1])]); live.append(nm); nm += 1
        return ops
    if style == 'exact':
        # carve blocks, free some, ask for exactly the freed sizes (exact fit / best fit)
        sizes = [rng.choice([8, 16, 24, 32, 40, 48]) for _ in range(max(4, min(nops // 3, 30)))]
        for s in sizes:
            ops.append(['m', s]); live.append(nm); nm += 1
        freed = []
        for k in list(live):
            if rng.random() < 0.5:
                ops.append(['f', k]); live.remove(k); freed.append(sizes[k])
        rng.shuffle(freed)
        for s in freed:
            ops.append(['m', rng.choice([s, s, s - 7, s + 8])]); live.append(nm); nm += 1
        return ops
    pfree = rng.choice([0.25, 0.4, 0.5, 0.6])
    for _ in range(nops):
        r = rng.random()
        if live and r < pfree:
            if style == 'lifo':
                k = live.pop()
            elif style == 'fifo':
                k = live.pop(0)
            else:
                k = live.pop(rng.randrange(len(live)))
            ops.append([rng.choice(['f', 'f', 'f', 'd', 'd']), k])
        elif live and r < pfree + 0.08:
            k = live.pop(rng.randrange(len(live)))
            ops.append(['g', size_choices(rng, pg), k]); live.append(nm); nm += 1
        else:
            ops.append(['m', size_choices(rng, pg)]); live.append(nm); nm += 1
    return ops


def gen_cases(rng, n, long_cases=2, long_ops=400):
    cases = []
    styles = ['random', 'random', 'random', 'lifo', 'fifo', 'checker', 'exact']
    for j in range(n):
        pg = rng.choice([4096, 4096, 64, 32, 8])
        size = rng.choice([pg, pg, 1, 100, 2 * pg, 3 * pg + 5])
        nops = rng.choice([3, 8, 15, 25, 40, 60, 80])
        ops = gen_history(rng, pg, nops, rng.choice(styles))
        r = rng.random()
        if r < 0.03 and any(o[0] == 'f' for o in ops):
            # an invalid (double) free: the code raises KeyError, so must the model
            k = next(o[1] for o in ops if o[0] == 'f')
            ops.append([rng.choice(['f', 'd']), k]); ops.append(['m', 8])
        elif r < 0.04:
            ops.append(['m', -1])
        cases.append(dict(pg=pg, size=size, ops=ops))
    for j in range(long_cases):
        pg = rng.choice([4096, 64])
        cases.append(dict(pg=pg, size=pg, ops=gen_history(rng, pg, long_ops, 'random')))
    return cases + boundary_cases()


def boundary_cases():
    """systematically enumerated small cases: every request size around the alignment and the
    page boundary, followed by free / deferred free and an exact-fit, a smaller and a larger request"""
    out = []
    for pg in (8, 32, 4096):
        for n in (0, 1, 7, 8, 9, pg - 8, pg - 7, pg, pg + 1, 2 * pg):
            for f in ('f', 'd'):
                out.append(dict(pg=pg, size=pg, ops=[['m', n], ['m', 8], [f, 0], ['m', n], ['m', max(n - 8, 0)],
                                                     [f, 1], ['m', n + 8], ['m', 1]]))
    # split remainder exactly 8; neighbour merge left, right, both
    out.append(dict(pg=64, size=64, ops=[['m', 56], ['m', 8], ['f', 0], ['f', 1], ['m', 64]]))
    out.append(dict(pg=64, size=64, ops=[['m', 16], ['m', 16], ['m', 16], ['f', 0], ['f', 2], ['f', 1], ['m', 64]]))
    out.append(dict(pg=64, size=64, ops=[['m', 16], ['m', 16], ['m', 16], ['m', 16], ['d', 1], ['d', 2], ['m', 32], ['f', 0], ['f', 3]]))
    out.append(dict(pg=64, size=64, ops=[['m', 16], ['m', 16], ['g', 16, 0], ['g', 16, 1], ['m', 32], ['m', 8]]))
    # two free blocks of the same length: the last one freed is taken first
    out.append(dict(pg=64, size=64, ops=[['m', 8], ['m', 8], ['m', 8], ['m', 8], ['m', 8], ['f', 1], ['f', 3], ['m', 8], ['m', 8], ['m', 8]]))
    # best fit among several lengths, exact fit must not open a new arena
    out.append(dict(pg=64, size=64, ops=[['m', 24], ['m', 8], ['m', 16], ['m', 16], ['f', 0], ['f', 2], ['m', 16], ['m', 24], ['m', 1]]))
    return out


def gen_nested_history(rng, pg, nops):
    """random history in which many frees are issued by the same thread from inside a running malloc/free
    (['M', n, t, k] / ['F', j, t, k], t = -1: before the pending list is drained, t >= 0: at the t-th line after);
    small sizes, so that the block freed from inside is often a neighbour of the blocks being merged or split"""
    ops = []
    live = []
    nm = 0
    pfree = rng.choice([0.3, 0.45, 0.55])
    unit = rng.choice([8, 8, 16, 24])

    def size():
        r = rng.random()
        if r < 0.6:
            return unit * rng.choice([1, 1, 1, 2, 3])
        if r < 0.8:
            return rng.choice([0, 1, 7, 9, 40, 64])
        return size_choices(rng, pg)
    for _ in range(nops):
        r = rng.random()
        pre = rng.random() < 0.08
        if len(live) >= 2 and r < pfree * 0.55:
            j = live.pop(rng.randrange(len(live)))
            # the block freed from inside is most often a neighbour (in allocation order) of the outer one
            near = [x for x in live if abs(x - j) <= 2]
            k = rng.choice(near) if near and rng.random() < 0.7 else rng.choice(live)
            live.remove(k)
            ops.append(['F', j, -1 if pre else rng.randint(0, 31), k])
        elif live and r < pfree:
            k = live.pop(rng.randrange(len(live)))
            ops.append([rng.choice(['f', 'f', 'd']), k])
        elif live and r < pfree + 0.22:
            k = live.pop(rng.randrange(len(live)))
            ops.append(['M', size(), -1 if pre else rng.randint(0, 45), k]); live.append(nm); nm += 1
        else:
            ops.append(['m', size()]); live.append(nm); nm += 1
    return ops


def nested_boundary_cases():
    """systematic: four blocks Y P X G filling the start of an arena, P freed; then a free / malloc during
    which the same thread frees a neighbour at EVERY line under the lock (and before the drain), followed
    by a request that fits exactly if and only if the freed space was merged"""
    out = []
    for pg, u in ((64, 16), (4096, 768)):
        four = [['m', u], ['m', u], ['m', u], ['m', u], ['f', 1]]
        for t in range(-1, 33):
            # free(X) absorbs P; Y (left of P) / G (right of X) freed from inside
            out.append(dict(pg=pg, size=pg, ops=four + [['F', 2, t, 0], ['m', 3 * u], ['m', 8]]))
            out.append(dict(pg=pg, size=pg, ops=four + [['F', 2, t, 3], ['m', 3 * u], ['m', 8]]))
            # free(Y) absorbs P on the right; X freed from inside
            out.append(dict(pg=pg, size=pg, ops=four + [['F', 0, t, 2], ['m', 3 * u], ['m', 8]]))
        for t in range(-1, 47):
            # malloc(8) splits P; X (right of P) / Y (left of P) freed from inside; then the rest must be one extent
            out.append(dict(pg=pg, size=pg, ops=four + [['M', 8, t, 2], ['m', 2 * u - 8], ['m', 8]]))
            out.append(dict(pg=pg, size=pg, ops=four + [['M', 8, t, 0], ['f', 4], ['m', 2 * u], ['m', 8]]))
            # exact fit (no split) and a new arena, with a free from inside
            out.append(dict(pg=pg, size=pg, ops=four + [['M', u, t, 2], ['m', u], ['m', 8]]))
            out.append(dict(pg=pg, size=pg, ops=four + [['M', 2 * pg, t, 0], ['m', 2 * u], ['m', 8]]))
    return out


def gen_nested_cases(rng, n):
    cases = []
    for _ in range(n):
        pg = rng.choice([4096, 64, 64, 32, 8])
        size = rng.choice([pg, pg, 1, 2 * pg])
        nops = rng.choice([6, 12, 20, 30, 45, 60])
        cases.append(dict(pg=pg, size=size, ops=gen_nested_history(rng, pg, nops)))
    return cases + nested_boundary_cases()


# --------------------------------------------------------------------- rendering
def cblock(b):
    return '(%s, %s, %s)' % (cz(b[0]), cz(b[1]), cz(b[2]))


def ckey(k):
    return '(%s, %s)' % (cz(k[0]), cz(k[1]))


def cop(o):
    if o[0] == 'm':
        return '(CMalloc %s)' % cz(o[1])
    if o[0] == 'f':
        return '(CFree %s)' % cnat(o[1])
    if o[0] == 'd':
        return '(CFreeDeferred %s)' % cnat(o[1])
    if o[0] == 'M':
        return '(CMallocRe %s %s %s)' % (cz(o[1]), cbool(o[2] < 0), cnat(o[3]))
    if o[0] == 'F':
        return '(CFreeRe %s %s %s)' % (cnat(o[1]), cbool(o[2] < 0), cnat(o[3]))
    return '(CMallocGC %s %s)' % (cz(o[1]), cnat(o[2]))


def effective_ops(c, out):
    """the ops as they were really performed: a nested free whose point was never reached
    (aux.fired = 0) did not happen, the op is then a plain malloc / free"""
    aux = out.get('aux') or []
    ops = []
    for j, o in enumerate(c['ops']):
        if o[0] in ('M', 'F') and j < len(aux) and not aux[j]['fired']:
            o = ['m', o[1]] if o[0] == 'M' else ['f', o[1]]
        ops.append(o)
    return ops


def to_coq(c, out):
    c = dict(c, ops=effective_ops(c, out))
    obs = clist(out['obs'], lambda o: '(%s, %s, %s, %s)' % (cbool(o[0]), cblock(o[1]), cz(o[2]), cz(o[3])))
    s = out['snap']
    snap = '(mk_snap %s %s %s %s %s %s %s %s)' % (
        clist(s['lengths']),
        clist(s['l2s'], lambda e: '(%s, %s)' % (cz(e[0]), clist(e[1], cblock))),
        clist(s['s2b'], lambda e: '(%s, %s)' % (ckey(e[0]), cblock(e[1]))),
        clist(s['e2b'], lambda e: '(%s, %s)' % (ckey(e[0]), cblock(e[1]))),
        clist(s['alloc'], cblock), clist(s['arenas']), cz(s['nsize']), clist(s['pending'], cblock))
    return '((%s, %s, %s, %s, %s) : Heap.case)' % (cz(c['pg']), cz(c['size']), clist(c['ops'], cop), obs, snap)


# --------------------------------------------------------------------- the property, on the implementation trace
def gaps(arenas, blocks):
    """maximal extents of the arenas not covered by `blocks` -> sorted list of (arena, start, stop);
    None if blocks overlap or leave their arena"""
    per = {}
    for b in blocks:
        per.setdefault(b[0], []).append(b)
    out = []
    for a, size in enumerate(arenas):
        pos = 0
        for b in sorted(per.get(a, [])):
            if b[1] < pos or b[2] > size or b[1] >= b[2]:
                return None
            if b[1] > pos:
                out.append((a, pos, b[1]))
            pos = b[2]
        if pos < size:
            out.append((a, pos, size))
    if any(a >= len(arenas) or a < 0 for a in per):
        return None
    return out


def monitor(c, out):
    """returns None or (signature, text).  Judges the implementation trace only.

    live  : blocks handed out whose free() has not been called;
    limbo : blocks whose free() was called while the lock was held -- by another thread ('d') or by the calling
            thread itself, from inside malloc/free ('g', 'M', 'F': a finaliser run by the garbage collector) --
            and that wait in the pending list: freed for their owner, but they still occupy their place.
    The next malloc/free must apply them: from then on the monitor counts their space as free.  Whether the free
    issued from inside an op was queued or applied on the spot is read from the implementation's pending list
    after that op (aux); the property allows both, it allows neither to break the partition, the coalescing,
    the indexes or the arena economy."""
    arenas_final = out['snap']['arenas']
    aux = out.get('aux')
    ops = effective_ops(c, out)
    live = {}           # malloc number -> block
    limbo = {}          # malloc number -> block
    invalid = False     # a block was freed that was not live: nothing can be judged after that
    na = 0
    nm = 0
    for j, (op, ob) in enumerate(zip(ops, out['obs'])):
        err = ob[0]
        ax = aux[j] if aux and j < len(aux) else None
        kind = op[0]
        if kind == 'd':
            if err:
                return ('C14:valid-op-raised', 'deferred free raised %s at op %d' % (ob[4], j))
            if op[1] in live:
                limbo[op[1]] = live.pop(op[1])
            else:
                invalid = True
            continue
        victim = op[2] if kind == 'g' else op[3] if kind in ('M', 'F') else None
        victim_ok = victim is None or (victim in live and not (kind == 'F' and victim == op[1]))
        if err:
            if invalid or not victim_ok:
                return None     # an invalid op raised: nothing more to judge
            if kind in ('f', 'F') and op[1] in live:
                return ('C14:valid-op-raised', 'free of a live block raised %s at op %d%s'
                        % (ob[4], j, nested_text(kind, victim, ax)))
            if kind in ('m', 'g', 'M') and 0 <= op[1] < 2 ** 63 - 1:
                return ('C14:valid-op-raised', 'malloc(%d) raised %s at op %d%s'
                        % (op[1], ob[4], j, nested_text(kind, victim, ax)))
            return None
        if invalid:
            return None         # invalid history went unnoticed by the code: outside the property
        # malloc and free first apply the pending frees
        limbo = {}
        if kind in ('f', 'F'):
            if op[1] not in live:
                return None
            del live[op[1]]
        else:
            n = op[1]
            b = ob[1]
            na_after = ob[2]
            before = gaps(arenas_final[:na], list(live.values()))
            if before is None:
                return ('C14:overlap', 'live blocks overlap or leave their arena before op %d' % j)
            if na_after not in (na, na + 1):
                return ('C14:arena-count', 'arena count went from %d to %d at op %d' % (na, na_after, j))
            if b[1] % 8 or b[2] % 8:
                return ('C14:misaligned', 'malloc(%d) returned %s at op %d' % (n, b, j))
            if b[2] - b[1] < max(n, 1):
                return ('C14:too-small', 'malloc(%d) returned %s at op %d' % (n, b, j))
            if not (0 <= b[0] < na_after and 0 <= b[1] < b[2] <= arenas_final[b[0]]):
                return ('C14:outside-arena', 'malloc(%d) returned %s, arenas %s at op %d' % (n, b, arenas_final[:na_after], j))
            for k, x in live.items():
                if k == victim:
                    continue    # its owner freed it during this very malloc (whether it is still queued is judged below)
                if x[0] == b[0] and x[1] < b[2] and b[1] < x[2]:
                    return ('C14:overlap', 'malloc(%d) returned %s overlapping live block %s (malloc #%d) at op %d' % (n, b, x, k, j))
            if na_after > na and any(g[2] - g[1] >= max(n, 1) for g in before):
                return ('C14:needless-arena', 'malloc(%d) mapped a new arena although a free extent %s exists, at op %d%s'
                        % (n, max(before, key=lambda g: g[2] - g[1]), j, nested_text(kind, victim, ax)))
            na = na_after
            live[nm] = b
            nm += 1
        if victim is not None:
            if not victim_ok or victim not in live:
                return None
            if ax and ax.get('nested_err'):
                return ('C14:valid-op-raised', 'free of live block #%d issued from inside op %d (%s) raised %s'
                        % (victim, j, kind, ax['nested_err']))
            vb = live.pop(victim)
            if ax is None or list(vb) in [list(x) for x in ax['pending']]:
                limbo[victim] = vb      # queued: applied by the next malloc/free
        # exact partition + coalescing: the number of free blocks is the number of maximal gaps
        g = gaps(arenas_final[:na], list(live.values()) + list(limbo.values()))
        if g is None:
            return ('C14:overlap', 'live blocks overlap or leave their arena after op %d%s' % (j, nested_text(kind, victim, ax)))
        if len(g) != ob[3]:
            return ('C14:free-list-not-the-gaps', 'after op %d there are %d free blocks but %d maximal free extents%s'
                    % (j, ob[3], len(g), nested_text(kind, victim, ax)))
        if ax is not None and sorted(map(tuple, ax['pending'])) != sorted(map(tuple, limbo.values())):
            return ('C14:pending-list-wrong', 'after op %d the pending list is %s, the frees not yet applied are %s'
                    % (j, ax['pending'], sorted(limbo.values())))
    if out['obs'] and out['obs'][-1][0]:
        return None
    if len(out['obs']) != len(c['ops']):
        return ('C14:valid-op-raised', 'driver stopped early')
    if invalid:
        return None
    # final state: the free lists are exactly the maximal gaps, and the four indexes agree
    s = out['snap']
    g = gaps(s['arenas'], s['alloc'])
    held = sorted(list(live.values()) + list(limbo.values()))
    if g is None or sorted(map(tuple, s['alloc'])) != sorted(map(tuple, held)):
        return ('C14:live-set-wrong', '_allocated_blocks %s, handed out and not freed %s' % (s['alloc'], held))
    free = sorted(tuple(b) for _, seq in s['l2s'] for b in seq)
    if free != sorted(g):
        return ('C14:free-list-not-the-gaps', 'free blocks %s, maximal free extents %s' % (free, sorted(g)))
    if sorted((tuple(k), tuple(b)) for k, b in s['s2b']) != sorted(((b[0], b[1]), b) for b in free) or \
       sorted((tuple(k), tuple(b)) for k, b in s['e2b']) != sorted(((b[0], b[2]), b) for b in free) or \
       s['lengths'] != sorted({b[2] - b[1] for b in free}) or \
       any(b[2] - b[1] != ln for ln, seq in s['l2s'] for b in seq) or any(not seq for _, seq in s['l2s']):
        return ('C14:indexes-disagree', 'the four free-list indexes do not describe the same blocks: %s' % json.dumps(s))
    if out.get('damage'):
        return ('C14:byte-damage', 'bytes of live block changed: (op, malloc#) %s' % out['damage'][:5])
    return None


def nested_text(kind, victim, ax):
    if victim is None:
        return ''
    return ' (free of block #%d issued by the same thread from inside this %s%s)' % (
        victim, 'free' if kind == 'F' else 'malloc',
        '' if not ax else ', it was %s' % ('queued' if ax['pending'] else 'not queued'))


# --------------------------------------------------------------------- shrinking a failing history
def drop_op(ops, i):
    """ops without op i; malloc numbers are renumbered, ops that referred to a removed malloc go too
    (a nested free of a removed block goes, its outer op stays)"""
    gone = set()
    out = []
    nm = 0
    ren = {}
    for j, o in enumerate(ops):
        is_m = o[0] in ('m', 'g', 'M')
        if j == i:
            if is_m:
                gone.add(nm)
                nm += 1
            continue
        if o[0] in ('f', 'd'):
            if o[1] in gone:
                continue
            out.append([o[0], ren[o[1]]])
        elif o[0] == 'g':
            if o[2] in gone:
                out.append(['m', o[1]])
            else:
                out.append(['g', o[1], ren[o[2]]])
        elif o[0] == 'M':
            if o[3] in gone:
                out.append(['m', o[1]])
            else:
                out.append(['M', o[1], o[2], ren[o[3]]])
        elif o[0] == 'F':
            if o[1] in gone and o[3] in gone:
                continue
            if o[1] in gone:
                out.append(['f', ren[o[3]]])
            elif o[3] in gone:
                out.append(['f', ren[o[1]]])
            else:
                out.append(['F', ren[o[1]], o[2], ren[o[3]]])
        else:
            out.append(list(o))
        if is_m:
            ren[nm] = sum(1 for x in out if x[0] in ('m', 'g', 'M')) - 1
            nm += 1
    return out


def shrink(case, sig, budget=120):
    """greedy minimisation of a failing history (re-running the real code); keeps the signature"""
    def fails(c):
        try:
            o = core.run_driver('heap_driver.py', [c])[0]
        except Exception:
            return False
        m = monitor(c, o)
        return bool(m) and m[0] == sig
    best = case
    # cut after the op the monitor complained about, then remove ops one by one
    n = len(best['ops'])
    lo = 1
    while lo < n and budget > 0:
        budget -= 1
        c = dict(best, ops=best['ops'][:lo])
        if fails(c):
            best = c
            break
        lo = min(n, lo * 2)
    changed = True
    while changed and budget > 0:
        changed = False
        i = len(best['ops']) - 1
        while i >= 0 and budget > 0:
            budget -= 1
            c = dict(best, ops=drop_op(best['ops'], i))
            if len(c['ops']) < len(best['ops']) and fails(c):
                best = c
                changed = True
            i -= 1
    return best


# --------------------------------------------------------------------- run
def judge(res, cases, outs, tag):
    skipped = sum(1 for o in outs if o.get('skipped'))
    if skipped:
        res.notes.append('%d cases not run after the heap lock deadlocked twice' % skipped)
    pairs = [(c, o) for c, o in zip(cases, outs) if not o.get('skipped')]
    cases = [c for c, _ in pairs]
    outs = [o for _, o in pairs]
    terms = [to_coq(c, o) for c, o in zip(cases, outs)]
    codes, _ = core.coq_eval('C14' + tag, HEADER, core.chunks(terms, 150))
    bad = dict(codes)
    alarmed = 0
    for i, (c, o) in enumerate(zip(cases, outs)):
        m = monitor(c, o)
        if m:
            alarmed += 1
            if alarmed == 1 and not c.get('real'):
                small = shrink(c, m[0])
                if small is not c:
                    o2 = core.run_driver('heap_driver.py', [small])[0]
                    m2 = monitor(small, o2)
                    if m2 and m2[0] == m[0]:
                        c, o, m = small, o2, m2
            res.alarms.append(dict(signature=m[0], what='%s; history %s' % (m[1], json.dumps(c)[:600]),
                                   replay=dict(case=c, impl=o)))
        elif i in bad:
            res.broken.append(dict(kind='correspondence', name='Heap model vs billiard.heap.Heap',
                                   detail=json.dumps(dict(case=c, impl=o))[:4000]))
    return alarmed


def correspond(res, n, long_cases, long_ops, n_nested, search=0):
    """search = 0: the regular run; search = k > 0: k-th extra round of the failing-input search (other seeds,
    no corpus, no enumerated cases twice)"""
    rng = random.Random(res.seed * 6151 + 14 + 104729 * search)
    corpus = json.load(open(core.VERIF + '/corpus/C14.json')) if not search else []
    cases = corpus + gen_cases(rng, n, long_cases, long_ops)
    # frees issued from inside malloc/free by the same thread: their own generator (the histories above
    # are the same as before for a given seed)
    cases += gen_nested_cases(random.Random(res.seed * 7919 + 1414 + 104729 * search), n_nested)
    outs = core.run_driver('heap_driver.py', cases)
    judge(res, cases, outs, '')
    cases = [c for c, o in zip(cases, outs) if not o.get('skipped')]
    outs = [o for o in outs if not o.get('skipped')]
    hist = {}
    lens = {}
    nested = dict(in_malloc_before_drain=0, in_malloc_after_drain=0, in_free_before_drain=0, in_free_after_drain=0,
                  point_not_reached=0)
    lines = {}
    for c, o in zip(cases, outs):
        for j, (x, y) in enumerate(zip(c['ops'], effective_ops(c, o))):
            if x[0] in ('M', 'F') and j < len(o.get('aux') or []):
                if y[0] != x[0]:
                    nested['point_not_reached'] += 1
                else:
                    nested['in_%s_%s_drain' % ('malloc' if x[0] == 'M' else 'free', 'before' if x[2] < 0 else 'after')] += 1
                    if x[2] >= 0:
                        lines[(x[0], x[2])] = lines.get((x[0], x[2]), 0) + 1
    for c in cases:
        for o in c['ops']:
            hist[o[0]] = hist.get(o[0], 0) + 1
        b = min(len(c['ops']) // 20 * 20, 100)
        lens['%d+' % b] = lens.get('%d+' % b, 0) + 1
    nontrivial = {json.dumps(c, sort_keys=True) for c, o in zip(cases, outs)
                  if len(o['snap']['arenas']) >= 1 and any(x[0] in 'fdgMF' for x in c['ops'])
                  and sum(1 for x in c['ops'] if x[0] in 'mgM') >= 3}
    res.add_cov(evaluations=len(cases), distinct=len(nontrivial), traces=len(cases),
                samples=[dict(case=cases[min(len(corpus), len(cases) - 1)], impl=outs[min(len(corpus), len(cases) - 1)]['obs'])],
                rule='random/LIFO/FIFO/checkerboard/exact-fit histories of malloc, free, deferred free (lock held by '
                     'another thread) and free-during-malloc, page sizes 8/32/64/4096, plus enumerated boundary cases; '
                     'plus histories with frees issued by the same thread from inside malloc/free (on entry to '
                     '_free_pending_blocks, or at the t-th heap.py line after it returned, every t enumerated on '
                     'the boundary layouts); non-trivial = at least three mallocs and one free; distinct by canonical JSON',
                op_histogram=dict(malloc=hist.get('m', 0), free=hist.get('f', 0), deferred_free=hist.get('d', 0),
                                  malloc_with_gc_free=hist.get('g', 0), malloc_with_nested_free=hist.get('M', 0),
                                  free_with_nested_free=hist.get('F', 0)),
                nested_free_points=nested,
                nested_free_distinct_lines=dict(in_malloc=len([1 for k in lines if k[0] == 'M']),
                                                in_free=len([1 for k in lines if k[0] == 'F'])),
                history_length_histogram=lens,
                multi_arena_cases=sum(1 for o in outs if len(o['snap']['arenas']) >= 2),
                cases_ending_in_exception=sum(1 for o in outs if o['obs'] and o['obs'][-1][0]))
    return cases, outs


def real_arena(res, n):
    """thorough: the real mmap-backed Arena, a byte pattern in every live block re-read after every op"""
    rng = random.Random(res.seed * 31 + 1414)
    pg = mmap.PAGESIZE
    cases = []
    for _ in range(n):
        ops = gen_history(rng, pg, rng.choice([10, 30, 60]), rng.choice(['random', 'lifo', 'fifo', 'checker', 'exact']))
        cases.append(dict(pg=pg, size=pg, ops=ops, real=True))
    for _ in range(n // 3):     # with frees issued from inside malloc/free by the same thread
        cases.append(dict(pg=pg, size=pg, ops=gen_nested_history(rng, pg, rng.choice([10, 30, 60])), real=True))
    outs = core.run_driver('heap_driver.py', cases)
    judge(res, cases, outs, 'real')
    res.add_cov(evaluations=len(cases), traces=len(cases), real_arena_cases=len(cases),
                rule='real mmap arenas with byte patterns (thorough)')


def threads_scenario(res, n):
    """thorough: real threads on one heap; the final state must be a partition with coalesced free blocks and
    consistent indexes, and the live set must be exactly what the threads still hold"""
    cases = [dict(threads=4, n=1500, seed=res.seed * 100 + i, pg=64, size=64) for i in range(n)]
    outs = core.run_driver('heap_driver.py', cases)
    for c, o in zip(cases, outs):
        s = o['snap']
        bad = None
        if o['errors'] or any(o['alive']):
            bad = ('C14:valid-op-raised', 'threads: %s alive=%s' % (o['errors'][:3], o['alive']))
        else:
            g = gaps(s['arenas'], s['alloc'])
            free = sorted(tuple(b) for _, seq in s['l2s'] for b in seq)
            if g is None:
                bad = ('C14:overlap', 'threads: live blocks overlap: %s' % s['alloc'][:20])
            elif sorted(map(tuple, s['alloc'])) != sorted(map(tuple, o['live'])):
                bad = ('C14:live-set-wrong', 'threads: _allocated_blocks differs from the blocks the threads hold')
            elif free != sorted(g) or s['pending']:
                bad = ('C14:free-list-not-the-gaps', 'threads: free blocks %s, maximal free extents %s' % (free[:10], sorted(g)[:10]))
            elif sorted((tuple(k), tuple(b)) for k, b in s['s2b']) != sorted(((b[0], b[1]), b) for b in free) or \
                    sorted((tuple(k), tuple(b)) for k, b in s['e2b']) != sorted(((b[0], b[2]), b) for b in free) or \
                    s['lengths'] != sorted({b[2] - b[1] for b in free}):
                bad = ('C14:indexes-disagree', 'threads: indexes disagree')
        if bad:
            res.alarms.append(dict(signature=bad[0], what=bad[1], replay=dict(case=c, impl=dict(snap=s))))
    res.add_cov(evaluations=len(cases), traces=len(cases), real_thread_scenarios=len(cases),
                rule='4 real threads x 1500 malloc/free on one heap, final state judged (thorough)')


def run(res):
    res.proof_step('Props/C14.v', extra_targets=['Model/Heap.vo'], kernels_needed=['K_heap', 'G_heap'])
    if res.tier == 'quick':
        n, lc, lo, nn = 260, 2, 400, 200
    else:
        n, lc, lo, nn = 6000, 30, 2000, 4000
    correspond(res, n, lc, lo, nn)
    if res.broken and not res.alarms and res.tier == 'quick':
        # failing-input search: a proof, the translation or the correspondence is broken but no history on
        # which the property itself fails has been found yet -- look harder
        correspond(res, 3000, 2, 400, 800, search=1)
    if res.tier != 'quick':
        real_arena(res, 300)
        threads_scenario(res, 6)
    res.assumptions += [
        'the heap lock serialises malloc/free; a free that finds it taken only appends to the pending list (FreeDeferred)',
        'threading.Lock (the kind of lock extracted from Heap.__init__) cannot be acquired again by the thread that '
        'holds it; finalisers run by the garbage collector run in the thread that triggered the collection, between '
        'two lines of heap.py (sys.settrace line granularity in the driver; the model has seven points)',
        'list.append / list.pop on the pending list are atomic under the GIL',
        'mmap.PAGESIZE is a power of two >= 8',
        'bisect.bisect_left/insort (C implementation) behave as specified on sorted lists',
        'frees are valid: the block was returned by malloc and is freed once (BufferWrapper guarantees this through Finalize)',
        'the re-initialisation of the heap in a forked child (malloc: os.getpid() != _lastpid) is not modelled',
    ]


def replay(path):
    d = json.load(open(path))
    if 'replay' not in d:
        print(json.dumps(d.get('broken', d))[:3000])
        return 1
    c = d['replay']['case']
    out = core.run_driver('heap_driver.py', [c])[0]
    if 'threads' in c:
        print('thread scenario re-run; final state:', json.dumps(out['snap'])[:2000], out['errors'])
        return 0
    print('case:', json.dumps(c))
    print('implementation now:', json.dumps(out['obs']))
    m = monitor(c, out)
    print('monitor:', m or 'property holds on this trace')
    codes, _ = core.coq_eval('C14r', HEADER, [[to_coq(c, out)]])
    print('model agrees' if not codes else 'model disagrees')
    return 1 if (m or codes) else 0
