"""C20, concurrent clients: "each single operation from concurrent clients takes effect atomically".

Real scenario set run by harness/mgr_conc_driver.py: one real SyncManager server process, K real
client processes (fork / spawn / forkserver; proxies handed over as Process arguments) x T threads
sharing the client's proxy object, all W = K*T workers released together on ONE referent.  The
driver reports facts (every worker's history in program order, the final state read through the
parent's proxy, the reference counts read through debug_info()); the judgement is here.

case = dict(kind=<scenario> | 'suite', kinds=[<scenario> ...] (suite only), clients=K, threads=T, n=N,
            method='fork' | 'spawn' | 'forkserver')
scenarios: list_append list_pop dict_keys dict_setdefault dict_pop value_lock value_nolock queue slots
           refcount   (see the driver's docstring)

Signatures:
  C20:concurrent-update-lost              an item / key / increment missing, duplicated, wrong final value
  C20:concurrent-operation-not-atomic     an element popped twice, two (or no) winners of a pop(k) /
                                          setdefault race, one worker's order broken, IndexError on a
                                          non-empty list
  C20:refcount-differs-from-live-proxies  refcount read through debug_info() != proxies alive in all processes
  C20:referent-survives-all-proxies       still in the server after every proxy in every process is gone
  C20:referent-disposed-while-proxy-lives gone (or RemoteError KeyError <ident>) although proxies exist
  C20:client-operation-hangs-or-crashes   a client crashed / timed out / got an exception that is not the
                                          referent's own (e.g. RemoteError where KeyError was due)
"""
import json
import re

from vlib import core

DRIVER = 'mgr_conc_driver.py'
BIG = 100000
ALL_KINDS = ['list_append', 'list_pop', 'dict_keys', 'dict_setdefault', 'dict_pop', 'value_lock', 'value_nolock',
             'queue', 'slots', 'refcount']

LOST = 'C20:concurrent-update-lost'
NOTATOMIC = 'C20:concurrent-operation-not-atomic'
RCDIFF = 'C20:refcount-differs-from-live-proxies'
SURVIVES = 'C20:referent-survives-all-proxies'
DISPOSED = 'C20:referent-disposed-while-proxy-lives'
CRASH = 'C20:client-operation-hangs-or-crashes'
# the statement itself (lifetime) first, then atomicity, then the unspecific one
RANK = {DISPOSED: 0, SURVIVES: 1, NOTATOMIC: 2, LOST: 3, RCDIFF: 4, CRASH: 5}


def ref_reps(n):
    return max(4, n // 4)            # as in the driver


def kinds_of(case):
    return list(case['kinds']) if case['kind'] == 'suite' else [case['kind']]


def suite(kinds, K, T, n, method):
    if len(kinds) == 1:
        return dict(kind=kinds[0], clients=K, threads=T, n=n, method=method)
    return dict(kind='suite', kinds=list(kinds), clients=K, threads=T, n=n, method=method)


def build_cases(tier):
    if tier == 'quick':
        return [suite(ALL_KINDS, 3, 2, 48, 'fork'),
                suite(['list_pop', 'dict_setdefault', 'dict_pop', 'queue'], 6, 1, 40, 'fork'),
                suite(['list_append', 'dict_pop', 'value_lock'], 1, 6, 40, 'fork'),
                suite(['list_append', 'dict_pop', 'value_lock', 'refcount'], 2, 2, 24, 'forkserver'),
                suite(['list_pop', 'dict_setdefault', 'slots', 'refcount'], 2, 2, 24, 'spawn')]
    cases = []
    for method in ('fork', 'spawn', 'forkserver'):
        cases.append(suite(ALL_KINDS, 5, 3, 200, method))
        cases.append(suite(ALL_KINDS, 2, 2, 60, method))
    for _ in range(2):               # scheduling differs from run to run
        cases += [suite(ALL_KINDS, 8, 1, 150, 'fork'), suite(ALL_KINDS, 1, 8, 150, 'fork'),
                  suite(ALL_KINDS, 4, 4, 100, 'fork'), suite(ALL_KINDS, 3, 2, 48, 'fork')]
    cases += [suite(['list_append', 'list_pop', 'dict_pop', 'refcount'], 3, 3, 80, 'spawn'),
              suite(['dict_setdefault', 'value_lock', 'queue', 'refcount'], 3, 3, 80, 'forkserver')]
    return cases


# ------------------------------------------------------------------------------ monitors
def _is_exc(r, name=None):
    return isinstance(r, dict) and 'exc' in r and (name is None or r['exc'] == name)


def _short(xs, k=6):
    xs = list(xs)
    return '%s%s' % (xs[:k], '' if len(xs) <= k else ' ... (%d)' % len(xs))


def _multiset(xs):
    d = {}
    for x in xs:
        d[x] = d.get(x, 0) + 1
    return d


def _perm_check(tag, final, expected, W):
    """final must be a permutation of `expected` (distinct ints w*BIG+i) with every worker's items
    in that worker's order -> list of (signature, what)"""
    bad = []
    if not isinstance(final, list) or any(not isinstance(x, int) or isinstance(x, bool) for x in final):
        return [(CRASH, '%s: the final value read through the parent proxy is %s' % (tag, str(final)[:200]))]
    got = _multiset(final)
    exp = set(expected)
    missing = sorted(x for x in exp if x not in got)
    dup = sorted(x for x, c in got.items() if c > 1)
    extra = sorted(x for x in got if x not in exp)
    if missing or dup or extra:
        bad.append((LOST, '%s: %d operations acknowledged, the referent holds %d items; missing %s duplicated %s '
                          'foreign %s' % (tag, len(exp), len(final), _short(missing), _short(dup), _short(extra))))
    last = {}
    for pos, x in enumerate(final):
        w = x // BIG
        if w in last and last[w][0] >= x:
            bad.append((NOTATOMIC, '%s: items of worker %d out of its program order: %d (position %d) after %d '
                                   '(position %d)' % (tag, w, x, pos, last[w][0], last[w][1])))
            break
        last[w] = (x, pos)
    return bad


def scenario_monitor(kind, K, T, n, sc):
    """-> (list of (signature, what), info dict)"""
    W = K * T
    bad = []
    info = {}
    ws = sc.get('workers') or []
    tag = '%s K=%d T=%d N=%d' % (kind, K, T, n)
    if len(ws) != W:
        bad.append((CRASH, '%s: %d of %d workers reported' % (tag, len(ws), W)))
    recs = {}
    for wk in ws:
        if wk.get('crash'):
            bad.append((CRASH, '%s: worker %s: %s' % (tag, wk.get('tid'), wk['crash'])))
        recs[wk.get('tid')] = wk.get('rec') or []
    # exceptions that are not the referent's own
    own = {'list_pop': 'IndexError', 'dict_pop': 'KeyError'}.get(kind)
    for w in sorted(recs):
        for pos, (op, arg, r) in enumerate(recs[w]):
            if not _is_exc(r) or r['exc'] == own:
                continue
            if kind == 'dict_keys' and op == 'getitem' and r['exc'] == 'KeyError':
                bad.append((LOST, '%s: worker %d wrote d[%d] = %d and then d[%d] raised KeyError'
                                  % (tag, w, arg, 7 * arg + 1, arg)))
                break
            if r['exc'] == 'RemoteError' and re.match(r"^KeyError: '[0-9a-f]+'$", r.get('remote', '')):
                bad.append((DISPOSED, '%s: worker %d, operation %d %s(%s): the server does not know the referent any '
                                      'more (RemoteError %s) although the caller holds a proxy'
                                      % (tag, w, pos, op, arg, r['remote'])))
            else:
                bad.append((CRASH, '%s: worker %d, operation %d %s(%s) raised %s %s'
                                   % (tag, w, pos, op, arg, r['exc'], r.get('remote', ''))))
            break
    final = sc.get('final')
    if 'final' not in sc:
        bad.append((CRASH, '%s: the scenario did not finish' % tag))
        return bad, info
    if _is_exc(final):
        sig = DISPOSED if re.match(r"^KeyError: '[0-9a-f]+'$", final.get('remote', '')) else CRASH
        bad.append((sig, '%s: reading the final state through the parent proxy raised %s %s'
                         % (tag, final['exc'], final.get('remote', ''))))
        return bad, info
    info['ops'] = sum(len(r) for r in recs.values())
    t0 = [wk['t0'] for wk in ws if 't0' in wk]
    t1 = [wk['t1'] for wk in ws if 't1' in wk]
    if len(t0) == W and len(t1) == W and W > 1:
        info['overlap_all'] = min(t1) > max(t0)          # at some instant all W workers were inside their loops

    if kind in ('list_append', 'refcount'):
        reps = n if kind == 'list_append' else ref_reps(n)
        bad += _perm_check(tag, final, [w * BIG + i for w in range(W) for i in range(reps)], W)
        for w in sorted(recs):
            done = 0
            prev = 0
            for op, arg, r in recs[w]:
                if op in ('append', 'copy-append-drop') and not _is_exc(r):
                    done += 1
                elif op == 'len' and not _is_exc(r):
                    if r < done:
                        bad.append((LOST, '%s: worker %d had appended %d items and then read len() = %d'
                                          % (tag, w, done, r)))
                        break
                    if r < prev or r > W * reps:
                        bad.append((NOTATOMIC, '%s: worker %d read len() = %d after len() = %d (only appends run; '
                                               'at most %d items)' % (tag, w, r, prev, W * reps)))
                        break
                    prev = r
        if kind == 'refcount':
            smp = sc.get('samples') or []
            info['samples'] = len(smp)
            info['max_refcount_seen'] = max([s for s in smp if s is not None] or [0])
            for s in smp:
                if s is None:
                    bad.append((DISPOSED, '%s: while %d clients and the parent hold proxies the referent is not in '
                                          'debug_info()' % (tag, K)))
                    break
                if not K + 1 <= s <= K + 1 + W:
                    bad.append((RCDIFF, '%s: refcount %d sampled while %d clients + the parent hold one proxy each '
                                        'and each of the %d workers holds at most one copy (allowed %d..%d)'
                                        % (tag, s, K, W, K + 1, K + 1 + W)))
                    break

    elif kind == 'list_pop':
        M = W * n
        seen = {}
        for w in sorted(recs):
            vals = [r for op, arg, r in recs[w] if not _is_exc(r)]
            excs = [r for op, arg, r in recs[w] if _is_exc(r)]
            if not recs[w] or not _is_exc(recs[w][-1][2], 'IndexError') or len(excs) != 1:
                bad.append((CRASH, '%s: worker %d did not end with exactly one IndexError: %s'
                                   % (tag, w, json.dumps(recs[w][-2:]))))
            for x in vals:
                if x in seen:
                    bad.append((NOTATOMIC, '%s: element %r popped twice: by worker %d and by worker %d'
                                           % (tag, x, seen[x], w)))
                    break
                seen[x] = w
            mono = all(a < b for a, b in zip(vals, vals[1:])) if w % 2 else all(a > b for a, b in zip(vals, vals[1:]))
            if not mono:
                bad.append((NOTATOMIC, '%s: worker %d (%s) received elements out of order: %s'
                                       % (tag, w, 'pop(0)' if w % 2 else 'pop()', _short(vals, 12))))
        if final != []:
            bad.append((NOTATOMIC, '%s: every worker saw IndexError but the list still holds %s'
                                   % (tag, _short(final))))
        missing = [x for x in range(M) if x not in seen and x not in (final or [])]
        foreign = [x for x in seen if not (isinstance(x, int) and 0 <= x < M)]
        if missing or foreign:
            bad.append((LOST, '%s: of the %d initial elements %s were never popped and are not in the list; '
                              'foreign values popped %s' % (tag, M, _short(missing), _short(foreign))))
        info['pops_per_worker'] = sorted(len(recs[w]) - 1 for w in recs)

    elif kind == 'dict_keys':
        exp = {}
        for w in range(W):
            for i in range(n):
                k = w * BIG + i
                exp[k] = 7 * k + 1
                if i % 3 == 0:
                    exp[-k - 1] = 7 * k + 2
        got = dict((k, v) for k, v in final)
        wrong = sorted(k for k in exp if got.get(k) != exp[k])
        extra = sorted(k for k in got if k not in exp)
        if wrong or extra:
            bad.append((LOST, '%s: %d keys written, final dict has %d; keys missing or with a wrong value %s, '
                              'foreign keys %s' % (tag, len(exp), len(got), _short(wrong), _short(extra))))
        for w in sorted(recs):
            for op, arg, r in recs[w]:
                if op in ('getitem', 'get') and r != 7 * arg + 1:
                    bad.append((LOST, '%s: worker %d wrote d[%d] = %d and then read %s' % (tag, w, arg, 7 * arg + 1, r)))
                    break

    elif kind == 'dict_setdefault':
        got = dict((k, v) for k, v in final)
        res = {}
        for w in sorted(recs):
            for op, k, r in recs[w]:
                if not _is_exc(r):
                    res.setdefault(k, {})[w] = r
        winners = {}
        for k in range(n):
            vals = set(res.get(k, {}).values())
            if len(vals) > 1:
                bad.append((NOTATOMIC, '%s: setdefault(%d, <own id>) returned different values to the workers: %s; '
                                       'final d[%d] = %r' % (tag, k, json.dumps(res[k], sort_keys=True), k, got.get(k))))
                break
            if len(vals) == 1:
                v = list(vals)[0]
                winners[v] = winners.get(v, 0) + 1
                if got.get(k, 'absent') != v or not (isinstance(v, int) and 0 <= v < W):
                    bad.append((LOST, '%s: every worker got %r from setdefault(%d, ...) but the final d[%d] is %r'
                                      % (tag, v, k, k, got.get(k, 'absent'))))
                    break
        if sorted(got) != list(range(n)) and not bad:
            bad.append((LOST, '%s: final keys %s, expected 0..%d' % (tag, _short(sorted(got)), n - 1)))
        info['distinct_winners'] = len(winners)

    elif kind == 'dict_pop':
        winners = {}
        for w in sorted(recs):
            for op, k, r in recs[w]:
                if not _is_exc(r):
                    winners.setdefault(k, []).append([w, r])
        for k in range(n):
            ws_k = winners.get(k, [])
            if len(ws_k) != 1:
                bad.append((NOTATOMIC, '%s: pop(%d) on a dict that held the key once returned a value to %d workers '
                                       '%s (the others got KeyError)' % (tag, k, len(ws_k), json.dumps(ws_k))))
                break
            if ws_k[0][1] != 3 * k + 1:
                bad.append((LOST, '%s: pop(%d) returned %r, the dict held %d' % (tag, k, ws_k[0][1], 3 * k + 1)))
                break
        for w in sorted(recs):
            if len(recs[w]) != n:
                bad.append((CRASH, '%s: worker %d recorded %d of %d operations' % (tag, w, len(recs[w]), n)))
        if final != []:
            bad.append((NOTATOMIC, '%s: every key was popped by every worker but the dict still holds %s'
                                   % (tag, _short(final))))
        info['distinct_winners'] = len(set(v[0][0] for v in winners.values() if v))

    elif kind == 'value_lock':
        reads = [r for w in sorted(recs) for op, arg, r in recs[w] if not _is_exc(r)]
        if final != W * n:
            bad.append((LOST, '%s: %d increments under the manager Lock, final value %r' % (tag, W * n, final)))
        ms = _multiset(reads)
        dup = sorted(x for x, c in ms.items() if c > 1)
        if dup:
            bad.append((LOST, '%s: values read twice inside `with lock:` (two holders at once, or a set() lost): %s'
                              % (tag, _short(dup))))
        elif sorted(ms) != list(range(W * n)) and final == W * n:
            bad.append((LOST, '%s: values read under the lock are not 0..%d: %s' % (tag, W * n - 1, _short(sorted(ms)))))
        for w in sorted(recs):
            vals = [r for op, arg, r in recs[w] if not _is_exc(r)]
            if any(a >= b for a, b in zip(vals, vals[1:])):
                bad.append((NOTATOMIC, '%s: worker %d read a non-increasing sequence under the lock: %s'
                                       % (tag, w, _short(vals, 12))))
                break

    elif kind == 'value_nolock':
        # get and set are separately atomic: lost updates are allowed; information only
        if not (isinstance(final, int) and 1 <= final <= W * n):
            bad.append((NOTATOMIC, '%s: %d unlocked increments, final value %r is outside 1..%d'
                                   % (tag, W * n, final, W * n)))
        else:
            info['lost_without_lock'] = W * n - final

    elif kind == 'queue':
        got = sc.get('got') or []
        starved = any(_is_exc(x) for x in got)
        if starved:
            bad.append((LOST, '%s: the consumer received %d of %d items, then get(timeout=60) raised %s'
                              % (tag, len(got) - 1, W * n, got[-1]['exc'])))
            got = [x for x in got if not _is_exc(x)]
        bad += [b for b in _perm_check(tag, got, [w * BIG + i for w in range(W) for i in range(n)], W)
                if not (b[0] == LOST and starved)]
        if final != [0, True]:
            bad.append((LOST, '%s: after %d gets qsize(), empty() = %r' % (tag, W * n, final)))

    elif kind == 'slots':
        for w in sorted(recs):
            cur = {'a': None, 'n': None}
            for op, arg, r in recs[w]:
                if op in ('aset', 'nset'):
                    cur[op[0]] = arg
                elif op in ('aget', 'nget') and r != cur[op[0]]:
                    bad.append((LOST, '%s: worker %d wrote %r into its own %s slot and read back %r'
                                      % (tag, w, cur[op[0]], 'Array' if op == 'aget' else 'Namespace', r)))
                    break
        if final != [[n] * W, W, [n] * W]:
            bad.append((LOST, '%s: final Array / len / Namespace slots %s, expected all %d'
                              % (tag, json.dumps(final)[:200], n)))
    else:
        bad.append((CRASH, 'unknown scenario %r' % (kind,)))
    return bad, info


def steps_monitor(case, obs):
    """reference counts after every step -> list of (signature, what, scenario index or None)"""
    K = case['clients']
    kinds = kinds_of(case)
    bad = []
    names = obs.get('names') or []
    for st in obs.get('steps') or []:
        step = st['step']
        want = {'created': 1, 'exited': 1, 'dropped': 0}.get(step, K + 1)
        holders = {'created': 'the parent holds one proxy, no client started',
                   'exited': 'every client exited orderly, the parent holds one proxy',
                   'dropped': 'no process holds a proxy'}.get(step, '%d clients (%s) and the parent hold one proxy each'
                                                                    % (K, case['method']))
        for name in names:
            j = int(name.split('.')[0])
            what = 'step %s, %s referent %s: ' % (step, kinds[j], name)
            rc = st['rc'].get(name)
            if want and rc is None:
                bad.append((DISPOSED, what + 'not in the server although ' + holders, j))
            elif not want and rc is not None:
                bad.append((SURVIVES, what + 'still in the server with refcount %d although %s' % (rc, holders), j))
            elif want and rc != want:
                bad.append((RCDIFF, what + 'refcount %d, but %s' % (rc, holders), j))
        if step == 'dropped' and (st['numobj'] != 0 or st['unknown']) and not any(b[0] == SURVIVES for b in bad):
            bad.append((SURVIVES, 'step dropped: number_of_objects() = %r (%d foreign entries) although no process '
                                  'holds a proxy' % (st['numobj'], st['unknown']), None))
        elif st['numobj'] != len(st['rc']) + st['unknown']:
            bad.append((RCDIFF, 'step %s: number_of_objects() = %r, debug_info() shows %d entries'
                                % (step, st['numobj'], len(st['rc']) + st['unknown']), None))
    return bad


def conc_monitor(case, obs):
    """-> (failures [(signature, what, scenario index or None)], infos [(kind, info)])"""
    K, T, n = case['clients'], case['threads'], case['n']
    kinds = kinds_of(case)
    bad = []
    infos = []
    scen = obs.get('scen') or []
    if obs.get('error'):           # the scenario that was running when the case broke off comes first
        jj = len(scen) - 1 if scen and 'final' not in scen[-1] else None
        bad.append((CRASH, 'K=%d T=%d N=%d, %s: %s' % (K, T, n, 'scenario ' + kinds[jj] if jj is not None else
                                                      'scenarios ' + ','.join(kinds), obs['error']), jj))
    for j, kind in enumerate(kinds):
        if j >= len(scen):
            break
        b, info = scenario_monitor(kind, K, T, n, scen[j])
        bad += [(s, w, j) for s, w in b]
        infos.append((kind, info))
    bad += steps_monitor(case, obs)
    if not obs.get('error'):
        if len(scen) != len(kinds):
            bad.append((CRASH, 'only %d of %d scenarios ran' % (len(scen), len(kinds)), None))
        if obs.get('exits') != [0] * K:
            bad.append((CRASH, 'exit codes of the %d clients after an orderly exit: %r' % (K, obs.get('exits')), None))
    return bad, infos


def restrict(case, obs, j):
    """the scenario j alone: the smaller case and the part of the observation that concerns it"""
    kinds = kinds_of(case)
    if j is None or len(kinds) == 1:
        return case, trim(obs)
    c1 = suite([kinds[j]], case['clients'], case['threads'], case['n'], case['method'])
    pre = '%d.' % j
    o1 = dict(obs)
    o1['scen'] = [obs['scen'][j]] if j < len(obs.get('scen') or []) else []
    o1['names'] = [x for x in obs.get('names', []) if x.startswith(pre)]
    o1['steps'] = [dict(st, rc=dict((k, v) for k, v in st['rc'].items() if k.startswith(pre)))
                   for st in obs.get('steps', []) if not st['step'].startswith('after:') or st['step'] == 'after:%d' % j]
    o1['restricted_from'] = dict(kinds=kinds, index=j)
    return c1, trim(o1)


def trim(obs, limit=40000):
    """the observation as stored in an alarm: long histories are cut (the `what` line names the witness)"""
    if len(json.dumps(obs)) <= limit:
        return obs
    o = dict(obs)
    o['scen'] = []
    for sc in obs.get('scen') or []:
        s = dict(sc)
        s['workers'] = [dict(wk, rec=(wk.get('rec') or [])[:25], rec_len=len(wk.get('rec') or []))
                        for wk in sc.get('workers') or []]
        for key in ('final', 'got', 'samples'):
            if isinstance(s.get(key), list) and len(s[key]) > 60:
                s[key] = s[key][:60] + ['... %d in all' % len(s[key])]
        o['scen'].append(s)
    o['trimmed'] = True
    return o


def evaluate(case, obs):
    """-> (alarms of this case: one per signature, gravest first; infos)"""
    bad, infos = conc_monitor(case, obs)
    first = {}
    for sig, what, j in bad:
        if sig not in first:
            first[sig] = (what, j, sum(1 for b in bad if b[0] == sig))
    alarms = []
    for sig in sorted(first, key=lambda s: RANK.get(s, 9)):
        what, j, cnt = first[sig]
        c1, o1 = restrict(case, obs, j)
        alarms.append(dict(signature=sig,
                           what='(concurrent clients, real SyncManager server, %s) %s%s'
                                % (case['method'], what, '' if cnt == 1 else ' [+%d more of this class]' % (cnt - 1)),
                           replay=dict(mode='conc', case=c1, impl=o1)))
    return alarms, infos


def run_cases(cases, timeout):
    outs = []
    for ch in core.chunks(cases, 6):          # (one manager and one set of clients per case)
        outs += core.run_driver(DRIVER, dict(cases=ch), timeout=timeout)
    return outs


def correspond_conc(res, only=None):
    cases = list(only) if only is not None else build_cases(res.tier)
    try:
        outs = run_cases(cases, 600 if res.tier == 'quick' else 2400)
    except Exception as e:          # noqa  (DriverError / TimeoutExpired: the driver itself failed)
        res.alarms.append(dict(signature=CRASH,
                               what='(concurrent clients) the driver did not deliver observations: %s'
                                    % str(e).strip().split('\n')[0][:300],
                               replay=dict(mode='conc', case=cases[0] if cases else None, impl=None)))
        res.add_cov(rule='concurrent clients: driver failed')
        return
    hist = {}
    runs = 0
    nontrivial = set()
    workers = 0
    for c, o in zip(cases, outs):
        alarms, infos = evaluate(c, o)
        res.alarms += alarms
        K, T, n = c['clients'], c['threads'], c['n']
        hist['method:' + c['method']] = hist.get('method:' + c['method'], 0) + 1
        hist['shape:K%dxT%d' % (K, T)] = hist.get('shape:K%dxT%d' % (K, T), 0) + 1
        for kind, info in infos:
            runs += 1
            workers += K * T
            hist[kind] = hist.get(kind, 0) + 1
            hist['operations'] = hist.get('operations', 0) + info.get('ops', 0)
            if info.get('overlap_all'):
                hist['all_workers_overlapped'] = hist.get('all_workers_overlapped', 0) + 1
                nontrivial.add((kind, K, T, n, c['method']))
            if 'lost_without_lock' in info:
                hist['unlocked_increments'] = hist.get('unlocked_increments', 0) + K * T * n
                hist['unlocked_increments_lost(allowed)'] = hist.get('unlocked_increments_lost(allowed)', 0) + \
                    info['lost_without_lock']
            if 'max_refcount_seen' in info:
                hist['refcount_samples'] = hist.get('refcount_samples', 0) + info['samples']
                hist['max_refcount_sampled'] = max(hist.get('max_refcount_sampled', 0), info['max_refcount_seen'])
            if kind in ('dict_setdefault', 'dict_pop') and info.get('distinct_winners', 0) > 1:
                hist['races_with_several_winning_workers'] = hist.get('races_with_several_winning_workers', 0) + 1
        hist['refcount_steps_checked'] = hist.get('refcount_steps_checked', 0) + len(o.get('steps') or [])
    res.add_cov(evaluations=runs, distinct=len(nontrivial), traces=workers,
                rule='concurrent clients: a real SyncManager server process, K client processes (fork / spawn / '
                     'forkserver, proxies as Process arguments) x T threads sharing the client\'s proxy, all released '
                     'together on one referent: list append / pop, dict distinct keys / setdefault race / pop(k) race, '
                     'Value increments under a manager Lock, Queue producers with a concurrent consumer, Array and '
                     'Namespace slots, proxy copy/drop churn with sampled refcounts; monitors: no lost or duplicated '
                     'update, one winner per race, per-worker order, refcount = live proxies after start / every '
                     'scenario / orderly exit / drop; distinct = scenario runs (kind, K, T, N, method) in which all '
                     'K*T workers were inside their loops at the same instant (monotonic clock)',
                conc_histogram=hist)


def replay_conc(case, repeat=5):
    """rerun one case (scheduling differs from run to run: up to `repeat` runs, stops at the first
    failing one), print what happened and the monitor verdicts; 1 if a monitor fails else 0"""
    print('case:', json.dumps(case))
    for run in range(1, repeat + 1):
        try:
            obs = core.run_driver(DRIVER, dict(cases=[case]), timeout=600)[0]
        except Exception as e:          # noqa
            print('run %d: the driver did not deliver an observation: %s' % (run, str(e)[:500]))
            return 1
        print('run %d, implementation now:' % run)
        if obs.get('error'):
            print('   error:', obs['error'])
        for st in obs.get('steps') or []:
            print('   step %-9s refcounts %s objects %s' % (st['step'], json.dumps(st['rc'], sort_keys=True), st['numobj']))
        for kind, sc in zip(kinds_of(case), obs.get('scen') or []):
            ws = sc.get('workers') or []
            print('   %-15s %d workers, %d operations, final %s' % (
                kind, len(ws), sum(len(w.get('rec') or []) for w in ws), json.dumps(sc.get('final'))[:120]))
            for w in ws[:2]:
                print('      worker %s: %s ...' % (w.get('tid'), json.dumps(w.get('rec') or [])[:160]))
        print('   client exit codes', obs.get('exits'))
        alarms, infos = evaluate(case, obs)
        if alarms:
            for a in alarms:
                print('   %s: %s' % (a['signature'], a['what']))
            return 1
        print('   monitors satisfied (no lost / duplicated update, one winner per race, per-worker order, '
              'refcount = live proxies at every step)')
    return 0
