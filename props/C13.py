"""C13 -- connections deliver every message intact, in order, within bounds.

Tie: (a) Gen/K_framing.v is regenerated from connection.py on every run (argument checks of
send_bytes / recv_bytes / recv_bytes_into, _check_*, _bad_message_length, the header format,
the 16384 threshold, the maxsize test, the decision expressions of the _send/_recv loops) and
proved equal to Model.Framing; (b) the real Connection runs over an oracle-scripted OS (short
writes/reads, EINTR, I/O errors, peer closing at any byte) on pipes, socket pairs and memory,
and every observable is compared with the proved model inside Coq; buffers of every shape
(multi-dimensional memoryviews, ctypes arrays, array.array casts, 0-dimensional ctypes scalars)
are sent, and a send-side monitor checks that the wire is the framing of the bytes that were named."""
import json
import random
from vlib import core
from vlib.core import cz, copt, clist, cbool

MANIFEST = dict(
    text='Theorems (Coq, all messages / all OS scripts): the bytes written by send_bytes are exactly '
         'header+payload on both sides of the 16384 threshold and a prefix of it on an I/O error; '
         'any message list sent under any write script and read under any read script (short reads, '
         'EINTR) comes back identical, in order, with boundaries, leaving later bytes untouched; a '
         'stream ending at a boundary gives EOFError, inside a header or payload OSError, right after a '
         'header EOFError, never a short message; maxlength exceeded raises with the payload unread and '
         'the connection unreadable/closed; BufferTooShort carries the whole message; bad '
         'offsets/sizes/closed/wrong-direction handles are rejected before any I/O; a sender stopped by an OS '
         'error leaves k whole messages and a proper prefix, the receiver delivers the k and raises. '
         'Buffers of any shape (bytes, item size, shape): on every flat view (1-D bytes, or items wider than a '
         'byte) send_bytes is the 1-D function (all theorems apply); for multi-dimensional byte buffers the '
         'exact wire is proved (header = first dimension) and the property is refuted with witnesses '
         '(C13_send_shaped_refuted, C13_send_shaped_spin_refuted, C13_into_shaped_refuted). The _send/_recv '
         'loops and _send_bytes/_recv_bytes rebuilt from the generated fragments are proved equal to the model '
         'loops for every script. '
         'Correspondence of the real Connection against the model on scripted pipes, socket pairs and '
         'memory streams.',
    note='Trusted: Coq kernel, translator + kernels/framing.py, harness seams (write=/read= default '
         'arguments), FIFO semantics of pipes/sockets, struct.pack/unpack("!i") modelled as be32/dec32, '
         'byte strings above 128 bytes compared by (length, sum, position-weighted sum). '
         'All property theorems: Closed under the global context.',
    technique='Coq proof over translator-regenerated kernels + differential correspondence with an oracle-driven OS',
    ref='5.13',
)

HEADER = '''From Coq Require Import ZArith List Bool.
From BV Require Import Lib.Cases Model.Framing.
Import ListNotations. Open Scope Z_scope.
Definition check_case := Framing.check_case.'''

SIG_INTO = 'C13:recv_bytes_into-multibyte-items-misplaced-or-truncated'
SIG_DIFF = 'C13:implementation-differs-from-proved-model'
SIG_HUGE = 'C13:oversized-message-not-rejected-before-io'
SIG_OBJ = 'C13:send-recv-objects-not-delivered-in-order'
SIG_SHAPE = 'C13:send_bytes-multidim-byte-buffer-framed-by-first-dimension'
SIG_SENDMON = 'C13:send-monitor'


# ------------------------------------------------------------------ rendering
def c_bsrc(s):
    if s[0] == 'raw':
        return '(BRaw %s)' % clist(s[1])
    return '(BPat %s %s %s)' % (cz(s[1]), cz(s[2]), cz(s[3]))


def c_blob(b):
    if b[0] == 'raw':
        return '(ORaw %s)' % clist(b[1])
    return '(ODig %s %s %s)' % (cz(b[1]), cz(b[2]), cz(b[3]))


def c_flags(f):
    return '(%s, %s, %s)' % tuple(cbool(x) for x in f)


def c_wo(r):
    return {'a': lambda: '(WAccept %s)' % cz(r[1]), 'i': lambda: 'WEintr', 'e': lambda: 'WErr'}[r[0]]()


def c_ro(r):
    return {'c': lambda: '(RChunk %s)' % cz(r[1]), 'i': lambda: 'REintr', 'e': lambda: 'RErr'}[r[0]]()


def c_sop(op):
    if op[0] == 'close':
        return 'CSClose'
    if isinstance(op[2], list):          # ['shaped', how, itemsize, shape]
        return '(CSendSh %s %s %s %s %s)' % (c_bsrc(op[1]), cz(op[2][2]), clist(op[2][3]), cz(op[3]), copt(op[4]))
    return '(CSend %s %s %s)' % (c_bsrc(op[1]), cz(op[3]), copt(op[4]))


def c_rop(op):
    if op[0] == 'close':
        return 'CRClose'
    if op[0] == 'recv':
        return '(CRecv %s)' % copt(op[1])
    if len(op) > 4:                      # ['into', spec, itemsize, offset, how, shape]
        return '(CIntoSh %s %s %s %s)' % (c_bsrc(op[1]), cz(op[2]), clist(op[5]), cz(op[3]))
    return '(CInto %s %s %s)' % (c_bsrc(op[1]), cz(op[2]), cz(op[3]))


def c_3(f):
    return ' '.join(cbool(x) for x in f)


def to_coq(c, o):
    sobs = clist(o['sobs'], lambda x: 'SO %s %s' % (cz(x[0]), c_3(x[1])))
    robs = clist(o['robs'], lambda x: 'RO %s %s %s %s %s' % (
        cz(x[0]), c_blob(x[1]), cz(x[2]), c_blob(x[3]), c_3(x[4])))
    return 'Case %s %s %s %s %s %s %s %s %s %s\n  %s %s %s %s %s %s' % (
        cbool(c['sflags'][0]), cbool(c['sflags'][1]), clist(c['wo'], c_wo), clist(c['sops'], c_sop),
        c_bsrc(c['extra']), copt(c['cut']),
        cbool(c['rflags'][0]), cbool(c['rflags'][1]), clist(c['ro'], c_ro), clist(c['rops'], c_rop),
        sobs, c_blob(o['wire']), clist(o['wtrace']), robs, cz(o['left']), clist(o['rtrace']))


# ------------------------------------------------------------------ generation
EMPTY = ['raw', []]
SMALL_LENS = [0, 0, 1, 1, 2, 3, 4, 5, 7, 8, 16, 31, 100, 127, 128, 129, 255, 256, 1000]
EDGE_LENS = [16380, 16383, 16384, 16385, 16379, 16381, 16388, 16389]


def bspec(rng, n):
    if n <= 24 and rng.random() < 0.7:
        return ['raw', [rng.choice([0, 1, 10, 65, 127, 128, 254, 255, rng.randrange(256)]) for _ in range(n)]]
    return ['pat', n, rng.randrange(0, 1000), rng.randrange(0, 7)]


def mk(transport='mem', sflags=(False, True), wo=(), sops=(), extra=None, cut=None,
       rflags=(True, False), ro=(), rops=()):
    return dict(transport=transport, sflags=list(sflags), wo=[list(x) for x in wo],
                sops=[list(x) for x in sops], extra=extra or EMPTY, cut=cut,
                rflags=list(rflags), ro=[list(x) for x in ro], rops=[list(x) for x in rops])


def send(spec, kind='bytes', off=0, size=None):
    return ['send', spec, kind, off, size]


def blen(spec):
    return len(spec[1]) if spec[0] == 'raw' else spec[1]


def prod(xs):
    out = 1
    for x in xs:
        out *= x
    return out


def shaped(how, it, shape):
    return ['shaped', how, it, list(shape)]


def rand_shaped_send(rng, lens):
    """a send_bytes call on a buffer object that is not a 1-D buffer of bytes (or is one, built the
    long way): multi-dimensional memoryviews over bytes / bytearray / array.array, nested ctypes
    arrays, items of 1, 2, 4 bytes, dimensions of 0, ctypes scalars; offsets / sizes in the range
    of rows and in the range of bytes, and just outside both"""
    it = rng.choice([1, 1, 1, 1, 2, 4])
    r = rng.random()
    if r < 0.06:
        shape = []
    elif r < 0.16:
        shape = [rng.choice([0, 1, 2, 5, 17])]
    elif r < 0.75:
        shape = [rng.choice([0, 1, 2, 3, 3, 4, 7, 16]), rng.choice([0, 1, 2, 2, 3, 4, 8])]
    elif r < 0.93:
        shape = [rng.choice([1, 2, 3]), rng.choice([1, 2, 3]), rng.choice([1, 2, 4])]
    else:
        shape = [rng.choice([16383, 16384, 16385, 16386]) if 16384 in lens or 16385 in lens else 40, 2]
    how = 'ctypes' if (not shape or 0 in shape) else rng.choice(['mvcast', 'mvcast', 'ctypes', 'arraycast', 'bytearraycast'])
    nbytes = it * prod(shape)
    rows = shape[0] if shape else 1
    off = rng.choice([0, 0, 0, 0, 1, 2, rows, rows + 1, nbytes, nbytes + 1, -1])
    size = rng.choice([None, None, None, 0, 1, 2, rows - off, rows - off + 1, nbytes - off, nbytes - off + 1, -1])
    return send(bspec(rng, nbytes), shaped(how, it, shape), off, size)


def rand_wo(rng, big=False):
    out = []
    for _ in range(rng.choice([0, 0, 1, 2, 3, 5, 8, 12])):
        r = rng.random()
        if r < 0.2:
            out.append(['i'])
        elif r < 0.23:
            out.append(['e'])
        else:
            out.append(['a', rng.choice([0, 1, 1, 2, 3, 4, 5, 7, 100, 4096, 16384, 16388, 10 ** 6])])
    return out


def rand_ro(rng):
    out = []
    for _ in range(rng.choice([0, 0, 1, 2, 3, 5, 8, 12, 20])):
        r = rng.random()
        if r < 0.2:
            out.append(['i'])
        elif r < 0.22:
            out.append(['e'])
        else:
            out.append(['c', rng.choice([0, 1, 1, 1, 2, 3, 4, 5, 7, 100, 4096, 16384, 10 ** 6])])
    return out


def rand_case(rng, lens, transports):
    transport = rng.choice(transports)
    sflags = rng.choice([(False, True)] * 6 + [(True, True)] * 3 + [(True, False)])
    rflags = rng.choice([(True, False)] * 6 + [(True, True)] * 3 + [(False, True)])
    sops = []
    wire_len = 0
    msg_lens = []
    closed = False
    for _ in range(rng.choice([0, 1, 1, 2, 2, 3, 4])):
        if rng.random() < 0.04:
            sops.append(['close'])
            closed = True
            continue
        if rng.random() < 0.12:
            op = rand_shaped_send(rng, lens)
            sops.append(op)
            guess = op[4] if op[4] is not None and op[4] >= 0 else max(0, blen(op[1]) - max(0, op[3]))
            wire_len += 4 + guess
            msg_lens.append(min(guess, (op[2][3] or [1])[0]))
            continue
        n = rng.choice(lens)
        pre = rng.choice([0, 0, 0, 1, 3])
        post = rng.choice([0, 0, 0, 1, 2])
        spec = bspec(rng, pre + n + post)
        off, size = pre, (n if post or rng.random() < 0.5 else None)
        r = rng.random()
        bad = False
        if r < 0.04:
            off, bad = -1, True
        elif r < 0.08:
            off, size, bad = pre + n + post + 1, None, True
        elif r < 0.11:
            size, bad = -1, True
        elif r < 0.15:
            size, bad = n + post + 1, True
        kind = rng.choice(['bytes', 'bytes', 'bytearray', 'memoryview', 'array'])
        sops.append(send(spec, kind, off, size))
        if not bad and not closed and sflags[1]:
            wire_len += 4 + (size if size is not None else pre + n + post - off)
            msg_lens.append(size if size is not None else pre + n + post - off)
    extra = EMPTY
    r = rng.random()
    if r < 0.05:
        extra = ['raw', rng.choice([[255, 255, 255, 255], [128, 0, 0, 0, 1, 2], [0, 0, 0, 10, 1, 2, 3],
                                    [0, 0, 0], [0, 0, 0, 0], [127, 255, 255, 255, 9], [0, 0, 1, 0] + [7] * 100])]
    total = wire_len + blen(extra)
    cut = None
    if rng.random() < 0.35:
        cut = rng.randint(0, total + 1)
    rops = []
    k = 0
    for _ in range(len(msg_lens) + rng.choice([0, 1, 1, 2])):
        if rng.random() < 0.03:
            rops.append(['close'])
            continue
        n = msg_lens[k] if k < len(msg_lens) else rng.choice([0, 1, 5])
        k += 1
        if rng.random() < 0.6:
            mx = rng.choice([None, None, None, n, n + 1, n - 1, n + 100, 0, -1, 10 ** 9])
            rops.append(['recv', mx])
        else:
            it = rng.choice([1, 1, 1, 1, 1, 1, 2, 4, 8])
            off = rng.choice([0, 0, 1, 2, 3, it, 2 * it])
            room = rng.choice([n, n, n + 1, n + 5, n - 1, max(0, n - 3), 0])
            bytesize = max(0, off + room)
            bytesize = -(-bytesize // it) * it if rng.random() < 0.7 else (bytesize // it) * it
            r = rng.random()
            if r < 0.04:
                off = -1
            elif r < 0.08:
                off = bytesize + 1
            if rng.random() < 0.2:
                # a buffer with more than one dimension (or none): len() is its first dimension
                it = rng.choice([1, 1, 1, 2, 4])
                shape = rng.choice([[3, 4], [2, 2, 3], [4, 1], [1, 8], [max(1, -(-n // it)), 2], [n + 1, 1], [], [0, 4], [2, 0]])
                how = 'ctypes' if (not shape or 0 in shape) else rng.choice(['bytearraycast', 'arraycast', 'ctypes'])
                off = rng.choice([0, 0, 0, 1, it, shape[0] if shape else 0, 2 * it, -1])
                rops.append(['into', ['pat', it * prod(shape), rng.randrange(1000), 1], it, off, how, shape])
                continue
            rops.append(['into', ['pat', bytesize, rng.randrange(1000), 1], it, off])
    return mk(transport, sflags, rand_wo(rng), sops, extra, cut, rflags, rand_ro(rng), rops)


def boundary_cases(tier):
    out = []
    m3 = [['raw', [1, 2, 3]], ['raw', []], ['raw', [9, 8, 7, 6, 5]]]
    total = sum(4 + blen(m) for m in m3)
    # the peer closes after every possible byte count of a three-message stream
    for cut in range(total + 1):
        for ro in ([], [['c', 1]] * 24, [['c', 2], ['i'], ['c', 3]] * 6):
            out.append(mk('mem', sops=[send(m) for m in m3], cut=cut, ro=ro, rops=[['recv', None]] * 4))
    for cut in range(total + 1):
        out.append(mk('pipe' if cut % 2 else 'socket', sops=[send(m) for m in m3], cut=cut,
                      ro=[['c', 1], ['i'], ['c', 2]], rops=[['recv', None]] * 4))
        out.append(mk('mem', sops=[send(m) for m in m3], cut=cut, ro=[['c', 3]] * 5,
                      rops=[['into', ['pat', 6, cut, 1], 1, 1]] * 4))
    # every small length, each transport
    for n in range(0, 10):
        for tr in ('pipe', 'socket', 'mem'):
            out.append(mk(tr, wo=[['a', 1], ['i'], ['a', 2]], sops=[send(['pat', n, n, 3]), send(['pat', n + 1, 5, 1])],
                          ro=[['c', 1], ['i'], ['c', 3]], rops=[['recv', None], ['recv', n + 1]]))
    # the concatenation threshold, short writes on both sides of it
    for n in (16383, 16384, 16385):
        for tr, kind in (('pipe', 'bytes'), ('socket', 'memoryview'), ('mem', 'bytearray')):
            out.append(mk(tr, wo=[['a', 1], ['a', 3], ['i'], ['a', 16384], ['a', 1]],
                          sops=[send(['pat', n, 11, 2], kind), send(['pat', 2, 1, 1])],
                          ro=[['c', 2], ['c', 2], ['c', 5000], ['i'], ['c', 1]],
                          rops=[['recv', None], ['recv', None], ['recv', None]]))
        out.append(mk('mem', sops=[send(['pat', n + 9, 4, 2], 'memoryview', 4, n)],
                      rops=[['into', ['pat', n + 2, 1, 1], 1, 1]]))
        out.append(mk('mem', sops=[send(['pat', n, 4, 2])], rops=[['into', ['pat', n + 2, 1, 1], 1, 3]]))
    # maxlength on both sides of the message length; read-only vs duplex handle
    for L in (0, 1, 5):
        for mx in (L - 1, L, L + 1):
            for rfl in ((True, False), (True, True)):
                out.append(mk('mem', sops=[send(['pat', L, 1, 1]), send(['raw', [7]])], rflags=rfl,
                              rops=[['recv', mx], ['recv', None]]))
    # recv_bytes_into: room exactly, one short, one spare; offsets at the edges
    for L in (0, 1, 4):
        for off in (-1, 0, 2):
            for room in (L - 1, L, L + 1):
                bs = max(0, max(off, 0) + room)
                out.append(mk('mem', sops=[send(['pat', L, 3, 1]), send(['raw', [5, 6]])],
                              rops=[['into', ['pat', bs, 9, 1], 1, off], ['recv', None]]))
        out.append(mk('mem', sops=[send(['pat', L, 3, 1])], rops=[['into', ['pat', 4, 9, 1], 1, 4]]))
        out.append(mk('mem', sops=[send(['pat', L, 3, 1])], rops=[['into', ['pat', 4, 9, 1], 1, 5]]))
    # send_bytes argument validation: buffer of 10 bytes
    for off in (-1, 0, 5, 10, 11):
        for size in (None, -1, 0, 5, 6, 10, 11):
            out.append(mk('mem', sops=[send(['pat', 10, 2, 1], 'bytearray', off, size)], rops=[['recv', None]]))
    # closed and wrong-direction handles: nothing may reach the OS
    out.append(mk('pipe', sflags=(True, False), sops=[send(['raw', [1]])], rops=[['recv', None]]))
    out.append(mk('pipe', rflags=(False, True), sops=[send(['raw', [1]])], rops=[['recv', None], ['into', ['pat', 4, 1, 1], 1, 0]]))
    out.append(mk('socket', sops=[send(['raw', [1]]), ['close'], send(['raw', [2]])],
                  rops=[['recv', None], ['close'], ['recv', None], ['into', ['pat', 4, 1, 1], 1, 0]]))
    # hostile / malformed streams
    out.append(mk('mem', extra=['raw', [255, 255, 255, 255, 1, 2]], rops=[['recv', None], ['recv', None]]))
    out.append(mk('mem', extra=['raw', [128, 0, 0, 0]], rops=[['recv', 0], ['recv', None]]))
    out.append(mk('mem', extra=['raw', [127, 255, 255, 255, 1]], rops=[['recv', None]]))
    out.append(mk('mem', extra=['raw', [127, 255, 255, 255, 1]], rflags=(True, True), rops=[['recv', 100], ['recv', None]]))
    # buffers with items wider than a byte (aligned use)
    for it in (2, 4, 8):
        out.append(mk('mem', sops=[send(['pat', 2 * it, 3, 1])], rops=[['into', ['pat', 4 * it, 9, 1], it, it]]))
    if tier != 'quick':
        for n in (65535, 65536, 65537, 1 << 20):
            for tr in ('pipe', 'socket'):
                out.append(mk(tr, wo=[['a', 5], ['i'], ['a', 70000], ['a', 1]],
                              sops=[send(['pat', n, 7, 3], 'memoryview'), send(['raw', [1, 2, 3]])],
                              ro=[['c', 1], ['c', 3], ['c', 65536], ['i'], ['c', 9]],
                              rops=[['recv', None], ['recv', 3], ['recv', None]]))
        out.append(mk('pipe', sops=[send(['pat', 1 << 20, 7, 3])], cut=(1 << 19),
                      rops=[['recv', None]]))
        out.append(mk('pipe', sops=[send(['pat', 1 << 20, 7, 3])],
                      rops=[['into', ['pat', (1 << 20) + 8, 1, 1], 1, 8], ['recv', None]]))
    return out


def shaped_cases(tier):
    """send_bytes on buffers that are not 1-D buffers of bytes; always run.  The first group is
    the finding (items of one byte, more than one dimension: the header counts rows), the second
    group must be delivered intact (the code copies wide items to flat bytes; 1-D views)."""
    grid = ['raw', list(range(12))]
    nxt = send(['raw', [110, 101, 120, 116]])
    two = [['recv', None], ['recv', None]]
    out = []
    for how in ('mvcast', 'ctypes', 'arraycast', 'bytearraycast'):
        out.append(mk('mem', sops=[send(grid, shaped(how, 1, [3, 4])), nxt], rops=two))
    out.append(mk('pipe', sops=[send(grid, shaped('mvcast', 1, [3, 4])), nxt], rops=two))
    out.append(mk('socket', wo=[['a', 1], ['i'], ['a', 5]], sops=[send(grid, shaped('ctypes', 1, [2, 2, 3])), nxt],
                  ro=[['c', 1], ['i'], ['c', 2]], rops=two))
    out.append(mk('mem', sops=[send(grid, shaped('mvcast', 1, [3, 4]), 1, 1), nxt], rops=two))
    out.append(mk('mem', sops=[send(grid, shaped('mvcast', 1, [3, 4]), 2, None), nxt], rops=two))
    out.append(mk('mem', sops=[send(grid, shaped('mvcast', 1, [3, 4]), 4, 8), nxt], rops=two))      # bytes 4..12: rejected
    out.append(mk('mem', sops=[send(grid, shaped('mvcast', 1, [12, 1])), nxt], rops=two))         # rows of one byte: intact
    out.append(mk('mem', sops=[send(grid, shaped('mvcast', 1, [1, 12])), nxt], rops=two))
    out.append(mk('mem', sops=[send(EMPTY, shaped('ctypes', 1, [3, 0])), nxt], rops=two))         # header 3, no bytes
    out.append(mk('mem', sops=[send(EMPTY, shaped('ctypes', 1, [0, 4])), nxt], rops=two))
    out.append(mk('mem', sops=[send(['raw', [5]], shaped('ctypes', 1, [])), nxt], rops=two))      # 0-dim: TypeError
    # more than 16384 rows: the write-all loop counts rows and is fed bytes
    tall = ['pat', 32770, 1, 1]
    out.append(mk('mem', sops=[send(tall, shaped('mvcast', 1, [16385, 2])), nxt], rops=two))      # never returns
    out.append(mk('pipe', wo=[['a', 4], ['a', 100000], ['i'], ['a', 3]],
                  sops=[send(tall, shaped('mvcast', 1, [16385, 2]))], rops=two))
    out.append(mk('mem', wo=[['a', 4], ['a', 16385]],                                             # returns after half
                  sops=[send(tall, shaped('mvcast', 1, [16385, 2])), nxt], rops=two))
    out.append(mk('mem', wo=[['a', 4], ['a', 1], ['a', 7]],
                  sops=[send(['pat', 32768, 1, 1], shaped('ctypes', 1, [16384, 2])), nxt], rops=two))
    # recv_bytes_into a multi-dimensional buffer (finding F-C13-1, same slice arithmetic): stored at
    # the row offset // itemsize, BufferTooShort although it fits, "offset too large" inside the buffer
    dots = ['pat', 12, 3, 1]
    for how in ('bytearraycast', 'arraycast', 'ctypes'):
        out.append(mk('mem', sops=[send(['raw', [88, 89]]), nxt], rops=[['into', dots, 1, 1, how, [3, 4]], ['recv', None]]))
    out.append(mk('mem', sops=[send(['raw', [65, 66, 67, 68]]), nxt], rops=[['into', dots, 1, 0, 'bytearraycast', [3, 4]], ['recv', None]]))
    out.append(mk('mem', sops=[send(['raw', [65, 66, 67]]), nxt], rops=[['into', dots, 1, 0, 'bytearraycast', [3, 4]], ['recv', None]]))
    out.append(mk('mem', sops=[send(['raw', [65, 66]]), nxt], rops=[['into', dots, 1, 4, 'ctypes', [3, 4]], ['recv', None]]))
    out.append(mk('pipe', sops=[send(['raw', [65, 66]]), nxt], rops=[['into', dots, 2, 2, 'arraycast', [3, 2]], ['recv', None]]))
    out.append(mk('mem', sops=[send(['raw', [65, 66]]), nxt], rops=[['into', ['raw', [7]], 1, 0, 'ctypes', []], ['recv', None]]))
    out.append(mk('mem', sops=[send(grid), nxt], rops=[['into', dots, 1, 0, 'bytearraycast', [12, 1]], ['recv', None]]))
    # second group: flat views
    for it, how, shape in ((2, 'mvcast', [3, 2]), (4, 'ctypes', [3, 1]), (2, 'arraycast', [2, 3])):
        out.append(mk('mem', wo=[['a', 3], ['i']], sops=[send(grid, shaped(how, it, shape)), nxt], rops=two))
    out.append(mk('mem', sops=[send(grid, shaped('ctypes', 1, [12])), nxt], rops=two))
    out.append(mk('mem', sops=[send(['raw', [5, 0, 0, 0]], shaped('ctypes', 4, [])), nxt], rops=two))
    out.append(mk('pipe', wo=[['a', 4], ['a', 1], ['a', 7]],
                  sops=[send(['pat', 32772, 1, 1], shaped('mvcast', 2, [8193, 2]), 1, 32770), nxt], rops=two))
    return out


def is_finding_shape(c):
    """items of one byte and a shape other than one dimension"""
    return any(op[0] == 'send' and isinstance(op[2], list) and op[2][2] == 1 and len(op[2][3]) != 1 for op in c['sops'])


def finding_cases():
    """inputs of the recorded finding (multi-byte item buffers); always run"""
    return [
        mk('mem', sops=[send(['raw', [65, 66, 67, 68]])], rops=[['into', ['pat', 16, 9, 1], 4, 2]]),
        mk('mem', sops=[send(['raw', [88, 89]])], rops=[['into', ['pat', 16, 9, 1], 4, 1]]),
        mk('pipe', sops=[send(['raw', [1, 2, 3, 4, 5]])], rops=[['into', ['pat', 16, 9, 1], 4, 0]]),
    ]


def has_wide_into(c):
    """recv_bytes_into a buffer whose first-dimension items are wider than a byte: multi-byte
    items, or rows of a multi-dimensional buffer"""
    return any(op[0] == 'into' and (op[2] > 1 or (len(op) > 4 and len(op[5]) != 1)) for op in c['rops'])


def nontrivial(c, o):
    """at least one message completely sent and one receive operation that did I/O"""
    return any(x[0] == 0 for x, op in zip(o['sobs'], c['sops']) if op[0] == 'send') and len(o['rtrace']) > 0


def correspond(res, n):
    rng = random.Random(res.seed * 7919 + 13)
    corpus = json.load(open(core.VERIF + '/corpus/C13.json'))
    lens = SMALL_LENS * 6 + [16384, 16385] if res.tier == 'quick' else SMALL_LENS * 3 + EDGE_LENS
    transports = ['mem'] * 5 + ['pipe'] * 3 + ['socket'] * 2
    if res.tier != 'quick':
        lens = lens + [65535, 65536, 65537, 70000]
    cases = corpus + finding_cases() + shaped_cases(res.tier) + boundary_cases(res.tier) + [rand_case(rng, lens, transports) for _ in range(n)]
    outs = core.run_driver('conn_driver.py', cases, timeout=1500)
    terms = [to_coq(c, o) for c, o in zip(cases, outs)]
    # spread the heavy cases evenly over the parallel coqc jobs
    weight = [200 + sum(blen(op[1]) for op in c['sops'] + c['rops'] if op[0] in ('send', 'into')) for c in cases]
    nchunks = max(1, min(64, max(len(cases) // 150 + 1, sum(weight) // 400000 + 1)))
    if len(cases) >= 64:
        nchunks = max(nchunks, 8)
    bins = [[] for _ in range(nchunks)]
    load = [0] * nchunks
    for i in sorted(range(len(cases)), key=lambda i: -weight[i]):
        k = load.index(min(load))
        bins[k].append(i)
        load[k] += weight[i]
    bins = [sorted(b) for b in bins if b]
    order = [i for b in bins for i in b]
    codes, _ = core.coq_eval('C13', HEADER, [[terms[i] for i in b] for b in bins], timeout=1500)
    codes = sorted((order[i], code) for i, code in codes)
    hist = dict(transport={}, msg_len={}, recv_result={}, send_result={}, cut=0, wo_entries=0, ro_entries=0,
                send_buffer={})
    for c, o in zip(cases, outs):
        hist['transport'][c['transport']] = hist['transport'].get(c['transport'], 0) + 1
        hist['cut'] += c['cut'] is not None
        hist['wo_entries'] += len(c['wo'])
        hist['ro_entries'] += len(c['ro'])
        for op in c['sops']:
            if op[0] == 'send':
                kind = op[2]
                bk = kind if not isinstance(kind, list) else '%s item=%d ndim=%d' % (kind[1], kind[2], len(kind[3]))
                hist['send_buffer'][bk] = hist['send_buffer'].get(bk, 0) + 1
                b = blen(op[1])
                k = '0' if b == 0 else '1-15' if b < 16 else '16-16379' if b < 16380 else '16380-16400' if b <= 16400 else '>16400'
                hist['msg_len'][k] = hist['msg_len'].get(k, 0) + 1
        for x in o['sobs']:
            hist['send_result'][str(x[0])] = hist['send_result'].get(str(x[0]), 0) + 1
        for x in o['robs']:
            hist['recv_result'][str(x[0])] = hist['recv_result'].get(str(x[0]), 0) + 1
    distinct = len({json.dumps(c, sort_keys=True) for c, o in zip(cases, outs) if nontrivial(c, o)})
    res.add_cov(evaluations=len(cases), distinct=distinct, traces=len(cases),
                samples=[dict(case=cases[len(corpus) + 40], impl=outs[len(corpus) + 40]),
                         dict(case=cases[-1], impl=outs[-1])],
                rule='corpus + enumerated boundaries (peer closing after every byte count of a 3-message stream; '
                     'lengths 0..10 and 16383..16385 on pipe/socket/memory; maxlength, buffer room, offsets, sizes at '
                     'each edge +-1; closed/wrong-direction handles; malformed headers) + seeded random cases '
                     '(flags, 0-4 sends with offsets/sizes/buffer kinds incl. shaped buffers (multi-dimensional memoryviews, '
                     'ctypes arrays, array casts, item sizes 1/2/4, zero dimensions, ctypes scalars), write script, optional garbage, optional '
                     'cut, receive ops with maxlength / buffers, read script); non-trivial = at least one message '
                     'completely sent and at least one read() call; distinct by canonical JSON',
                input_histogram=hist)
    for c, o in zip(cases, outs):
        if not o['sane']:
            res.broken.append(dict(kind='harness', name='bytes moved outside the scripted seams or FIFO order broken',
                                   detail=json.dumps(c)[:1500]))
            break
    seen3 = False
    seen45 = False
    for i, code in codes:
        c, o = cases[i], outs[i]
        if code in (4, 5):
            if is_finding_shape(c):
                if seen45:
                    continue
                seen45 = True
            shapes = [op[2][1:] for op in c['sops'] if op[0] == 'send' and isinstance(op[2], list)]
            res.alarms.append(dict(
                signature=SIG_SHAPE if is_finding_shape(c) else SIG_SENDMON,
                what=('send_bytes returned normally but the wire is not the framing of the bytes that were named '
                      '(header = first dimension of the buffer, payload = all its bytes; the receiver gets a short '
                      'message and loses the next one)' if code == 4 else
                      'send_bytes never returns (write-all loop counts rows of the buffer but is fed bytes)')
                     + ': buffers (how, itemsize, shape) %s, sends %s -> sender %s wire %s receiver %s'
                     % (json.dumps(shapes), json.dumps([op[3:] for op in c['sops'] if op[0] == 'send']),
                        json.dumps(o['sobs']), json.dumps(o['wire'])[:200], json.dumps(o['robs'])[:400]),
                replay=dict(case=c, impl=o)))
        elif code == 3:
            if seen3:
                continue
            seen3 = True
            res.alarms.append(dict(
                signature=SIG_INTO if has_wide_into(c) else 'C13:delivery-monitor',
                what='recv_bytes_into returned normally but the message is not at [offset, offset+n) of the buffer '
                     '(buffer items wider than one byte, or rows of a multi-dimensional buffer): %s -> %s'
                     % (json.dumps(c['rops']), json.dumps(o['robs'])),
                replay=dict(case=c, impl=o)))
        elif code == 2:
            res.alarms.append(dict(signature=SIG_DIFF,
                                   what='Connection behaves differently from the proved framing model on %s: impl %s'
                                        % (json.dumps(c)[:600], json.dumps(o)[:600]),
                                   replay=dict(case=c, impl=o)))
        else:
            res.broken.append(dict(kind='correspondence',
                                   name='Framing model vs Connection (which raise statement / sizes passed to read, write)',
                                   detail=json.dumps(dict(case=c, impl=o))[:3000]))


def probes(res):
    """direct monitors on the implementation for what cannot be put into a Coq case"""
    rng = random.Random(res.seed * 31 + 5)
    cases = [dict(probe='huge', n=(1 << 31)), dict(probe='huge', n=(1 << 31) + 5, off=3, size=(1 << 31)),
             dict(probe='badlen', duplex=False, n=100, maxlength=10), dict(probe='badlen', duplex=True, n=64, maxlength=63),
             dict(probe='badlen', duplex=False, n=20000, maxlength=16384)]
    for _ in range(6 if res.tier == 'quick' else 60):
        objs = [rng.choice([None, 1, 'x' * rng.choice([0, 5, 20000]), [1, 2, {'a': (3, 4.5)}],
                            {'__pat__': [rng.choice([0, 1, 16384 - 40, 16385, 70000]), 1, 2]}])
                for _ in range(rng.randint(1, 5))]
        cases.append(dict(probe='objects', objs=objs, wo=rand_wo(rng)[:6], ro=rand_ro(rng)))
    for c in cases:
        c['wo'] = [x for x in c.get('wo', []) if x[0] != 'e']
        c['ro'] = [x for x in c.get('ro', []) if x[0] != 'e']
    outs = core.run_driver('conn_driver.py', cases, timeout=900)
    for c, o in zip(cases, outs):
        if c['probe'] == 'huge':
            if not (o['code'] == 401 and o['writes'] == 0 and o['wire'] == 0):
                res.alarms.append(dict(signature=SIG_HUGE,
                                       what='send_bytes of %d bytes: %s (expected struct.error before any write)' % (c['n'], o),
                                       replay=dict(case=c, impl=o)))
        elif c['probe'] == 'badlen':
            if not o['ok']:
                res.alarms.append(dict(signature='C13:connection-usable-after-over-limit-message', what='recv_bytes(maxlength=%s) of a %s-byte message on a %s: %s'
                                       % (c['maxlength'], c['n'], 'duplex end' if c['duplex'] else 'one-way reader', o['err']), replay=dict(case=c, impl=o)))
        elif not o['ok']:
            res.alarms.append(dict(signature=SIG_OBJ, what='send/recv of objects: %s' % o['err'],
                                   replay=dict(case=c, impl=o)))
    res.add_cov(evaluations=len(cases), traces=len(cases), probes=dict(huge=2, badlen=3, objects=len(cases) - 5))


def run(res):
    res.proof_step('Props/C13.v', extra_targets=['Model/Framing.vo'], kernels_needed=['K_framing'])
    n = 300 if res.tier == 'quick' else 10000
    if res.broken:
        n = max(n, 3000)      # failing-input search
    probes(res)          # first: they do not depend on the correspondence run going through
    correspond(res, n)
    res.assumptions += [
        'pipes and socket pairs deliver bytes in FIFO order without loss; read() returning b"" means the peer closed',
        'write() returns between 1 and len(buf) (0 only for an empty buffer); read(fd, n) returns at most n bytes',
        'struct.pack/unpack("!i") are 4-byte big-endian two\'s complement (modelled as be32/dec32)',
        'executions that never terminate (endless EINTR) deliver nothing and are outside the statement',
        'byte strings longer than 128 bytes are compared by (length, sum, position-weighted sum), not literally',
        'a header with the sign bit set (hostile peer) is delivered as an empty message: modelled, outside the property',
        'Windows PipeConnection and poll()/wait() readiness are not modelled',
    ]


def replay(path):
    d = json.load(open(path))
    c = d['replay']['case']
    out = core.run_driver('conn_driver.py', [c])[0]
    print('case:', json.dumps(c))
    print('implementation now:', json.dumps(out))
    if c.get('probe'):
        bad = (not out.get('ok', True)) or (c['probe'] == 'huge' and not (out['code'] == 401 and out['writes'] == 0))
        print('monitor:', 'violated' if bad else 'holds')
        return 1 if bad else 0
    import os
    vf = os.path.join(core.COQ, 'Cases', 'C13r_view.v')
    with open(vf, 'w') as fh:
        fh.write(HEADER + '\nEval vm_compute in (model_view (%s)).\n' % to_coq(c, out))
    rc, txt, _ = core.sh(['coqc', '-Q', '.', 'BV', '-w', '-notation-overridden', 'Cases/C13r_view.v'],
                         cwd=core.COQ, timeout=600)
    print('model expects (sender obs, wire (len,sum,wsum)+head, write sizes, receiver obs '
          '(code, len, head, ret, buffer head, flags), unread, read sizes):')
    print(txt.strip()[:3000])
    for ext in ('.v', '.vo', '.vok', '.vos', '.glob'):
        try:
            os.remove(vf[:-2] + ext)
        except OSError:
            pass
    codes, _ = core.coq_eval('C13r', HEADER, [[to_coq(c, out)]])
    print('model agrees, property monitor holds' if not codes else
          {1: 'model differs in internal detail (code 1)', 2: 'model disagrees (code 2)',
           3: 'model agrees; delivery monitor violated (code 3)',
           4: 'model agrees; send-side monitor violated: the wire is not the framing of the bytes named (code 4)',
           5: 'model agrees; a send_bytes call never returns (code 5)'}.get(codes[0][1], codes[0][1]))
    return 1 if codes else 0
