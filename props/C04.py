"""C04 -- a worker dying mid-task yields WorkerLostError for exactly its job.  Pool family: theorems over Model/Pool.v (Props/C04.v), tied to
billiard/pool.py by differential correspondence on fake-process histories."""
from vlib import core
from props import poolcommon as pc

MANIFEST = dict(
    text='Theorems: one supervision pass acts on the job table exactly as the per-job function tick_job (proved); deadline (first pass after the grace period resolves the job with the recorded status and its own id), never earlier, no other job touched, detection records (now, exit status), result handled before the pass wins, marker written once in every continuation, terminate_job yields Terminated. Known findings for map/imap owner bookkeeping are listed in known_findings.json. The result handler\'s drain-loop join (_join_exited_workers(shutdown=True)) treats every job exactly as a pass does. CLOSED SYSTEM WITH CRASHES (Model/PoolCrash.v; client, queue, pipes, live workers, crash budget, clock, the open pool model as parent; any number of jobs, workers, kills, any statuses and timeouts, pools without restart limit; every schedule in which a pass runs only after the messages of the dead worker were drained): the job of a live worker is never marked or failed; a marker names the status of its own exited and reaped worker; a resolved job has its own result or the loss of its own worker; unresolved jobs are in exactly one place; the pool stays at size; a pass detects, waits while the grace period runs and fails the job at the first pass after it, and nothing else ever reports a loss; useful steps decrease a measure, progress while work is left, every maximal useful schedule ends with all n jobs resolved, pool at size, slots back, within 6n + kills*(grace+3) steps, and from every reachable state such an end is reachable without further kills; slot accounting. Refuted in the closed system: one racy pass (the ACK of the dead worker still in the pipe) reaches a state from which no schedule resolves the job. Refuted with witnesses (known findings): loss not delivered to an ordered imap consumer, spurious loss for finished parts of a map job, owner gone but never marked when its acknowledgement arrives after the reaping pass.',
    note='Trusted: Coq kernel; hand-written model Model/Pool.v validated on every run against the real billiard.pool parent-side code (harness/pool_driver.py: fake processes, fake clock, recorded signals); event-level atomicity; worker side and OS not modelled here (C03 covers the worker loop). Partial: "for every kind of job handle" is refuted for ordered imap (known finding D4) and for ACKs handled after reaping (D11); supervision period P is a parameter (passes are events).',
    technique='Coq proof (invariants by induction over all event histories of an executable pool model) + differential correspondence against the real parent-side code',
    ref='5.4',
)

FOCUS = {'exit': 9, 'tick': 14, 'advance': 10, 'ack': 12, 'terminate_job': 2}


def run(res):
    res.proof_step('Props/C04.v', extra_targets=['Model/Pool.vo', 'Model/PoolCrash.vo'], kernels_needed=['G_pool_shape', 'G_pool_pins'])
    n = 150 if res.tier == 'quick' else 6000
    if res.broken:
        n = max(n, 1500)      # failing-input search on the implementation
    pc.pool_check(res, 'C04', n, focus=FOCUS)
    # the closed system with crashes (Model/PoolCrash.v): random schedules of client, pipes, workers, kills,
    # passes and clock; the real parent-side code against the model whose liveness and exactness are proved
    pc.crash_closed_check(res, 'C04', 60 if res.tier == 'quick' else 1200)
    pc.real_scenarios(res, 'C04', [dict(kind='worker_lost', sig=9), dict(kind='worker_lost', sig=11), dict(kind='worker_lost', sig=15, slow_release=True)] if res.tier == 'quick' else [dict(kind='worker_lost', sig=s) for s in (9, 11, 6, 15, 4, 8)] + [dict(kind='worker_lost', sig=15, slow_release=True), dict(kind='worker_lost', sig=6, slow_release=True)])
    res.assumptions += pc_assumptions()


def pc_assumptions():
    return [
        'atomicity grain: one event = one message handled, one supervision pass, one full timeout scan, one user call; preemption inside these is not modelled',
        'worker processes, the clock, kill() and waitpid() are harness fakes; task values are abstract tags',
        'threads=False driving of the real handlers (handle_result_event, _maintain_pool, TimeoutHandler.handle_event, TaskHandler.body)',
    ]


def replay(path):
    return pc.pool_replay(path)
