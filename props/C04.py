"""C04 -- a worker dying mid-task yields WorkerLostError for exactly its job.  Pool family: theorems over Model/Pool.v (Props/C04.v), tied to
billiard/pool.py by differential correspondence on fake-process histories."""
from vlib import core
from props import poolcommon as pc

MANIFEST = dict(
    text='Theorems: one supervision pass acts on the job table exactly as the per-job function tick_job (proved); deadline (first pass after the grace period resolves the job with the recorded status and its own id), never earlier, no other job touched, detection records (now, exit status), result handled before the pass wins, marker written once in every continuation, terminate_job yields Terminated. Known findings for map/imap owner bookkeeping are listed in known_findings.json. The result handler\'s drain-loop join (_join_exited_workers(shutdown=True)) treats every job exactly as a pass does. Refuted with witnesses (known findings): loss not delivered to an ordered imap consumer, spurious loss for finished parts of a map job, owner gone but never marked when its acknowledgement arrives after the reaping pass.',
    note='Trusted: Coq kernel; hand-written model Model/Pool.v validated on every run against the real billiard.pool parent-side code (harness/pool_driver.py: fake processes, fake clock, recorded signals); event-level atomicity; worker side and OS not modelled here (C03 covers the worker loop). Partial: "for every kind of job handle" is refuted for ordered imap (known finding D4) and for ACKs handled after reaping (D11); supervision period P is a parameter (passes are events).',
    technique='Coq proof (invariants by induction over all event histories of an executable pool model) + differential correspondence against the real parent-side code',
    ref='5.4',
)

FOCUS = {'exit': 9, 'tick': 14, 'advance': 10, 'ack': 12, 'terminate_job': 2}


def run(res):
    res.proof_step('Props/C04.v', extra_targets=['Model/Pool.vo'], kernels_needed=['G_pool_shape', 'G_pool_pins'])
    n = 150 if res.tier == 'quick' else 6000
    if res.broken:
        n = max(n, 1500)      # failing-input search on the implementation
    pc.pool_check(res, 'C04', n, focus=FOCUS)
    pc.real_scenarios(res, 'C04', [dict(kind='worker_lost', sig=9), dict(kind='worker_lost', sig=11)] if res.tier == 'quick' else [dict(kind='worker_lost', sig=s) for s in (9, 11, 6, 15, 4, 8)])
    res.assumptions += pc_assumptions()


def pc_assumptions():
    return [
        'atomicity grain: one event = one message handled, one supervision pass, one full timeout scan, one user call; preemption inside these is not modelled',
        'worker processes, the clock, kill() and waitpid() are harness fakes; task values are abstract tags',
        'threads=False driving of the real handlers (handle_result_event, _maintain_pool, TimeoutHandler.handle_event, TaskHandler.body)',
    ]


def replay(path):
    return pc.pool_replay(path)
