"""C11 -- restart rate limiter.  Tie: K_restart regenerated from common.py and proved
equal to Model.Restart.step; correspondence of restart_state on random histories."""
import json
import random
from vlib import core
from props import poolcommon as pc
from vlib.core import cz, copt, clist, cbool

MANIFEST = dict(
    text='Theorems (Coq, all histories): restart_state.step as translated from common.py on every run equals the model; 0 <= R <= max_restarts; inside one window exactly the remaining budget is admitted and the next step raises; a step after the window expired or after an ack starts afresh. Correspondence of the real restart_state on random histories. Pool level (Proofs/PoolSize.v): the pool\'s limiter in every reachable state IS Restart.run on the pool\'s own history (one step per charged replacement, one ack per acknowledgement); only passes and acknowledgements touch it; window budget and the raising pass at pool level. The start-up phase and the supervisor thread are validated on real pools (restart_budget scenarios).',
    note='Trusted: Coq kernel, translator, PyVal semantics; integer clock (float rounding not modelled); monotonic() != 0.',
    technique='Coq proof over translator-regenerated kernel + differential correspondence',
    ref='5.11',
)

HEADER = '''From Coq Require Import ZArith List Bool.
From BV Require Import Lib.Cases Model.Restart.
Import ListNotations. Open Scope Z_scope.
Definition check_case := Restart.check_case.'''


def gen_cases(rng, n):
    cases = []
    for _ in range(n):
        maxR = rng.choice([None, 0, 1, 1, 2, 2, 3, 5, 8])
        maxT = rng.choice([1, 2, 5, 10, 60])
        now = rng.choice([1, 3, 100, 1000])
        evs = []
        for _ in range(rng.randint(0, 25)):
            r = rng.random()
            if r < 0.15:
                evs.append(['ack'])
            else:
                gap = rng.choice([0, 0, 0, 1, 1, 2, maxT - 1, maxT, maxT + 1, 3 * maxT])
                now += max(0, gap)
                evs.append(['step', now])
        cases.append(dict(maxR=maxR, maxT=maxT, evs=evs))
    # boundary cases that must always be present
    cases.append(dict(maxR=2, maxT=5, evs=[['step', 100], ['step', 101], ['step', 104], ['step', 104]]))
    cases.append(dict(maxR=1, maxT=5, evs=[['step', 100], ['step', 105], ['step', 109], ['ack'], ['step', 109]]))
    cases.append(dict(maxR=3, maxT=1, evs=[['step', 7]] * 9))
    return cases


def to_coq(c, o):
    evs = clist(c['evs'], lambda e: '(Step %s)' % cz(e[1]) if e[0] == 'step' else 'Ack')
    return '(%s, %s, %s, (%s, %s, %s))' % (
        copt(c['maxR']), cz(c['maxT']), evs, clist(o['outs'], cbool), cz(o['R']), copt(o['T']))


def correspond(res, n):
    rng = random.Random(res.seed * 7919 + 11)
    corpus = json.load(open(core.VERIF + '/corpus/C11.json'))
    cases = corpus + gen_cases(rng, n)
    outs = core.run_driver('restart_driver.py', cases)
    terms = [to_coq(c, o) for c, o in zip(cases, outs)]
    codes, _ = core.coq_eval('C11', HEADER, core.chunks(terms, 400))
    distinct = len({json.dumps(c, sort_keys=True) for c in cases
                    if sum(1 for e in c['evs'] if e[0] == 'step') >= 2})
    raised = sum(1 for o in outs if any(o['outs']))
    res.add_cov(evaluations=len(cases), distinct=distinct, traces=len(cases),
                samples=[dict(case=cases[-4], impl=outs[-4]), dict(case=cases[len(corpus)], impl=outs[len(corpus)])],
                rule='random (maxR,maxT,history of step(now)/ack) with gaps around the window boundary; '
                     'non-trivial = at least two steps; distinct by canonical JSON',
                histories_with_a_raise=raised)
    for i, code in codes:
        c, o = cases[i], outs[i]
        if code == 2:
            res.alarms.append(dict(signature='C11:admit-raise-differs',
                                   what='restart_state admits/raises differently from the proved model on %s: impl %s'
                                        % (json.dumps(c), o['outs']),
                                   replay=dict(case=c, impl=o)))
        else:
            res.broken.append(dict(kind='correspondence', name='Restart.run vs restart_state (counters only)',
                                   detail=json.dumps(dict(case=c, impl=o))))


def run(res):
    res.proof_step('Props/C11.v', extra_targets=['Model/Restart.vo', 'Model/Pool.vo'],
                           kernels_needed=['K_restart', 'G_pool_shape', 'G_pool_pins'])
    n = 300 if res.tier == 'quick' else 20000
    if res.broken:
        n = max(n, 5000)      # failing-input search
    correspond(res, n)
    # pool half: which exits consult the limiter, against the proved pool model
    pc.pool_check(res, 'C11', 100 if res.tier == 'quick' else 4000, focus={'exit': 12, 'tick': 14, 'advance': 10, 'ack': 6, 'apply': 6},
                  cfg=lambda rng: dict(pc.random_cfg(rng), max_restarts=rng.choice([1, 2, 3])))
    # the supervisor thread of a real pool, past its start-up phase (which runs on a separate, laxer
    # limiter): acceptances restore the budget; without them the limit is enforced
    pc.real_scenarios(res, 'C11', [dict(kind='restart_budget', n=2, max_restarts=3, rounds=5, watchdog=90),
                                   dict(kind='restart_budget', n=2, max_restarts=2, rounds=4, accept_between=False, watchdog=90)]
                      if res.tier == 'quick' else
                      [dict(kind='restart_budget', n=n, max_restarts=m, rounds=m + 3, accept_between=a, watchdog=120)
                       for n in (1, 2) for m in (1, 3) for a in (True, False)])
    res.assumptions += [
        'times are exact integers in the harness (float rounding of monotonic() not modelled)',
        'monotonic() never returns 0 (a window opened at exactly 0.0 would be treated as unset by `if self.T`)',
        'pool integration (which exits call step()) is covered by the pool model of C09/C11pool',
    ]


def replay(path):
    d = json.load(open(path))
    c = d['replay']['case']
    out = core.run_driver('restart_driver.py', [c])[0]
    print('case:', json.dumps(c))
    print('implementation now:', json.dumps(out))
    codes, _ = core.coq_eval('C11r', HEADER, [[to_coq(c, out)]])
    print('model agrees' if not codes else 'model disagrees (code %d)' % codes[0][1])
    return 1 if codes else 0
