"""C11 -- restart rate limiter.  Tie: K_restart regenerated from common.py and proved
equal to Model.Restart.step; correspondence of restart_state on random histories."""
import json
import random
from vlib import core
from props import poolcommon as pc
from vlib.core import cz, copt, clist, cbool

MANIFEST = dict(
    text='Theorems (Coq, all histories): restart_state.step as translated from common.py on every run equals the model; 0 <= R <= max_restarts; inside one window exactly the remaining budget is admitted and the next step raises; a step after the window expired or after an ack starts afresh. Correspondence of the real restart_state on random histories. Pool level (Proofs/PoolSize.v): the pool\'s limiter in every reachable state IS Restart.run on the pool\'s own history (one step per charged replacement, one ack per acknowledgement); only passes and acknowledgements touch it; window budget and the raising pass at pool level. The start-up phase and the supervisor thread are validated on real pools (restart_budget scenarios).',
    note='Trusted: Coq kernel, translator, PyVal semantics; integer clock (float rounding not modelled); monotonic() != 0. Start-up burst: theorem C11_startup_burst (budget 10 per slot inside one window, then raise), structural facts about Supervisor.body, and the real Supervisor.body over fake workers and an exact clock compared with Restart.burst in Coq.',
    technique='Coq proof over translator-regenerated kernel + differential correspondence',
    ref='5.11',
)

HEADER = '''From Coq Require Import ZArith List Bool.
From BV Require Import Lib.Cases Model.Restart.
Import ListNotations. Open Scope Z_scope.
Definition check_case := Restart.check_case.'''


def gen_cases(rng, n):
    cases = []
    for _ in range(n):
        maxR = rng.choice([None, 0, 1, 1, 2, 2, 3, 5, 8])
        maxT = rng.choice([1, 2, 5, 10, 60])
        now = rng.choice([1, 3, 100, 1000])
        evs = []
        for _ in range(rng.randint(0, 25)):
            r = rng.random()
            if r < 0.15:
                evs.append(['ack'])
            else:
                gap = rng.choice([0, 0, 0, 1, 1, 2, maxT - 1, maxT, maxT + 1, 3 * maxT])
                now += max(0, gap)
                evs.append(['step', now])
        cases.append(dict(maxR=maxR, maxT=maxT, evs=evs))
    # boundary cases that must always be present
    cases.append(dict(maxR=2, maxT=5, evs=[['step', 100], ['step', 101], ['step', 104], ['step', 104]]))
    cases.append(dict(maxR=1, maxT=5, evs=[['step', 100], ['step', 105], ['step', 109], ['ack'], ['step', 109]]))
    cases.append(dict(maxR=3, maxT=1, evs=[['step', 7]] * 9))
    return cases


def to_coq(c, o):
    evs = clist(c['evs'], lambda e: '(Step %s)' % cz(e[1]) if e[0] == 'step' else 'Ack')
    return '(%s, %s, %s, (%s, %s, %s))' % (
        copt(c['maxR']), cz(c['maxT']), evs, clist(o['outs'], cbool), cz(o['R']), copt(o['T']))


def correspond(res, n):
    rng = random.Random(res.seed * 7919 + 11)
    corpus = json.load(open(core.VERIF + '/corpus/C11.json'))
    cases = corpus + gen_cases(rng, n)
    outs = core.run_driver('restart_driver.py', cases)
    terms = [to_coq(c, o) for c, o in zip(cases, outs)]
    codes, _ = core.coq_eval('C11', HEADER, core.chunks(terms, 400))
    distinct = len({json.dumps(c, sort_keys=True) for c in cases
                    if sum(1 for e in c['evs'] if e[0] == 'step') >= 2})
    raised = sum(1 for o in outs if any(o['outs']))
    res.add_cov(evaluations=len(cases), distinct=distinct, traces=len(cases),
                samples=[dict(case=cases[-4], impl=outs[-4]), dict(case=cases[len(corpus)], impl=outs[len(corpus)])],
                rule='random (maxR,maxT,history of step(now)/ack) with gaps around the window boundary; '
                     'non-trivial = at least two steps; distinct by canonical JSON',
                histories_with_a_raise=raised)
    for i, code in codes:
        c, o = cases[i], outs[i]
        if code == 2:
            res.alarms.append(dict(signature='C11:admit-raise-differs',
                                   what='restart_state admits/raises differently from the proved model on %s: impl %s'
                                        % (json.dumps(c), o['outs']),
                                   replay=dict(case=c, impl=o)))
        else:
            res.broken.append(dict(kind='correspondence', name='Restart.run vs restart_state (counters only)',
                                   detail=json.dumps(dict(case=c, impl=o))))


BURST_HEADER = '''From Coq Require Import ZArith List Bool.
From BV Require Import Lib.Cases Model.Restart.
Import ListNotations. Open Scope Z_scope.
Definition check_case := Restart.check_burst_case.'''


def burst_cases(rng, n):
    cases = []
    for slots in (1, 2, 3, 5):
        for live in range(0 if slots > 1 else 1, slots + 1):
            for via in ('grow', 'start_failed'):
                if live == 0 and via == 'grow':
                    continue
                for crash in (-1, 1):
                    for code in (1, -9, 155):
                        cases.append(dict(slots=slots, live=live, via=via, crash=crash, code=code))
    rng.shuffle(cases)
    return cases[:n]


def burst_expect(c):
    """which creations of each burst pass are charged (Pool._repopulate_pool: a reaped worker's
    status outside clean/recycle, or a missing worker beyond the reaped ones when somebody was reaped)"""
    slots, L = c['slots'], c['live']
    passes = []
    for i in range(10):
        r = L if c['crash'] < 0 else min(c['crash'], L)
        abnormal = c['code'] not in (0, 155)
        need = [abnormal] * r + [r > 0] * (slots - L)
        passes.append(need)
        L = slots
    return passes


def burst_check(res):
    """the start-up burst: the REAL Supervisor.body over fake workers and an exact fake clock, against
    the proved limiter with budget 10 * slots and a one-second window"""
    rng = random.Random(res.seed * 31 + 5)
    cases = burst_cases(rng, 40 if res.tier == 'quick' else 400)
    outs = core.run_driver('burst_driver.py', cases, timeout=300)
    terms = []
    for c, o in zip(cases, outs):
        if 'crashed' in o:
            res.alarms.append(dict(signature='C11:burst-run-crashed', what='%s: %s' % (json.dumps(c), o['crashed']), replay=dict(burst=c, impl=o)))
            continue
        if o['budget'] != 10 * c['slots'] or o['window'] != 1:
            res.alarms.append(dict(signature='C11:startup-burst-budget-is-not-ten-per-slot-per-second',
                                   what='pool of %d slots (%d worker objects when the supervisor woke up, %s): the burst limiter admits %s per %s s'
                                        % (c['slots'], c['live'], c['via'], o['budget'], o['window']), replay=dict(burst=c, impl=o)))
        if not o['restored'] and o['raised_at_pass'] is None:
            res.alarms.append(dict(signature='C11:own-limiter-not-restored-after-burst',
                                   what='after the burst the pool does not have its own limiter back: %s' % json.dumps(c), replay=dict(burst=c, impl=o)))
        passes = burst_expect(c)
        terms.append((c, o, '((%s, 1000, %s, (%s, %s)) : Restart.burst_case)' % (
            cz(c['slots']), clist(passes, lambda p: clist(p, cbool)),
            clist(o['forks_per_pass'], lambda k: '%d%%nat' % k),
            'None' if o['raised_at_pass'] is None else 'Some %d%%nat' % o['raised_at_pass'])))
    codes, _ = core.coq_eval('C11burst', BURST_HEADER, core.chunks([t for _, _, t in terms], 200))
    res.add_cov(evaluations=len(terms), traces=len(terms), burst_cases=len(terms),
                rule='start-up burst: real Supervisor.body over fake workers / exact clock vs Restart.burst (budget 10*slots, window 1 s)')
    for idx, code in codes:
        c, o, _ = terms[idx]
        res.alarms.append(dict(signature='C11:startup-burst-differs-from-limiter-model',
                               what='pool of %d slots (%d worker objects at wake-up via %s; %s crash per pass with status %s): forks per burst pass %s, RestartFreqExceeded at pass %s; '
                                    'the limiter with ten restarts per slot per second gives something else'
                                    % (c['slots'], c['live'], c['via'], 'all' if c['crash'] < 0 else c['crash'], c['code'], o['forks_per_pass'], o['raised_at_pass']),
                               replay=dict(burst=c, impl=o)))


def run(res):
    res.proof_step('Props/C11.v', extra_targets=['Model/Restart.vo', 'Model/Pool.vo'],
                           kernels_needed=['K_restart', 'G_pool_shape', 'G_pool_pins'])
    n = 300 if res.tier == 'quick' else 20000
    if res.broken:
        n = max(n, 5000)      # failing-input search
    correspond(res, n)
    burst_check(res)
    # pool half: which exits consult the limiter, against the proved pool model
    pc.pool_check(res, 'C11', 100 if res.tier == 'quick' else 4000, focus={'exit': 12, 'tick': 14, 'advance': 10, 'ack': 6, 'apply': 6},
                  cfg=lambda rng: dict(pc.random_cfg(rng), max_restarts=rng.choice([1, 2, 3])))
    # the supervisor thread of a real pool, past its start-up phase (which runs on a separate, laxer
    # limiter): acceptances restore the budget; without them the limit is enforced
    pc.real_scenarios(res, 'C11', [dict(kind='restart_budget', n=2, max_restarts=3, rounds=5, watchdog=90),
                                   dict(kind='restart_budget', n=2, max_restarts=2, rounds=4, accept_between=False, watchdog=90)]
                      if res.tier == 'quick' else
                      [dict(kind='restart_budget', n=n, max_restarts=m, rounds=m + 3, accept_between=a, watchdog=120)
                       for n in (1, 2) for m in (1, 3) for a in (True, False)])
    res.assumptions += [
        'times are exact integers in the harness (float rounding of monotonic() not modelled)',
        'monotonic() never returns 0 (a window opened at exactly 0.0 would be treated as unset by `if self.T`)',
        'pool integration (which exits call step()) is covered by the pool model of C09/C11pool',
    ]


def replay(path):
    d = json.load(open(path))
    if 'burst' in d['replay']:
        c = d['replay']['burst']
        out = core.run_driver('burst_driver.py', [c])[0]
        print('burst case:', json.dumps(c))
        print('implementation now:', json.dumps(out))
        bad = out.get('budget') != 10 * c['slots'] or out.get('window') != 1
        print('burst budget %s per %s s for %d slots' % (out.get('budget'), out.get('window'), c['slots']))
        return 1 if bad else 0
    if d['replay'].get('kind') == 'pool-history' or 'case' in d['replay'] and 'events' in d['replay']['case']:
        return pc.pool_replay(path)
    c = d['replay']['case']
    out = core.run_driver('restart_driver.py', [c])[0]
    print('case:', json.dumps(c))
    print('implementation now:', json.dumps(out))
    codes, _ = core.coq_eval('C11r', HEADER, [[to_coq(c, out)]])
    print('model agrees' if not codes else 'model disagrees (code %d)' % codes[0][1])
    return 1 if codes else 0
