"""C03 -- worker job protocol: accept before run, one result per job, NACK honoured.

Tie to the code:
 * translate/kernels/worker.py regenerates the decisions of Worker.workloop /
   _ensure_messages_consumed (loop guard, exit status, memory test, SYN decoding, type assertion,
   defaults, counter test, constants) into Gen/K_worker.v and checks the skeleton around them;
   Proofs/WorkerProofs.v proves each equal to the model's function.
 * harness/worker_driver.py runs the REAL Worker.workloop (with the real protected receive) on
   scripted pipes / task behaviours / SYN answers / memory and counter readings, and the REAL
   ResultHandler.on_ack/on_ready + ApplyResult._ack/_set on parent event lists; Model.Worker.check_case
   compares every event inside Coq and runs the protocol monitor on the implementation's trace.
"""
import itertools
import json
import os
import random
import re
import subprocess

from vlib import core
from vlib.core import cz, copt, clist, cbool

MANIFEST = dict(
    text='Theorems (Coq, all input scripts, quotas, oracles): the decisions of Worker.workloop as translated '
         'from pool.py on every run equal the model; the message stream is, per job taken, ACK(job,i,time,pid) '
         'followed by nothing (refused / loop ended) or task execution and exactly one READY(job,i); the event '
         'trace is accepted by the protocol monitor (no job taken before the previous READY, no run before '
         'ACK/SYN); a termination request inside a task ends the trace right after the execution started (no '
         'READY, no further job, not counted); a refused job consults no behaviour/memory oracle and does not count; quota theorems '
         '(completed <= N, EX_RECYCLE iff completed = N, never returns without quota); unserialisable result => one '
         'encoding-error READY and the loop continues; _ensure_messages_consumed true iff the counter reaches '
         'completed within 300 polls; process exit status (Worker.__call__/_do_exit) is EX_RECYCLE exactly when workloop '
         'returned it; parent: accept callback before any result callback for streams in pipe order, '
         'owner pid = pid of the ACK, cancelled+handshake => NACK, no callback, no owner; ApplyResult._ack/_set as '
         'translated from pool.py on every run equal the model\'s p_ack/p_set (state and ordered hook calls), with the hooks of _ack '
         '(timeout hook, accept callback) as a point where _cancel() can land: _ack reads the cancellation flag once (counted on every run), '
         'a cancellation landing after that reading changes only the flag, the answer is determined by the first reading (accepted => ACK '
         'whatever the callback does, no answer iff it raises), accept callback and NACK never occur in one _ack, closed handshake: '
         'accept callback ran and returned => the worker runs the job, refuted with witness (known finding F-C03-2): an accepted job whose accept '
         'callback raises gets no answer and its worker waits for ever; every job '
         'announced and left behind is ACK,RUN,READY or ACK + the parent\'s NACK as first SYN answer; over ONE shared SYN '
         'stream every answer is consumed by the job it was sent for; closed handshake (SYN answer := the parent\'s reaction '
         'to the ACK): with the two switches linked (synack on, workers have a SYN queue, response delivered) a job '
         'cancelled before acceptance is never run / counted in any run, one switch without the other starves the worker '
         'or -- plain billiard Pool(synack=True) -- runs the cancelled job (refuted theorem + witness, reproduced on the real '
         'code). Correspondence of the real workloop / ResultHandler+ApplyResult on scripted cases (per-job and shared SYN '
         'stream, up to 130 empty polls before an answer, real workloop||real parent handshake cases incl. accept callbacks that cancel '
         'their own job or raise and cancellations landing in the timeout hook, a real Pool), every '
         'event compared in Coq; monitors on the real traces (incl. accepted => run and answered).',
    note='Trusted: Coq kernel, translate/kernels/worker.py and workerparent.py (+pykernel.FuncTr), Lib/PyVal.v, harness fakes (scripted '
         'pipes, sentinel, clock, mem_rss, counter, pickling put, faked os._exit). Residue: signal delivery '
         '(C05/C08; here an oracle), a put of ACK that raises, os.getpid() being the real pid, SIGINT ignoring.',
    technique='Coq proof over translator-regenerated kernels + skeleton check + differential correspondence with an in-Coq protocol monitor',
    ref='5.3',
)

HEADER = '''From Coq Require Import ZArith List Bool.
From BV Require Import Lib.Cases Model.Worker.
Import ListNotations. Open Scope Z_scope.
Definition check_case := Worker.check_case.'''

# ------------------------------------------------------------------ rendering
SIMPLE = dict(shutdown='RShutdown', timeout='RTimeout', eintr='REintr', eof='REof', ioerr='RIOErr',
              none='RNoneMsg', falsy='RFalsy')


class Unrepresentable(Exception):
    pass


def oz(v):
    return copt(v)


def c_beh(b):
    k = b[0]
    if k == 'ret':
        return '(Returns %s)' % cz(b[1])
    if k == 'retu':
        return 'ReturnsUnser'
    if k == 'raise':
        return '(Raises %s)' % cz(b[1])
    if k == 'raiseu':
        return '(RaisesUnser %s)' % cz(b[1])
    if k == 'base':
        return '(RaisesBase %s)' % cz(b[1])
    if k == 'term':
        return '(Terminated %s)' % cz(b[1])
    raise ValueError(b)


def c_synev(e):
    if e[0] == 'msg':
        return '(RMsg %s)' % cz(e[1])
    return SIMPLE[e[0]]


def c_req(e):
    _, ty, job, i, t, beh, syn, mem = e[:8]
    term = bool(e[8]) if len(e) > 8 else False
    return '(mk_req %s %s %s %s %s %s %s %s)' % (
        cz(ty), cz(job), oz(i), cz(t), c_beh(beh), clist(syn, c_synev), cz(mem), cbool(term))


def c_inev(e):
    if e[0] == 'msg':
        return '(RMsg %s)' % c_req(e)
    return SIMPLE[e[0]]


def h_flags(e, accept_cb):
    """(cancelled before acceptance, accept callback raises, a _cancel() lands while _ack runs) of a
    handshake job event; a cancellation issued by the accept callback (late = 2) needs the callback"""
    cancel = len(e) > 9 and bool(e[9])
    raises = len(e) > 10 and bool(e[10])
    late = e[11] if len(e) > 11 else 0
    return cancel, raises, late == 1 or (late == 2 and bool(accept_cb))


def c_hinev(e, accept_cb=True):
    if e[0] == 'msg':
        return '(RMsg (mk_hjob %s %s %s %s))' % ((c_req(e),) + tuple(cbool(b) for b in h_flags(e, accept_cb)))
    return SIMPLE[e[0]]


def c_cfg(c):
    cnt = 'None' if c['counter'] is None else '(Some (%s, %s))' % (
        clist(c['counter']['reads']), cz(c['counter']['dflt']))
    return '(mk_cfg %s %s %s %s %s %s %s)' % (
        oz(c['maxtasks']), oz(c['synfd']), cz(c['inqfd']), oz(c['pid']), cz(c['ospid']),
        oz(c['maxmem']), cnt)


def need_int(v):
    if isinstance(v, bool) or not isinstance(v, int):
        raise Unrepresentable('not an int: %r' % (v,))
    return v


def c_res(r):
    if r[0] == 'ok':
        return '(ROk %s)' % cz(need_int(r[1]))
    if r[0] == 'fail':
        return '(RFail %s)' % cz(r[1])
    if r[0] == 'base':
        return '(RBase %s)' % cz(r[1])
    if r[0] == 'enc':
        return 'REnc'
    raise Unrepresentable('result %r' % (r,))


def c_ev(e):
    k = e[0]
    if k == 'inq':
        return 'EInq'
    if k == 'syn':
        return 'ESyn'
    if k == 'now':
        return 'ENow'
    if k == 'mem':
        return 'EMem'
    if k == 'run':
        return '(ERun %s %s)' % (cz(need_int(e[1])), oz(e[2]))
    if k == 'putfail':
        return '(EPutFail %s %s)' % (cz(need_int(e[1])), oz(e[2]))
    if k == 'put':
        _, ty, job, i, pl = e
        if pl[0] == 'ackp':
            p = '(PAckP %s %s %s)' % (cz(need_int(pl[1])), cz(need_int(pl[2])), oz(pl[3]))
        elif pl[0] == 'readyp':
            p = '(PReadyP %s %s)' % (c_res(pl[1]), cz(need_int(pl[2])))
        else:
            raise Unrepresentable('message %r' % (e,))
        return '(EPut (mk_msg %s %s %s %s))' % (cz(need_int(ty)), cz(need_int(job)), oz(i), p)
    raise Unrepresentable('event %r' % (e,))


def c_exit(x):
    k, code = x[0], x[1]
    if k == 'ret':
        return '(XReturn %s)' % cz(need_int(code))
    if k == 'sysexit':
        return '(XSysExit %s)' % cz(need_int(code))
    if k == 'assert':
        return 'XAssert'
    if k == 'starved':
        return 'XStarved'
    if k == 'taskexc':
        return '(XTaskExc %s %s)' % (cbool(x[1]), cz(need_int(x[2])))
    if k == 'terminated':
        return '(XTerminated %s)' % cz(need_int(code))
    raise Unrepresentable('workloop left by %r' % (x,))


def c_wobs(o):
    return '(%s, %s, %s, %s, %s, %s)' % (
        clist(o['log'], c_ev), c_exit(o['exit']), oz(o['completed']),
        copt(o['ensure'], cbool), cz(o['reads']), cz(o['sleeps']))


def c_pev(e, accept_cb=True):
    if e[0] == 'cancel':
        return 'PCancel'
    if e[0] == 'ack':
        _, i, t, pid, fd, raises = e[:6]
        late = e[6] if len(e) > 6 else 0
        return '(PAck %s %s %s %s %s %s)' % (oz(i), cz(t), cz(pid), oz(fd), cbool(raises),
                                             cbool(late == 1 or (late == 2 and bool(accept_cb))))
    _, i, ok, v = e
    return '(PReady %s %s %s)' % (oz(i), cbool(ok), cz(v))


def c_pout(e):
    k = e[0]
    if k == 'cancelled':
        return 'OCancelled'
    if k == 'timeout_set':
        return 'OTimeoutSet'
    if k == 'cb_accept':
        return '(OCbAccept %s %s)' % (cz(need_int(e[1])), cz(need_int(e[2])))
    if k == 'send_ack':
        if e[3] != 41:
            raise Unrepresentable('send_ack for job %r' % (e[3],))
        return '(OSendAck %s %s %s)' % (cz(need_int(e[1])), cz(need_int(e[2])), cz(need_int(e[4])))
    if k == 'acked':
        if e[1] != 0:
            raise Unrepresentable('on_ack left restart_state.R = %r' % (e[1],))
        return 'OAcked'
    if k == 'timeout_cancel':
        return 'OTimeoutCancel'
    if k == 'cb_result':
        return '(OCbResult %s)' % cz(e[1])
    if k == 'cb_error':
        return '(OCbError %s)' % cz(e[1])
    if k == 'readied':
        return 'OReadied'
    raise Unrepresentable('parent output %r' % (e,))


def c_pcfg(c):
    return '(mk_pcfg %s %s %s %s %s)' % tuple(
        cbool(c[k]) for k in ('job_known', 'send_ack', 'accept_cb', 'callback', 'error_cb'))


def c_pobs(o):
    return '(%s, %s, %s, %s, %s, %s, %s, %s)' % (
        clist(o['log'], c_pout), cbool(o['accepted']), oz(o['pid']), oz(o['time']),
        cbool(o['ready']), cbool(o['in_cache']), clist(o['pids']), cbool(o['cancelled_now']))


def c_zz(p):
    return '(%s, %s)' % (cz(need_int(p[0])), cz(need_int(p[1])))


def c_cobs(k):
    return '(%s, %s, %s, %s)' % (copt(k['onexit'], c_zz), copt(k['death'], c_zz),
                                 copt(k['osexit'], lambda v: cz(need_int(v))), cbool(k['sleep1']))


def to_coq(c, o):
    if c['kind'] == 'h':
        pc = dict(job_known=True, send_ack=c['send_ack'], accept_cb=c['accept_cb'], callback=c['callback'],
                  error_cb=c['error_cb'])
        if c['mode'] == 'plain' and not o['synq_none']:
            raise Unrepresentable('Pool.get_process_queues returned a SYN queue')
        po = ['(%s, (%s, %s, %s), %s)' % (cz(int(j)), cbool(v['cancel']), cbool(v['raises']), cbool(v['late_lands']),
                                          c_pobs(v)) for j, v in sorted(o['parents'].items())]
        return '(HCase %s %s %s %s %s [%s])' % (
            c_pcfg(pc), cbool(c['mode'] == 'linked'), c_cfg(c),
            clist(c['ins'], lambda e: c_hinev(e, c['accept_cb'])), c_wobs(o), '; '.join(po))
    if c['kind'] == 'w' and c.get('shared_syn'):
        return '(SCase %s %s %s)' % (c_cfg(c), clist(c['ins'], c_inev), c_wobs(o))
    if c['kind'] == 'w' and c.get('via_call'):
        return '(CCase %s %s %s %s)' % (c_cfg(c), clist(c['ins'], c_inev), c_wobs(o), c_cobs(o['call']))
    if c['kind'] == 'w':
        return '(WCase %s %s %s)' % (c_cfg(c), clist(c['ins'], c_inev), c_wobs(o))
    return '(PCase %s %s %s)' % (c_pcfg(c), clist(c['evs'], lambda e: c_pev(e, c['accept_cb'])), c_pobs(o))


# ------------------------------------------------------------------ generation
BEHS = [['ret', 5], ['ret', 0], ['retu'], ['raise', 1], ['raise', 2], ['raiseu', 3], ['base', 1],
        ['base', 2], ['base', 3]]
TERM_CODES = [-241, -241, -254, 0, 1, 155]
NONJOB = [['timeout'], ['eintr'], ['falsy']]
TERMINAL = [['shutdown'], ['eof'], ['ioerr'], ['none']]


def gen_syn(rng, synfd, forced=None):
    if synfd is None:
        # the script is present but must never be consulted
        return rng.choice([[], [['msg', 3]], [['msg', 0]]])
    pre = [rng.choice(NONJOB) for _ in range(rng.choice([0, 0, 0, 1, 1, 2, 5]))]
    if rng.random() < 0.03:
        # a parent that answers late: more empty polls than the 60 after which wait_for_syn only logs
        pre = [['timeout'] if rng.random() < 0.9 else rng.choice(NONJOB) for _ in range(rng.choice([61, 62, 70, 125]))]
    if forced is not None:
        return pre + [forced]
    r = rng.random()
    if r < 0.62:
        return pre + [['msg', 0]]
    if r < 0.86:
        return pre + [['msg', 3]]
    if r < 0.92:
        return pre + [rng.choice(TERMINAL)]
    if r < 0.96:
        return pre + [['msg', rng.choice([1, 2, 4, 7, -1])]]
    return pre          # starved


def gen_job(rng, jid, t, synfd, beh=None, syn=None, ty=2):
    if beh is None:
        beh = rng.choice(BEHS) if rng.random() > 0.03 else ['term', rng.choice(TERM_CODES)]
    return ['msg', ty, jid, rng.choice([None, None, 0, 3, 17]), t, beh,
            syn if syn is not None else gen_syn(rng, synfd),
            rng.choice([0, -1, 50, 100, 100, 101, 150, 99]),
            1 if rng.random() < 0.06 else 0]


def gen_cfg(rng):
    return dict(kind='w',
                maxtasks=rng.choice([None, None, None, 1, 2, 2, 3, 4, 5, 5]),
                synfd=rng.choice([None, None, 9, 9, 0]),
                inqfd=rng.choice([7, 7, 0, 12]),
                pid=rng.choice([None, 0, 77, 77, 31337]), ospid=4242,
                maxmem=rng.choice([None, None, 0, -5, 100, 100, 1]),
                counter=rng.choice([None, None,
                                    dict(reads=[], dflt=0), dict(reads=[], dflt=1000),
                                    dict(reads=[0, 0, 1, 2, 3], dflt=3),
                                    dict(reads=[0] * 299, dflt=50),
                                    dict(reads=[0] * 300, dflt=50),
                                    dict(reads=[rng.randint(0, 4) for _ in range(rng.randint(0, 6))],
                                         dflt=rng.randint(0, 6))]))


def gen_wcase(rng):
    c = gen_cfg(rng)
    if rng.random() < 0.04:
        c['maxtasks'] = rng.choice([0, -1, -3])     # refused by the constructor's assert; still code
    ins = []
    jid = rng.choice([0, 1, 10, 1000])
    t = rng.choice([0, 100, 5000])
    njobs = rng.choice([0, 1, 2, 3, 4, 5, 6, 8, 12, 20, 30])
    for _ in range(njobs):
        while rng.random() < 0.25:
            ins.append(rng.choice(NONJOB))
        if rng.random() < 0.02:
            ins.append(rng.choice(TERMINAL))
        jid += rng.choice([1, 1, 1, 0, 2])
        t += rng.choice([0, 1, 3])
        ty = 2 if rng.random() < 0.98 else rng.choice([0, 1, 3, 5])
        ins.append(gen_job(rng, jid, t, c['synfd'], ty=ty))
    if rng.random() < 0.85:
        ins.append(rng.choice(TERMINAL))
    c['ins'] = ins
    if rng.random() < 0.3:
        via_call(c)
    elif c['synfd'] is not None and rng.random() < 0.6:
        c['shared_syn'] = True         # the SYN channel is one stream shared by the jobs
        if rng.random() < 0.15:
            # a parent that answers twice / late garbage: the rest is read by the NEXT job
            for e in ins:
                if e[0] == 'msg' and rng.random() < 0.4:
                    e[6] = e[6] + [rng.choice([['msg', 0], ['msg', 3], ['timeout']])]
    return c


def via_call(c):
    """run this case through the real Worker.__call__ (which passes pid=os.getpid())"""
    c['via_call'] = True
    c['pid'] = None
    return c


def boundary_wcases(full=True):
    """systematically enumerated: k jobs of one behaviour under every quota, with and without
    handshake; quota edge N-1/N/N+1; NACK in every position; memory limit edge; every receive
    event in first position and in the SYN wait"""
    rng = random.Random(20030303)
    out = []
    base = dict(kind='w', synfd=None, inqfd=7, pid=77, ospid=4242, maxmem=None, counter=None)
    for beh in BEHS:
        for quota in ((None, 1, 2, 3, 4, 5) if full else (None, 1, 2, 5)):
            for k in ((0, 1, 30) if quota is None else (quota - 1, quota, quota + 1)):
                for synfd in (None, 9):
                    c = dict(base, maxtasks=quota, synfd=synfd)
                    c['ins'] = [['msg', 2, 100 + n, None, 10 + n, beh,
                                 [['msg', 0]] if synfd else [], 0] for n in range(k)] + [['shutdown']]
                    out.append(c)
    # a refusal in every position of a 4-job run with quota 3
    for pos in range(4):
        c = dict(base, maxtasks=3, synfd=9, counter=dict(reads=[0, 1, 2], dflt=3))
        c['ins'] = [['msg', 2, n, n, n, ['ret', n], [['timeout'], ['msg', 3 if n == pos else 0]], 0]
                    for n in range(5)] + [['eof']]
        out.append(c)
    # memory limit: readings around the limit, limit disabled / zero / negative
    for maxmem in (None, 0, -1, 1, 100):
        for mem in (-1, 0, 1, 99, 100, 101):
            c = dict(base, maxtasks=None, maxmem=maxmem)
            c['ins'] = [['msg', 2, 1, None, 1, ['ret', 1], [], mem],
                        ['msg', 2, 2, None, 2, ['raise', 1], [], mem], ['none']]
            out.append(c)
    # every receive event first, and inside the SYN wait
    for e in NONJOB + TERMINAL:
        c = dict(base, maxtasks=2)
        c['ins'] = [e, ['msg', 2, 1, None, 1, ['ret', 1], [], 0]]
        out.append(c)
        c = dict(base, maxtasks=2, synfd=9)
        c['ins'] = [['msg', 2, 1, None, 1, ['ret', 1], [e, ['msg', 0]], 0],
                    ['msg', 2, 2, None, 2, ['ret', 2], [['msg', 0]], 0], ['shutdown']]
        out.append(c)
    # a parent that answers late: k empty polls of the SYN pipe (the code logs after 60 and must go
    # on waiting), then the answer; the next job is refused; one SYN stream shared by the jobs, so an
    # answer that is not awaited would be read by the next job
    for k in ((59, 60, 61, 62, 130) if full else (60, 61, 62)):
        for first, second in ((0, 3), (3, 0), (0, 0)):
            for shared in (True, False):
                c = dict(base, maxtasks=None, synfd=9)
                if shared:
                    c['shared_syn'] = True
                c['ins'] = [['msg', 2, 1, None, 1, ['ret', 11], [['timeout']] * k + [['msg', first]], 0],
                            ['msg', 2, 2, None, 2, ['ret', 22], [['timeout'], ['msg', second]], 0],
                            ['msg', 2, 3, None, 3, ['raise', 1], [['msg', 0]], 0], ['shutdown']]
                out.append(c)
    # invalid quotas, pid defaults, bad types, starvation
    for q in (0, -1):
        out.append(dict(base, maxtasks=q, ins=[['msg', 2, 1, None, 1, ['ret', 1], [], 0]]))
    for pid in (None, 0, 5):
        out.append(dict(base, maxtasks=1, pid=pid, ins=[['msg', 2, 1, None, 1, ['ret', 1], [], 0]]))
    for ty in (0, 1, 3, 4):
        out.append(dict(base, maxtasks=None, ins=[['msg', ty, 1, None, 1, ['ret', 1], [], 0]]))
        out.append(dict(base, maxtasks=None, synfd=9,
                        ins=[['msg', 2, 1, None, 1, ['ret', 1], [['msg', ty]], 0], ['shutdown']]))
    out.append(dict(base, maxtasks=None, ins=[]))
    out.append(dict(base, maxtasks=None, synfd=9, ins=[['msg', 2, 1, None, 1, ['ret', 1], [['timeout']], 0]]))
    # termination request: every behaviour with the flag set, and the handler itself, as the
    # second of three jobs, with and without handshake and quota
    for beh in BEHS + [['term', -241], ['term', 1], ['term', 155]]:
        for synfd in (None, 9):
            for quota in (None, 2):
                c = dict(base, maxtasks=quota, synfd=synfd)
                c['ins'] = [['msg', 2, n, None, n, beh if n == 1 else ['ret', n],
                             [['msg', 0]] if synfd else [], 0, 1 if n == 1 else 0] for n in range(3)] + [['shutdown']]
                out.append(c)
    # counter: reached at poll 0, 1, 299, never
    for reads, dflt in (([], 5), ([0], 5), ([0] * 299, 5), ([0] * 300, 5), ([0] * 300, 0), ([2, 0], 0)):
        c = dict(base, maxtasks=2, counter=dict(reads=reads, dflt=dflt))
        c['ins'] = [['msg', 2, n, None, n, ['ret', n], [], 0] for n in range(2)]
        out.append(c)
    # every way of leaving the loop, through Worker.__call__/_do_exit (exit status, DEATH message)
    for k, c in enumerate(list(out)):
        if k % 4 == 0:
            out.append(via_call(json.loads(json.dumps(c))))
    rng.shuffle(out)
    return out


PALPHA = ([['cancel']] +
          [['ack', None, 100, pid, fd, r] for pid in (77, 0) for fd in (9, None, 0) for r in (0, 1)] +
          [['ack', 2, 105, 78, 9, 0]] +
          # a _cancel() lands while _ack runs: in the timeout hook (1) / issued by the accept callback (2)
          [['ack', None, 100, 77, fd, r, late] for fd in (9, 9, None) for r in (0, 1) for late in (1, 2)] +
          [['ready', None, ok, 5] for ok in (0, 1)])


def gen_pcase(rng):
    return dict(kind='p', job_known=rng.random() < 0.9, send_ack=rng.random() < 0.6,
                accept_cb=rng.random() < 0.75, callback=rng.random() < 0.8, error_cb=rng.random() < 0.7,
                evs=[rng.choice(PALPHA) for _ in range(rng.choice([0, 1, 2, 2, 3, 3, 4, 5, 6]))])


def boundary_pcases(full):
    """all event lists up to length 3 (quick: 2) over a reduced alphabet, all 16 callback configs"""
    alpha = [['cancel'], ['ack', None, 100, 77, 9, 0], ['ack', None, 101, 78, None, 0],
             ['ack', None, 100, 77, 9, 1], ['ready', None, 1, 5], ['ready', None, 0, 6],
             ['ack', None, 100, 77, 9, 0, 2]]          # the accept callback cancels its own job
    # the other late-cancellation shapes, alone and followed by a second ACK / the result
    late = [['ack', None, 100, 77, fd, r, lt] for fd in (9, None) for r in (0, 1) for lt in (1, 2)]
    out = []
    for send_ack, accept_cb, callback, error_cb in itertools.product((True, False), repeat=4):
        for n in range(0, 4 if full else 3):
            for evs in itertools.product(alpha, repeat=n):
                out.append(dict(kind='p', job_known=True, send_ack=send_ack, accept_cb=accept_cb,
                                callback=callback, error_cb=error_cb, evs=list(evs)))
        if callback and error_cb:
            for a in late:
                for tail in ([], [['ack', None, 101, 77, 9, 0]], [['ready', None, 1, 5]], [['cancel'], ['ready', None, 0, 6]]):
                    out.append(dict(kind='p', job_known=True, send_ack=send_ack, accept_cb=accept_cb,
                                    callback=callback, error_cb=error_cb, evs=[a] + tail))
    return out


def derive_pcases(rng, wcases, wouts, n):
    """parent cases made from REAL worker output streams: the messages one worker wrote for one
    job, in pipe order, with cancellations woven in at random positions"""
    out = []
    idx = list(range(len(wcases)))
    rng.shuffle(idx)
    for k in idx:
        if len(out) >= n:
            break
        puts = [e for e in wouts[k]['log'] if e[0] == 'put' and e[4][0] in ('ackp', 'readyp')]
        jobs = sorted({e[2] for e in puts})
        if not jobs:
            continue
        J = rng.choice(jobs)
        evs = []
        for e in puts:
            if e[2] != J:
                continue
            if rng.random() < 0.2:
                evs.append(['cancel'])
            if e[4][0] == 'ackp' and e[1] == 0:
                evs.append(['ack', e[3], e[4][1], e[4][2], e[4][3], 0])
            elif e[4][0] == 'readyp' and e[1] == 1:
                r = e[4][1]
                evs.append(['ready', e[3], 1 if r[0] == 'ok' else 0,
                            r[1] if r[0] in ('ok', 'fail', 'base') and isinstance(r[1], int) else -1])
        out.append(dict(kind='p', job_known=True, send_ack=rng.random() < 0.5, accept_cb=True,
                        callback=True, error_cb=True, evs=evs, derived_from_worker_case=True))
    return out


def gen_hcase(rng, mode=None):
    """closed handshake: real workloop + real ResultHandler/ApplyResult, jobs cancelled before
    acceptance with probability 0.3"""
    mode = mode or rng.choice(['plain', 'plain', 'linked', 'linked', 'linked', 'dropped'])
    c = gen_cfg(rng)
    c.update(kind='h', mode=mode, counter=None, pid=rng.choice([77, 31337, None]))
    c['synfd'] = None if mode == 'plain' else rng.choice([9, 9, 9, 0])
    c['send_ack'] = rng.random() < (0.75 if mode == 'plain' else 0.9)
    c['accept_cb'], c['callback'], c['error_cb'] = (rng.random() < 0.85, rng.random() < 0.85, rng.random() < 0.8)
    ins, jid, t = [], rng.choice([0, 10, 500]), 100
    for _ in range(rng.choice([1, 1, 2, 3, 4, 6])):
        while rng.random() < 0.2:
            ins.append(rng.choice(NONJOB))
        jid += rng.choice([1, 2])
        t += rng.choice([0, 1, 3])
        beh = rng.choice(BEHS) if rng.random() > 0.03 else ['term', rng.choice(TERM_CODES)]
        delay = [rng.choice(NONJOB) for _ in range(rng.choice([0, 0, 1, 2, 3]))]
        if rng.random() < 0.04:
            delay = [['timeout']] * rng.choice([61, 65])
        ins.append(['msg', 2 if rng.random() < 0.98 else 5, jid, rng.choice([None, None, 0, 3]), t, beh,
                    delay if c['synfd'] is not None else [], rng.choice([0, 50, 100, 101]),
                    1 if rng.random() < 0.05 else 0, 1 if rng.random() < 0.3 else 0,
                    1 if rng.random() < 0.05 else 0,           # the accept callback raises
                    rng.choice([0, 0, 0, 0, 0, 1, 2, 2])])     # a _cancel() lands while _ack runs
    if rng.random() < 0.9:
        ins.append(rng.choice(TERMINAL))
    c['ins'] = ins
    return c


def boundary_hcases(full=True):
    out = []
    base = dict(kind='h', maxtasks=None, inqfd=7, pid=77, ospid=4242, maxmem=None, counter=None)
    for mode, synfd in (('plain', None), ('linked', 9), ('dropped', 9), ('linked', 0)):
        for send_ack in (True, False):
            for accept_cb in (True, False):
                for pattern in ((0,), (1,), (0, 1, 0), (1, 1), (1, 0, 1)):
                    c = dict(base, mode=mode, synfd=synfd, send_ack=send_ack, accept_cb=accept_cb, callback=True,
                             error_cb=True, maxtasks=None if len(pattern) < 3 else 2)
                    c['ins'] = [['msg', 2, 10 + n, None, 100 + n, ['ret', n] if n != 1 else ['raise', 2],
                                 [['timeout']] * n if synfd is not None else [], 0, 0, cancel]
                                for n, cancel in enumerate(pattern)] + [['shutdown']]
                    out.append(c)
    # the hook point inside _ack: every combination of (cancelled before acceptance, accept callback raises,
    # a _cancel() landing while _ack runs: no / from the timeout hook / by the accept callback itself) for the first
    # of two jobs, and for the second of three
    for mode, synfd in (('plain', None), ('linked', 9)):
        for send_ack in (True, False):
            for accept_cb in (True, False):
                for cancel, raises, late in itertools.product((0, 1), (0, 1), (0, 1, 2)):
                    if (raises or late == 2) and not accept_cb:
                        continue
                    for pos, njobs in (((0, 2), (1, 3)) if full or (send_ack and accept_cb) else ((0, 2),)):
                        c = dict(base, mode=mode, synfd=synfd, send_ack=send_ack, accept_cb=accept_cb, callback=True,
                                 error_cb=True)
                        c['ins'] = [['msg', 2, 20 + n, None, 200 + n, ['ret', n], [['timeout']] * (n % 2) if synfd else [],
                                     0, 0] + ([cancel, raises, late] if n == pos else [0, 0, 0])
                                    for n in range(njobs)] + [['shutdown']]
                        out.append(c)
    return out


# ------------------------------------------------------------------ python-side monitor
FINDING_SYNACK = 'C03:synack-without-syn-queue-runs-cancelled-job'
FINDING_O1 = 'C03:raising-accept-callback-leaves-worker-unanswered'       # F-C03-2
REGISTERED = (FINDING_SYNACK, FINDING_O1)


def seg_first_answer(seg):
    """(index, type) of the answer the worker's wait ends with, (index, None) for an event that
    ends the loop, (None, None) when the wait never ends within the script"""
    for n, e in enumerate(seg):
        if e[0] == 'msg':
            return n, e[1]
        if e[0] in ('shutdown', 'eof', 'ioerr', 'none'):
            return n, None
    return None, None


def monitors(c, o):
    """the property, judged directly on what the real code did (independent of the Coq model):
       M1 every answer on the SYN channel is consumed by the job it was sent for;
       M2 every job the worker announced (ACK) and then left behind (it polled for another job) got
          its READY, or was refused by the parent's NACK -- and a refused job is never executed;
       M3 (closed handshake) a job cancelled before acceptance under synack is never executed and no
          result callback runs without the accept callback;
       M4 (closed handshake) a job whose acceptance was announced to the caller -- its accept callback ran and
          returned, the worker is recorded as its owner -- is run by the worker and answered (READY), whatever
          the callback did (e.g. cancel the job: too late) and whatever landed on the handle meanwhile.  Judged
          where the pool implements the handshake (linked, synack on, truthy descriptor) or has none (plain).
          A RAISING accept callback is the code's way of refusing the job (`response = NACK`): then the job must
          be answered (and a refused job not run); linked handshake and no answer at all = known finding F-C03-2."""
    out = []
    jobs = [e for e in c['ins'] if e[0] == 'msg']
    has_syn = c['synfd'] is not None and not (c['kind'] == 'h' and c['mode'] == 'plain')
    parents = o.get('parents', {})
    # own answer of each job (by sequence number)
    own = []
    for e in jobs:
        if c['kind'] == 'h':
            lg = parents.get(str(e[2]), {}).get('log', [])
            sent = [x[1] for x in lg if x[0] == 'send_ack']
            own.append(sent[0] if (sent and c['mode'] == 'linked') else None)
        else:
            own.append(seg_first_answer(e[6])[1])
    closed = c['kind'] == 'h' or all(seg_first_answer(e[6])[0] in (None, len(e[6]) - 1) for e in jobs)
    if c.get('shared_syn') and not closed:
        return out      # the script itself puts answers of one job in front of another job
    if has_syn and closed and (c.get('shared_syn') or c['kind'] == 'h'):
        for consumer, owner, kind in o.get('syn_use', []):
            if consumer != owner:
                out.append(('C03:syn-answer-consumed-by-another-job',
                            'SYN event %s made readable for job #%s was consumed by the wait of job #%s'
                            % (kind, owner, consumer)))
                break
    # walk the trace
    log = o['log']
    acks = [k for k, e in enumerate(log) if e[0] == 'put' and e[1] == 0 and e[4][0] == 'ackp']
    for n, k in enumerate(acks):
        if n >= len(jobs):
            break
        end = acks[n + 1] if n + 1 < len(acks) else len(log)
        seg = log[k + 1:end]
        j, i = log[k][2], log[k][3]
        ready = any(e[0] == 'put' and e[1] == 1 and e[2] == j and e[3] == i for e in seg)
        ran = any(e[0] == 'run' and e[1] == j for e in seg)
        moved_on = any(e[0] == 'inq' for e in seg)
        refused = has_syn and own[n] == 3
        if moved_on and not ready and not refused:
            out.append(('C03:acked-job-neither-answered-nor-refused',
                        'job %s was announced (ACK) and abandoned: no READY, and the answer to its ACK was %s'
                        % (j, {0: 'ACK', None: 'none'}.get(own[n], own[n]))))
        if ran and refused:
            out.append(('C03:refused-job-executed', 'job %s got NACK for its ACK and was executed' % j))
        if c['kind'] == 'h':
            par = parents.get(str(j), {})
            lg = par.get('log', [])
            hooked = c['mode'] == 'plain' or (c['mode'] == 'linked' and c['send_ack'] and bool(c['synfd']))
            cb_ran = any(x[0] == 'cb_accept' for x in lg)
            if hooked and cb_ran and par.get('raises') and c['mode'] == 'linked':
                if not any(x[0] == 'send_ack' for x in lg):
                    out.append((FINDING_O1,
                                'linked handshake, the accept callback of job %s raised: parent log %s, accepted()=%s, '
                                'worker_pids()=%s, NO answer (neither ACK nor NACK) was sent for its ACK; the worker %s '
                                '(workloop left by %s) -- `except self._propagate_errors` in ApplyResult._ack names an '
                                'attribute that does not exist, the AttributeError is swallowed by on_ack' % (
                                    j, lg, par.get('accepted'), par.get('pids'),
                                    'ran the job without an answer' if ran else 'polled its SYN queue until the script ran out',
                                    o['exit'])))
            elif hooked and cb_ran:
                cut = n == len(acks) - 1 and o['exit'][0] in ('taskexc', 'terminated')   # the task itself ended the loop
                if not ran or not (ready or cut):
                    sent = [{0: 'ACK', 3: 'NACK'}.get(x[1], x[1]) for x in lg if x[0] == 'send_ack']
                    out.append(('C03:accepted-job-not-run' if not ran else 'C03:accepted-job-without-result',
                                'job %s was accepted by the parent (accept callback ran: %s, owner recorded: worker_pids()=%s, '
                                'accepted()=%s) but the worker %s; the parent\'s answer to its ACK was %s%s' % (
                                    j, [x for x in lg if x[0] == 'cb_accept'], par.get('pids'), par.get('accepted'),
                                    'never ran it (no RUN, no READY)' if not ran else 'ran it and sent no READY',
                                    sent or 'none',
                                    '; _cancel() was called on the handle while _ack was running (%s), after _ack had '
                                    'decided to accept' % ('by the accept callback itself' if par.get('late') == 2
                                                           else 'from the timeout hook') if par.get('late_lands') else '')))
        if c['kind'] == 'h' and c['send_ack'] and len(jobs[n]) > 9 and jobs[n][9]:
            lg = parents.get(str(j), {}).get('log', [])
            if ran or not py_accept_first(lg):
                plain = c['mode'] == 'plain'
                out.append((FINDING_SYNACK if plain else 'C03:cancelled-job-executed',
                            'synack enabled, job %s cancelled before acceptance: executed=%s, parent callbacks %s, '
                            'accepted()=%s worker_pids()=%s%s' % (
                                j, ran, [x for x in lg if x[0].startswith('cb_')],
                                parents.get(str(j), {}).get('accepted'), parents.get(str(j), {}).get('pids'),
                                ' -- plain billiard.Pool(synack=True): Pool.get_process_queues gives the workers no '
                                'SYN queue and Pool.send_ack is a no-op, so nothing refuses the job' if plain else '')))
    return out


def py_accept_first(log):
    """the property, evaluated directly on the real parent's output: no result/error callback
    before the accept callback"""
    seen = False
    for e in log:
        if e[0] == 'cb_accept':
            seen = True
        elif e[0] in ('cb_result', 'cb_error') and not seen:
            return False
    return True


def brief(c):
    """JSON of a case with runs of equal SYN events written as [event, "x", count]"""
    def squeeze(l):
        out = []
        for e in l:
            if out and out[-1][0] == e:
                out[-1][1] += 1
            else:
                out.append([e, 1])
        return [e if n == 1 else [e[0], 'x', n] for e, n in out]
    d = dict(c)
    if 'ins' in d:
        d['ins'] = [e[:6] + [squeeze(e[6])] + e[7:] if e[0] == 'msg' else e for e in d['ins']]
    return json.dumps(d)


def nontrivial(c):
    if c['kind'] in ('w', 'h'):
        return sum(1 for e in c['ins'] if e[0] == 'msg') >= 2
    return len(c['evs']) >= 2


def correspond(res, n):
    rng = random.Random(res.seed * 65537 + 303)
    corpus = json.load(open(core.VERIF + '/corpus/C03.json'))
    full = res.tier != 'quick'
    wcases = [c for c in corpus if c['kind'] in ('w', 'h')] + boundary_wcases(full) + boundary_hcases(full) \
        + [gen_wcase(rng) for _ in range(n)] + [gen_hcase(rng) for _ in range(max(60, n // 3))]
    wouts = core.run_driver('worker_driver.py', wcases, timeout=1200)
    # the property judged directly on the real traces
    late_alarms = []        # the registered / candidate finding goes last: anything else is reported first
    mon = []
    for c, o in zip(wcases, wouts):
        for sig, what in monitors(c, o)[:1]:
            mon.append((len(json.dumps(c)), dict(signature=sig, what='%s; case %s' % (what, brief(c)[:700]),
                                                 replay=dict(case=c, impl=o, monitor=sig))))
    for _, a in sorted(mon, key=lambda x: ('cb_result' not in x[1]['what'], x[0])):      # most telling, smallest first
        (late_alarms if a['signature'] in REGISTERED else res.alarms).append(a)
    # the same configuration with a REAL pool and a real worker process
    rcases = [dict(kind='real', synack=True, cancel=True), dict(kind='real', synack=True, cancel=False)]
    if full:
        rcases += [dict(kind='real', synack=False, cancel=True), dict(kind='real', synack=False, cancel=False)]
    routs = core.run_driver('worker_driver.py', rcases, timeout=400)
    for c, o in zip(rcases, routs):
        if o.get('error'):
            res.broken.append(dict(kind='harness', name='real-pool scenario failed', detail=json.dumps(dict(case=c, impl=o))))
            continue
        ran = o['value'] == 14 or any(e[0] == 'cb_result' for e in o['log'])
        if c['synack'] and c['cancel'] and (ran or not py_accept_first(o['log'])):
            plain = not o['worker_has_syn_queue']
            late_alarms.append(dict(
                signature=FINDING_SYNACK if plain else 'C03:cancelled-job-executed',
                what='real billiard.Pool(1, synack=True), job cancelled (_cancel()) while the only worker was busy, i.e. '
                     'before acceptance: get() -> %r, callbacks %s, accepted()=%s, worker_pids() has %d entries, worker '
                     'has a SYN queue: %s' % (o['value'], o['log'], o['accepted'], o['pids'], o['worker_has_syn_queue']),
                replay=dict(case=c, impl=o, monitor=FINDING_SYNACK)))
        elif not py_accept_first(o['log']) or (not c['cancel'] and o['value'] != 14):
            res.alarms.append(dict(signature='C03:result-callback-before-accept',
                                   what='real pool: %s -> %s' % (json.dumps(c), json.dumps(o)),
                                   replay=dict(case=c, impl=o)))
    pcases = ([c for c in corpus if c['kind'] == 'p'] + boundary_pcases(full)
              + [gen_pcase(rng) for _ in range(n)] + derive_pcases(rng, wcases, wouts, max(50, n // 3)))
    pouts = core.run_driver('worker_driver.py', pcases, timeout=1200)
    cases, outs = wcases + pcases, wouts + pouts

    terms, tidx = [], []
    for k, (c, o) in enumerate(zip(cases, outs)):
        try:
            terms.append(to_coq(c, o))
            tidx.append(k)
        except Unrepresentable as exc:
            # the implementation produced something the model's vocabulary does not have
            res.alarms.append(dict(
                signature='C03:worker-protocol-differs' if c['kind'] in ('w', 'h') else 'C03:parent-ack-differs',
                what='implementation produced an observation outside the protocol vocabulary (%s) on %s'
                     % (exc, json.dumps(c)[:600]),
                replay=dict(case=c, impl=o)))
    # worker cases are large terms: smaller chunks
    nw = sum(1 for k in tidx if cases[k]['kind'] in ('w', 'h'))
    chunks = core.chunks(terms[:nw], 120) + core.chunks(terms[nw:], 450)
    chunks = [ch for ch in chunks if ch]
    try:
        codes, _ = core.coq_eval('C03', HEADER, chunks, timeout=1500)
    except RuntimeError:
        # a concurrent build may have replaced a .vo under our feet: once more, under the build lock
        with core.Lock():
            core.coq_make(['Model/Worker.vo'])
            codes, _ = core.coq_eval('C03', HEADER, chunks, timeout=1500)

    # accept-before-result judged directly on the implementation's parent traces that are in
    # pipe order (derived from real worker streams)
    for c, o in zip(pcases, pouts):
        if c.get('derived_from_worker_case') and not any(e[0] == 'cancel' for e in c['evs']):
            if not py_accept_first(o['log']):
                res.alarms.append(dict(signature='C03:result-callback-before-accept',
                                       what='result callback ran before the accept callback on a worker stream '
                                            'consumed in pipe order: %s -> %s' % (json.dumps(c['evs']), json.dumps(o['log'])),
                                       replay=dict(case=c, impl=o)))

    hist = dict(jobs={}, behaviours={}, quotas={}, syn_answers={}, exits={}, parent_lengths={}, via_call_status={},
                syn_wait_polls={}, handshake_modes={}, cancelled_before_acceptance=0, shared_syn_stream=0,
                cancelled_while_ack_runs={}, accept_callback_raises=0,
                observation_O1_raising_accept_callback_leaves_worker_unanswered=0)

    def bump(d, k):
        d[str(k)] = d.get(str(k), 0) + 1
    for c, o in zip(wcases, wouts):
        jobs = [e for e in c['ins'] if e[0] == 'msg']
        bump(hist['jobs'], len(jobs))
        bump(hist['quotas'], c['maxtasks'])
        bump(hist['exits'], ':'.join(str(v) for v in o['exit']))
        if c.get('via_call'):
            bump(hist['via_call_status'], o['call']['osexit'])
        if c['kind'] == 'h':
            bump(hist['handshake_modes'], '%s/synack=%s' % (c['mode'], c['send_ack']))
            hist['cancelled_before_acceptance'] += sum(1 for e in jobs if len(e) > 9 and e[9])
            for e in jobs:
                if len(e) > 11 and e[11]:
                    bump(hist['cancelled_while_ack_runs'], {1: 'from the timeout hook', 2: 'by the accept callback'}[e[11]])
                if len(e) > 10 and e[10]:
                    hist['accept_callback_raises'] += 1
            # observation O1 (docs/C03.md), seen on the real code: the accept callback of an accepted job raised, no
            # answer was sent and the worker was left polling its SYN queue (the model says the same: code 0)
            if c['mode'] == 'linked' and c['send_ack'] and c['synfd'] and o['exit'][0] == 'starved' and any(
                    v.get('raises') and not v['cancel'] and any(x[0] == 'cb_accept' for x in v['log'])
                    and not any(x[0] == 'send_ack' for x in v['log']) for v in o['parents'].values()):
                hist['observation_O1_raising_accept_callback_leaves_worker_unanswered'] += 1
        if c.get('shared_syn'):
            hist['shared_syn_stream'] += 1
        for e in jobs:
            if c['synfd'] is not None:
                k = len(e[6])
                bump(hist['syn_wait_polls'], '0-5' if k <= 5 else '6-60' if k <= 60 else '61+')
            bump(hist['behaviours'], e[5][0] + ('+termflag' if len(e) > 8 and e[8] else ''))
            if c['synfd'] is not None:
                last = e[6][-1] if e[6] else ['starved']
                bump(hist['syn_answers'], 'msg%s' % last[1] if last[0] == 'msg' else last[0])
    for c in pcases:
        bump(hist['parent_lengths'], len(c['evs']))
    distinct = len({json.dumps(c, sort_keys=True) for c in cases if nontrivial(c)})
    sample_w = next((k for k, c in enumerate(wcases) if 2 <= len(c['ins']) <= 4 and c['synfd'] is not None), 0)
    hist['real_pool_scenarios'] = len(rcases)
    res.add_cov(evaluations=len(cases) + len(rcases), distinct=distinct, traces=len(cases) + len(rcases),
                samples=[dict(case=wcases[sample_w], impl=wouts[sample_w]),
                         dict(case=pcases[-1], impl=pouts[-1])],
                rule='worker: corpus + enumerated boundary cases (every behaviour x quota None/1..5 x N-1/N/N+1 jobs x '
                     'handshake on/off (quick tier: quotas None/1/2/5), refusal in every position, memory readings around the limit, every receive event '
                     'on the job pipe and in the SYN wait, invalid quotas, counter reached at poll 0/1/299/never) + seeded '
                     'random scripts of 0..30 jobs; parent: all event lists up to length %d over 7 events x 16 callback '
                     'configurations + random lists + streams derived from the real worker outputs with cancellations '
                     'woven in; worker also over ONE shared SYN stream (60 %% of handshake scripts), 59..130 empty SYN polls '
                     'before a late answer, answers sent twice; closed handshake cases (real workloop || real ResultHandler + one '
                     'ApplyResult per job, jobs cancelled before acceptance, modes plain / linked / response dropped; accept '
                     'callbacks that cancel their own job or raise, _cancel() landing in the timeout hook while _ack runs) enumerated '
                     'and random; parent lists with the same late cancellations; 2 (thorough 4) scenarios on a real Pool with a real worker process; non-trivial = at least two '
                     'jobs / two parent events; distinct by canonical JSON'
                     % (3 if full else 2),
                worker_cases=len(wcases), parent_cases=len(pcases), input_histogram=hist)
    # smallest failing input first (it becomes the replay)
    def size(ic):
        c = cases[tidx[ic[0]]]
        odd = c['kind'] in ('w', 'h') and c['maxtasks'] is not None and c['maxtasks'] < 1   # constructor refuses it
        return (odd, len(json.dumps(c)), ic[0])
    codes = sorted(codes, key=size)
    for i, code in codes:
        k = tidx[i]
        c, o = cases[k], outs[k]
        if code == 2:
            if c['kind'] in ('w', 'h'):
                sig, what = 'C03:worker-protocol-differs', (
                    'real Worker.workloop violates the protocol / differs from the proved model in messages, '
                    'executions, exit, completed count or reported exit status')
            else:
                sig, what = 'C03:parent-ack-differs', (
                    'real ResultHandler/ApplyResult differs from the proved model in callbacks, SYN response or ownership record')
            res.alarms.append(dict(signature=sig, what='%s on %s: impl %s' % (
                what, brief(c)[:700], json.dumps(dict(o, syn_use=len(o['syn_use'])) if isinstance(o, dict) and 'syn_use' in o else o)[:700]),
                replay=dict(case=c, impl=o)))
        else:
            res.broken.append(dict(kind='correspondence', name='Worker.workloop vs model (bookkeeping events only)',
                                   detail=json.dumps(dict(case=c, impl=o))[:3000]))
    res.alarms.extend(late_alarms)


def run(res):
    res.proof_step('Props/C03.v', extra_targets=['Model/Worker.vo'], kernels_needed=['K_worker', 'K_workerparent'])
    n = 200 if res.tier == 'quick' else 8000
    if res.broken:
        n = max(n, 3000)      # failing-input search
    correspond(res, n)
    res.assumptions += [
        'the task function, pipes, sentinel, clock, mem_rss() and the consumed-result counter are oracles: theorems hold for all of them; the harness scripts them',
        'when a termination signal arrives is an oracle (behaviour Terminated / flag q_term); signal delivery itself belongs to C05/C08',
        'put() of an ACK never raises (its payload is ints); a second failure of the fallback READY put is not modelled',
        'the SYN channel is FIFO and what the parent sends for a job becomes readable after that job\'s ACK was written (closed handshake cases realise exactly this); a pool that implements the handshake overrides BOTH Pool.get_process_queues and Pool.send_ack (plain billiard overrides neither: see C03_synack_honours_cancel_refuted)',
        'parent side is one ApplyResult behind ResultHandler.on_ack/on_ready; MapResult/IMapIterator acknowledgement belongs to C02; closed parent/worker composition belongs to the pool model (C01)',
    ]


# ------------------------------------------------------------------ replay
def model_eval(term):
    """print what the model computes for one case"""
    cdir = os.path.join(core.COQ, 'Cases')
    os.makedirs(cdir, exist_ok=True)
    fn = os.path.join(cdir, 'C03_replay_model.v')
    with open(fn, 'w') as fh:
        fh.write(HEADER + '\n' + 'Eval vm_compute in (%s).\n' % term)
    try:
        p = subprocess.run(['coqc', '-Q', '.', 'BV', '-w', '-notation-overridden', os.path.relpath(fn, core.COQ)],
                           cwd=core.COQ, stdout=subprocess.PIPE, stderr=subprocess.STDOUT, text=True, timeout=300)
        return re.sub(r'\s+', ' ', p.stdout).strip()
    finally:
        for ext in ('.v', '.vo', '.vok', '.vos', '.glob'):
            try:
                os.remove(fn[:-2] + ext)
            except OSError:
                pass


def replay(path):
    d = json.load(open(path))
    if 'replay' not in d:
        print('no concrete failing input in this file (obligation broken):')
        for b in d.get('broken', []):
            print(' ', b.get('kind'), b.get('name'))
        return 1
    c = d['replay']['case']
    out = core.run_driver('worker_driver.py', [c])[0]
    print('case:', json.dumps(c))
    print('implementation now:', json.dumps(out))
    if c['kind'] == 'real':
        ran = out.get('value') == 14 or any(e[0] == 'cb_result' for e in out.get('log', []))
        bad = c['synack'] and c['cancel'] and (ran or not py_accept_first(out.get('log', [])))
        print('cancelled job executed / result callback without accept callback' if bad else 'property holds on this scenario')
        return 1 if bad else 0
    with core.Lock():
        core.translate(['K_worker', 'K_workerparent'])
        core.coq_make(['Model/Worker.vo'])
        if c['kind'] == 'h':
            for sig, what in monitors(c, out):
                print('monitor:', sig, '--', what)
            print('model:', model_eval('Worker.workloop_s %s (Worker.hs_ins %s %s %s %s)' % (
                c_cfg(c), c_pcfg(dict(c, job_known=True)), cbool(c['mode'] == 'linked'), c_cfg(c),
                clist(c['ins'], lambda e: c_hinev(e, c['accept_cb'])))))
        elif c['kind'] == 'w':
            for sig, what in monitors(c, out):
                print('monitor:', sig, '--', what)
            print('model:', model_eval('Worker.%s %s %s' % ('workloop_s' if c.get('shared_syn') else 'workloop',
                                                            c_cfg(c), clist(c['ins'], c_inev))))
        else:
            print('model:', model_eval('Worker.p_run %s (Worker.ar_init %s) %s' % (
                c_pcfg(c), c_pcfg(c), clist(c['evs'], lambda e: c_pev(e, c['accept_cb'])))))
        try:
            codes, _ = core.coq_eval('C03r', HEADER, [[to_coq(c, out)]])
        except Unrepresentable as exc:
            print('implementation observation outside the protocol vocabulary:', exc)
            return 1
    print('model agrees' if not codes else 'model disagrees (code %d)' % codes[0][1])
    if d['replay'].get('monitor') and c['kind'] in ('w', 'h'):
        hit = [m for m in monitors(c, out) if m[0] == d['replay']['monitor']]
        print('monitor %s: %s' % (d['replay']['monitor'], 'still violated' if hit else 'holds now'))
        return 1 if hit or codes else 0
    return 1 if codes else 0
