"""C18 -- connection authentication is mutual and exact.

Tie (a): Gen/K_auth.v is regenerated from /repo/billiard/connection.py on every run
(deliver_challenge / answer_challenge as process terms, the constants, guards and step
order of Listener.accept / Client) and proved equal to Model/Auth.v by reflexivity.
Tie (b): the real Listener.accept / Client (two threads over a socketpair or a real
AF_UNIX socket, or against a scripted hostile peer) and the Gallina model run on the
same cases; the model's MAC is the digest table computed by the real hmac.
Independently of the model, monitors judge every implementation trace.
Channel faults: the same scenarios with send_bytes / recv_bytes calls that fail at scripted
positions (injected BrokenPipeError / ConnectionResetError / OSError / EOFError, and real
EPIPE produced by a peer that shuts down the read side of its socket); the model (run1f /
run2f, proved never to accept a wrong digest whatever fails) gets the observed fate of every
send call as its oracle, and the monitor "accepted => the digest received for the own
challenge was right" is judged from the recorded calls alone (it needs no model, so it still
runs when the translator refuses a changed function).
Key normalisation (audit follow-up): "same key" in the theorems is `norm B h kl = norm B h kc`
(Lib/AuthKey.v, RFC 2104 key preparation).  Every run checks on the real code (a) H1: the real
hmac gives the same digest for a key and for the prepared key; (b) Coq's norm (hash handed over
as a table computed by hashlib) equals what hmac.py prepares; (c) whether two real keys
authenticate each other (real Listener.accept x Client) equals `norm kl = norm kc` evaluated in
Coq -- on the key pairs of all honest cases plus a dedicated boundary family.
Replay across sessions: a real handshake is recorded and one party's messages are played at a
fresh real endpoint of the other role, with os.urandom fresh or repeating; both sessions are
compared with the model (theorems C18_replay_across_sessions_*)."""
import hashlib
import hmac
import json
import os
import random
import re
import threading
import types
from collections import Counter

from vlib import core
from vlib.core import cz, copt, clist

MANIFEST = dict(
    text='Theorems (Coq; all keys, all challenge bytes, every MAC function, every peer message list and every '
         'adaptive peer strategy): the handshake code regenerated from connection.py on this run equals the model; '
         'same non-empty key => listener and client both return a connection; both return IFF the two digest '
         'equations hold, otherwise BOTH raise AuthenticationError (with the exact bytes on the wire and which side '
         'detects first); with norm = RFC 2104 key preparation (hash if longer than the block, NUL-pad to the block; hash '
         'abstract) and the two explicit hypotheses H1 "mac k m = mac (norm k) m" and H2 "distinct normalised keys do not '
         'collide on the challenge used": both return IFF norm kl = norm kc, and IFF kl = kc for keys within the block '
         'without trailing NUL; under H1 ALONE keys with equal norm (key / key+NULs, long key / its hash) authenticate each '
         'other, for every such MAC (the known finding as a theorem); replay across sessions (os.urandom a stream indexed '
         'by session): a recorded session played at a fresh listener or client is accepted IFF the digests of the two '
         'challenges coincide, hence accepted if the challenge repeats and, when the MAC separates the two challenges, IFF '
         'it repeats; a resend-only attacker needs mac(key, new challenge) among the recorded messages; an honest side returns only '
         'if the peer sent exactly mac(key, fresh challenge) (replayed/truncated/foreign digests refused); messages '
         'over 256 bytes, a missing CHALLENGE prefix, any verdict but WELCOME are rejected; a non-bytes key raises '
         'TypeError and no message is built from it; CHANNEL FAULTS: for every oracle deciding per send_bytes call '
         'of either party whether it is delivered or raises, and per recv_bytes call whether it meets a message or '
         'raises, a party returns only if it received exactly mac(own key, own challenge) and none of its sends failed '
         '(a failed verdict send ends in that error, never in acceptance); listener x client with two send oracles: '
         'complete outcome table, success is joint and needs both digest equations and no failed send. Correspondence of real Listener.accept/Client/deliver_challenge/'
         'answer_challenge with the model on key pairs (equal, one bit apart, prefixes, NUL-padded, long) and scripted '
         'hostile peers, and the same under injected send/recv failures and real EPIPE (peer shut down its read side); '
         'property monitors on every implementation trace, incl. accepted => right digest received, from the recorded '
         'calls alone. Key normalisation: real hmac satisfies H1 on sampled keys, Coq norm = hmac.py key preparation, '
         'real acceptance of key pairs = equality of Coq norms; real two-session replays (fresh / repeated os.urandom) '
         'against the model.',
    note='All theorems Closed under the global context. Trusted: Coq kernel; translate/kernels/auth.py (AST -> process '
         'terms); the harness recorder/starvation detector; message framing (C13) abstracted to whole messages; '
         'HMAC strength is NOT proved: it enters as hypothesis H2 (no key collisions between distinct normalised keys on '
         'the challenge used) of C18_iff_same_normalised_key / C18_iff_same_key, and as "mac key c_i = mac key c_j -> '
         'c_i = c_j" in the replay theorems; os.urandom freshness is NOT proved: the replay theorems state exactly what '
         'happens when it fails (the generator checks the challenge is os.urandom(MESSAGE_LENGTH), the driver that real '
         'challenges differ and that a real replay is refused); asserts assumed enabled (no -O). '
         'Known exception to the literal "iff same key": keys that HMAC itself identifies (trailing NUL padding up to '
         'the block size, long key vs its digest) -- reported as C18:hmac-equivalent-keys-accepted.',
    technique='Coq proof over translator-regenerated process terms + differential correspondence + trace monitors',
    ref='5.18',
)

HEADER = '''From Coq Require Import ZArith List Bool Uint63.
From BV Require Import Lib.Cases Lib.AuthBase Lib.AuthHex Model.Auth.
Import ListNotations. Open Scope Z_scope.
Definition check_case := Auth.check_case.'''

HEADER_NORM = '''From Coq Require Import ZArith List Bool Uint63.
From BV Require Import Lib.Cases Lib.AuthBase Lib.AuthKey Lib.AuthHex Model.Auth.
Import ListNotations. Open Scope Z_scope.
Definition check_case := Auth.check_norm_case.'''

CHALLENGE, WELCOME, FAILURE = b'#CHALLENGE#', b'#WELCOME#', b'#FAILURE#'
EXN = ('AuthenticationError', 'AssertionError', 'OSError', 'TypeError',
       'BrokenPipeError', 'ConnectionResetError', 'EOFError')
SEND_FAULTS = ('BrokenPipeError', 'ConnectionResetError', 'OSError')
RECV_FAULTS = ('ConnectionResetError', 'OSError', 'EOFError')
BLOCK = {'md5': 64, 'sha1': 64, 'sha224': 64, 'sha256': 64, 'sha384': 128, 'sha512': 128}


# ------------------------------------------------------------------ case generation
def kb(b):
    return dict(t='bytes', hex=b.hex())


def rbytes(rng, n):
    return bytes(rng.getrandbits(8) for _ in range(n))


def flip_bit(rng, b):
    i = rng.randrange(len(b) * 8)
    x = bytearray(b)
    x[i // 8] ^= 1 << (i % 8)
    return bytes(x)


def key_pair(rng, dm, tier):
    """(class name, kl spec, kc spec)"""
    r = rng.random()
    n = rng.choice([1, 1, 2, 3, 8, 16, 20, 32, 33, 63, 64])
    k = rbytes(rng, n)
    if k.endswith(b'\0'):
        k = k[:-1] + b'\x01'
    if r < 0.22:
        return 'equal', kb(k), kb(k)
    if r < 0.40:
        return 'one-bit', kb(k), kb(flip_bit(rng, k))
    if r < 0.50:
        j = rng.randint(1, max(1, len(k) - 1))
        short = k[:-j] or b'\x07'
        return ('prefix-shorter', kb(k), kb(short)) if rng.random() < 0.5 else ('prefix-shorter', kb(short), kb(k))
    if r < 0.58:
        ext = k + bytes([rng.randint(1, 255)]) + rbytes(rng, rng.randint(0, 3))
        return ('prefix-longer', kb(k), kb(ext)) if rng.random() < 0.5 else ('prefix-longer', kb(ext), kb(k))
    if r < 0.64:
        k2 = k[:BLOCK.get(dm, 64) - 2]
        pad = k2 + b'\0' * rng.randint(1, 2)
        return ('nul-padded', kb(k2), kb(pad)) if rng.random() < 0.5 else ('nul-padded', kb(pad), kb(k2))
    if r < 0.74:
        big = rbytes(rng, rng.choice([65, 100, 128, 300]))
        s = rng.random()
        if s < 0.4:
            return 'long-equal', kb(big), kb(big)
        if s < 0.8:
            return 'long-one-bit', kb(big), kb(flip_bit(rng, big))
        return 'long-vs-its-digest', kb(big), kb(hashlib.new(dm, big).digest())
    if r < 0.77:
        size = 1024 if tier == 'quick' else rng.choice([4096, 65536])
        big = rbytes(rng, size)
        return ('huge-equal', kb(big), kb(big)) if rng.random() < 0.5 else ('huge-one-bit', kb(big), kb(flip_bit(rng, big)))
    if r < 0.81:
        a = dict(t='authstr', hex=k.hex())
        return ('authstr-equal', a, kb(k)) if rng.random() < 0.6 else ('authstr-one-bit', a, kb(flip_bit(rng, k)))
    if r < 0.87:
        other = rng.choice([dict(t='str', v='secret'), dict(t='str', v=''), dict(t='int', v=0), dict(t='int', v=7),
                            dict(t='bytearray', hex=k.hex()), dict(t='bytearray', hex=''),
                            dict(t='memoryview', hex=k.hex())])
        return ('non-bytes', other, kb(k)) if rng.random() < 0.5 else ('non-bytes', kb(k), other)
    if r < 0.94:
        f = rng.choice([dict(t='none'), kb(b'')])
        g = rng.choice([dict(t='none'), kb(b''), kb(k)])
        return ('falsy', f, g) if rng.random() < 0.5 else ('falsy', g, f)
    return 'unrelated', kb(k), kb(rbytes(rng, rng.randint(1, 40)) or b'x')


def challenge(rng):
    r = rng.random()
    if r < 0.8:
        return rbytes(rng, 20)
    if r < 0.87:
        return bytes(20)
    if r < 0.94:
        return (CHALLENGE + WELCOME)[:20]
    return b'\xff' * 20


def mac(k, m, dm):
    return hmac.new(k, m, dm).digest()


def digest_variants(rng, k, c, dm):
    d = mac(k, c, dm)
    return [
        ('correct', d), ('correct', d), ('correct', d), ('correct', d), ('correct', d), ('correct', d),
        ('bit-flipped', flip_bit(rng, d)), ('truncated', d[:-1]), ('extended', d + b'\0'),
        ('replayed-old', mac(k, rbytes(rng, 20), dm)), ('other-key', mac(flip_bit(rng, k), c, dm)),
        ('empty', b''), ('welcome', WELCOME), ('failure', FAILURE), ('reflected-challenge', CHALLENGE + c),
        ('hexdigest', d.hex().encode()), ('len-256', rbytes(rng, 256)), ('len-257', rbytes(rng, 257)),
        ('len-300', rbytes(rng, 300)),
    ]


def challenge_variants(rng):
    return [
        ('ok', CHALLENGE + rbytes(rng, 20)), ('ok', CHALLENGE + rbytes(rng, 20)), ('ok', CHALLENGE + rbytes(rng, 20)),
        ('ok', CHALLENGE + rbytes(rng, 20)), ('ok', CHALLENGE + rbytes(rng, 20)),
        ('ok-empty-body', CHALLENGE), ('ok-len-256', CHALLENGE + rbytes(rng, 245)),
        ('len-257', CHALLENGE + rbytes(rng, 246)), ('len-300', CHALLENGE + rbytes(rng, 289)),
        ('prefix-cut', CHALLENGE[:-1] + rbytes(rng, 20)), ('prefix-lower', CHALLENGE.lower() + rbytes(rng, 20)),
        ('short', b'#CH'), ('empty', b''), ('welcome', WELCOME), ('failure', FAILURE),
        ('no-prefix', rbytes(rng, 31)),
    ]


def verdict_variants(rng):
    return [
        ('welcome', WELCOME), ('welcome', WELCOME), ('welcome', WELCOME), ('welcome', WELCOME),
        ('failure', FAILURE), ('welcome-no-hash', b'WELCOME'), ('welcome-extended', WELCOME + b'#'),
        ('welcome-lower', WELCOME.lower()), ('empty', b''), ('len-257', rbytes(rng, 257)),
        ('challenge-again', CHALLENGE + rbytes(rng, 20)),
    ]


def peer_case(rng, side, dm, pick=None):
    """scripted hostile peer against the honest listener ('L') or client ('C')"""
    k = rbytes(rng, rng.choice([1, 5, 16, 32, 70]))
    if k.endswith(b'\0'):
        k = k[:-1] + b'\x01'
    c = challenge(rng)
    dv, cv, vv = digest_variants(rng, k, c, dm), challenge_variants(rng), verdict_variants(rng)
    if pick is None:
        d, ch, v = rng.choice(dv), rng.choice(cv), rng.choice(vv)
    else:
        d, ch, v = dv[pick[0]], cv[pick[1]], vv[pick[2]]
    script = [d[1], ch[1], v[1]] if side == 'L' else [ch[1], v[1], d[1]]
    cut = rng.random()
    if pick is None and cut < 0.12:
        script = script[:rng.randint(0, 2)]
    elif pick is None and cut < 0.2:
        script.append(rbytes(rng, rng.randint(0, 5)))
    case = dict(kind='peer' + side, transport='pipe', script=[m.hex() for m in script],
                cls='%s/%s/%s/%d' % (d[0], ch[0], v[0], len(script)))
    if side == 'L':
        case.update(kl=kb(k), cl=c.hex())
    else:
        case.update(kc=kb(k), cc=c.hex())
    return case


def gen_cases(rng, n, dm, tier):
    cases = []
    for i in range(n):
        cls, kl, kc = key_pair(rng, dm, tier)
        cl = challenge(rng)
        cc = cl if rng.random() < 0.05 else challenge(rng)
        transport = 'unix' if (cls in ('equal', 'one-bit', 'nul-padded', 'long-equal', 'unrelated')
                               and rng.random() < 0.25) else 'pipe'
        cases.append(dict(kind='honest', transport=transport, kl=kl, kc=kc, cl=cl.hex(), cc=cc.hex(), cls=cls))
    for i in range(n):
        cases.append(peer_case(rng, 'L', dm))
        cases.append(peer_case(rng, 'C', dm))
    # systematic boundary enumeration: every digest variant x every verdict variant with a
    # good peer challenge, every challenge variant with a good digest and verdict
    nd, nc, nv = len(digest_variants(rng, b'k', b'c', dm)), len(challenge_variants(rng)), len(verdict_variants(rng))
    for side in 'LC':
        for i in range(5, nd):
            for j in (0, 4, 5):
                cases.append(peer_case(rng, side, dm, pick=(i, 0, j)))
        for i in range(4, nc):
            cases.append(peer_case(rng, side, dm, pick=(0, i, 0)))
        for j in range(3, nv):
            cases.append(peer_case(rng, side, dm, pick=(0, 0, j)))
    return cases


# ------------------------------------------------------------------ channel faults
def is_fault_case(c):
    return bool(c.get('sfaults')) or c.get('shut_rd') is not None or \
        any(isinstance(m, dict) for m in c.get('script', []))


def fault_peer_case(rng, side, dm, dname, vname='welcome', chname='ok'):
    """a scripted peer with the named digest variant (and a good challenge / verdict unless told otherwise)"""
    k = rbytes(rng, rng.choice([1, 5, 16, 32, 70]))
    if k.endswith(b'\0'):
        k = k[:-1] + b'\x01'
    c = challenge(rng)
    d = dict(reversed(digest_variants(rng, k, c, dm)))[dname]
    ch = dict(reversed(challenge_variants(rng)))[chname]
    v = dict(reversed(verdict_variants(rng)))[vname]
    script = [d, ch, v] if side == 'L' else [ch, v, d]
    case = dict(kind='peer' + side, transport='pipe', script=[m.hex() for m in script])
    if side == 'L':
        case.update(kl=kb(k), cl=c.hex())
    else:
        case.update(kc=kb(k), cc=c.hex())
    return case


def gen_fault_cases(rng, n_random, dm):
    """the handshake over a channel whose calls fail: enumerated (which call, which error,
    what the peer answered) and random"""
    cases = []
    digests = ('bit-flipped', 'correct', 'other-key', 'empty')
    # (1) real: the peer stops reading (shutdown(SHUT_RD)) just before the j-th send of the
    #     honest side and goes on writing -- the kernel fails the send (EPIPE)
    for side in 'CL':
        for j in (2, 1, 0):
            for dn in digests[:3]:
                c = fault_peer_case(rng, side, dm, dn)
                c.update(shut_rd=j, cls='fault/shut_rd/%s/%s/%d' % (side, dn, j))
                cases.append(c)
    # (2) injected: the j-th send_bytes call of the honest side raises
    for side in 'CL':
        for dn in digests:
            for j in range(3):
                for err in SEND_FAULTS:
                    c = fault_peer_case(rng, side, dm, dn)
                    c.update(sfaults={side: [None] * j + [err]}, cls='fault/send/%s/%s/%d/%s' % (side, dn, j, err))
                    cases.append(c)
                c = fault_peer_case(rng, side, dm, dn)          # ... and every later one as well
                c.update(sfaults={side: [None] * j + ['BrokenPipeError'] * 4},
                         cls='fault/send-all/%s/%s/%d' % (side, dn, j))
                cases.append(c)
    # (3) injected: the j-th recv_bytes call raises; the peer's messages go on behind it
    for side in 'CL':
        for j in range(3):
            for err in RECV_FAULTS:
                for dn in ('correct', 'bit-flipped'):
                    c = fault_peer_case(rng, side, dm, dn)
                    c['script'].insert(j, dict(fail=err))
                    c['cls'] = 'fault/recv/%s/%s/%d/%s' % (side, dn, j, err)
                    cases.append(c)
    # (4) listener against client, one of them meets a failing send
    for same in (True, False):
        for side in 'LC':
            for j in range(3):
                for err in SEND_FAULTS:
                    k = rbytes(rng, rng.choice([1, 8, 20, 64])).replace(b'\0', b'\x01')
                    k2 = k if same else flip_bit(rng, k).replace(b'\0', b'\x02')
                    cases.append(dict(kind='honest', transport='unix' if rng.random() < 0.15 else 'pipe',
                                      kl=kb(k), kc=kb(k2), cl=challenge(rng).hex(), cc=challenge(rng).hex(),
                                      sfaults={side: [None] * j + [err]},
                                      cls='fault/honest/%s/%s/%d/%s' % ('equal' if same else 'one-bit', side, j, err)))
    # (5) random combinations
    for i in range(n_random):
        r = rng.random()
        if r < 0.25:
            cls, kl, kc = key_pair(rng, dm, 'quick')
            while not (is_bytes_key(kl) and is_bytes_key(kc)) or cls.startswith('huge'):
                cls, kl, kc = key_pair(rng, dm, 'quick')
            c = dict(kind='honest', transport='pipe', kl=kl, kc=kc, cl=challenge(rng).hex(), cc=challenge(rng).hex(),
                     sfaults={sd: [rng.choice(SEND_FAULTS) if rng.random() < 0.2 else None for _ in range(3)]
                              for sd in 'LC'}, cls='fault/random/honest/' + cls)
        else:
            side = rng.choice('LC')
            c = peer_case(rng, side, dm)
            q = rng.random()
            if q < 0.3:
                c['shut_rd'] = rng.randrange(4)
            else:
                c['sfaults'] = {side: [rng.choice(SEND_FAULTS) if rng.random() < 0.3 else None for _ in range(4)]}
            if rng.random() < 0.25:
                c['script'].insert(rng.randint(0, len(c['script'])), dict(fail=rng.choice(RECV_FAULTS)))
            c['cls'] = 'fault/random/' + c['cls']
        if is_fault_case(c):
            cases.append(c)
    return cases


def accepted_right_digest(key, tr, dm):
    """judged from the recorded calls of one side alone: it was handed a connection => it had sent a
    challenge, and the first message it received after that was hmac(own key, that challenge).
    Returns None if so, else what is wrong."""
    at = next((i for i, e in enumerate(tr) if e[0] == 's' and bytes.fromhex(e[1]).startswith(CHALLENGE)), None)
    if at is None:
        return 'it never sent a challenge'
    body = bytes.fromhex(tr[at][1])[len(CHALLENGE):]
    got = next((e for e in tr[at + 1:] if e[0] == 'r' and e[1] is not None), None)
    if got is None:
        return 'it received no answer to its challenge'
    if bytes.fromhex(got[1]) != mac(key, body, dm):
        return 'the answer it received to its challenge, %s, is not hmac(key, challenge) = %s' % (
            got[1][:64], mac(key, body, dm).hex())
    return None



# ------------------------------------------------------------------ key normalisation, replay
def nz_key(rng, n):
    """n random bytes, the last one not NUL"""
    k = rbytes(rng, n)
    return k[:-1] + bytes([k[-1] or 1]) if k else k


def gen_norm_cases(rng, dm):
    """honest listener x client on key pairs around the boundaries of HMAC key preparation"""
    bs, ds = hashlib.new(dm).block_size, hashlib.new(dm).digest_size
    out = []

    def add(cls, kl, kc, swap=False):
        if swap and kc:
            kl, kc = kc, kl
        out.append(dict(kind='honest', transport='pipe', kl=kb(kl), kc=kb(kc),
                        cl=challenge(rng).hex(), cc=challenge(rng).hex(), cls='norm/' + cls))
    # key vs key + j NULs: same prepared key while it fits the block, hashed once it does not
    for i, (n, j) in enumerate(((1, 1), (1, bs - 1), (5, 3), (16, 1), (bs - 1, 1), (bs - 2, 2), (20, bs - 20))):
        k = nz_key(rng, n)
        add('nul-pad-within-block', k, k + bytes(j), swap=i % 2)
    for i, (n, j) in enumerate(((bs, 1), (bs - 1, 2), (bs, 3), (1, bs))):
        k = nz_key(rng, n)
        add('nul-pad-crosses-block', k, k + bytes(j), swap=i % 2)
    for i, n in enumerate((bs + 1, 100, 200)):
        k = nz_key(rng, n)
        add('long-key-plus-nul', k, k + b'\0', swap=i % 2)
        hk = hashlib.new(dm, k).digest()
        add('long-vs-its-digest', k, hk, swap=i % 2)
        add('long-vs-its-digest-nul-padded', k, hk + bytes(rng.choice([1, bs - ds])), swap=(i + 1) % 2)
        add('long-vs-its-digest-padded-beyond-block', k, hk + bytes(bs - ds + 1))
        add('long-vs-its-digest-one-bit', k, flip_bit(rng, hk))
    # keys made of NULs only, and the empty client key (Client(authkey=b'') does authenticate)
    add('all-nul', b'\0', b'\0\0')
    add('all-nul', bytes(bs), b'\0')
    add('all-nul-beyond-block', bytes(bs + 1), b'\0')
    add('nul-vs-empty-client-key', b'\0', b'')
    add('nul-vs-empty-client-key', bytes(bs), b'')
    add('nul-vs-empty-client-key-beyond-block', bytes(bs + 1), b'')
    add('nonzero-vs-empty-client-key', b'\x01', b'')
    # interior NULs are significant
    a = nz_key(rng, 4)
    add('interior-nul', a + b'\0' + a, a + b'\0' + a + b'\0')
    add('interior-nul-differs', a + b'\0' + a, a + a + b'\0')
    # equal keys / one bit apart over the length range 1..200
    for n in (1, 15, 16, 17, bs - 1, bs, bs + 1, 128, 200):
        k = nz_key(rng, n)
        add('equal-%s' % ('long' if n > bs else 'short'), k, k)
        add('one-bit-%s' % ('long' if n > bs else 'short'), k, flip_bit(rng, k))
    return out


def gen_norm_keys(rng, dm):
    """single keys (no handshake): lengths 0..200, with and without trailing NULs"""
    bs = hashlib.new(dm).block_size
    keys = [b'', b'\0', bytes(bs), bytes(bs + 1)]
    for n in (1, 2, 15, 16, 17, 31, bs - 1, bs, bs + 1, bs + 2, 100, 127, 128, 129, 199, 200):
        k = nz_key(rng, n)
        keys += [k, k[:-1] + b'\0', k + b'\0\0']
    return keys


def gen_replay_cases(rng):
    """two sessions: a recorded real handshake, then one party's messages played at a fresh real endpoint
    of the other role, whose os.urandom is fresh / repeats / is one bit off / is the other party's old challenge"""
    out = []
    for kind in ('replayL', 'replayC'):
        for n in (1, 16, 70):
            for variant in ('fresh', 'repeats', 'one-bit', 'other-partys-challenge'):
                c1, cc1 = rbytes(rng, 20), rbytes(rng, 20)
                own, other = (c1, cc1) if kind == 'replayL' else (cc1, c1)
                c2 = dict(fresh=rbytes(rng, 20), repeats=own, other=other).get(variant.split('-')[0]) \
                    or flip_bit(rng, own)
                out.append(dict(kind=kind, key=kb(nz_key(rng, n)), c1=c1.hex(), cc1=cc1.hex(), c2=c2.hex(),
                                cls='replay/%s/%s' % (kind[-1], variant)))
    return out


def norm_to_coq(kl, kc, acc, facts):
    """one Auth.norm_case: block size, hash table (keys longer than the block), the two keys, what hmac.py
    prepares for them, whether the real endpoints accepted each other (None: not run)"""
    names, lets = {}, ''
    for k in (kl, kc):
        if k.hex() not in names:
            names[k.hex()] = 'k%d_' % len(names)
            lets += 'let %s := %s in ' % (names[k.hex()], cbytes(k.hex()))
    fl, fc = facts[kl], facts[kc]
    table = [(names[k.hex()], cbytes(facts[k]['hk'])) for k in dict.fromkeys((kl, kc)) if len(k) > facts[k]['block']]
    return '(%s((%s, %s, (%s, %s), (%s, %s), %s) : Auth.norm_case))' % (
        lets, cz(fl['block']), clist(table, lambda e: '(%s, %s)' % e), names[kl.hex()], names[kc.hex()],
        cbytes(fl['pynorm']), cbytes(fc['pynorm']),
        'None' if acc is None else '(Some %s)' % core.cbool(acc))


# ------------------------------------------------------------------ rendering
def cbytes(h):
    b = bytes.fromhex(h)
    if not b:
        return '[]'
    return '(ub %d [%s]%%uint63)' % (len(b), '; '.join(str(int.from_bytes(b[i:i + 7], 'big'))
                                                       for i in range(0, len(b), 7)))


def truthy(spec):
    t = spec['t']
    if t in ('str', 'int'):
        return bool(spec['v'])
    return len(spec['hex']) > 0


def ckey(spec, names):
    if spec is None or spec['t'] == 'none':
        return 'KNone'
    if spec['t'] in ('bytes', 'authstr'):
        return '(KBytes %s)' % names.get(spec['hex'], cbytes(spec['hex']))
    return '(KOther %s)' % core.cbool(truthy(spec))


def cobs(o):
    if o is None:
        return 'None'
    out = o['out']
    if out == 'returned':
        oc = 'Returned'
    elif out == 'starved':
        oc = 'Starved'
    elif out in EXN:
        oc = '(Raised %s)' % out
    else:
        oc = 'OutOfFuel'          # an exception kind the model never produces: always a mismatch
    return '(Some (%s, %s))' % (oc, clist(o['sent'], cbytes))


def cexn(name):
    return 'None' if name is None else '(Some %s)' % (name if name in EXN else 'OSError')


def cfaults(ob):
    """the channel's decisions as observed by the recorder: the fate of every send_bytes call"""
    return clist((ob or {}).get('sres') or [], cexn)


def crev(m):
    return '(RFail %s)' % (m['fail'] if m['fail'] in EXN else 'OSError') if isinstance(m, dict) else '(Msg %s)' % cbytes(m)


def to_coq(c, o):
    # every distinct key is bound once (keys may be tens of kilobytes)
    names, lets = {}, ''
    for e in o['table']:
        if e[0] not in names:
            names[e[0]] = 'k%d_' % len(names)
            lets += 'let %s := %s in ' % (names[e[0]], cbytes(e[0]))
    if is_fault_case(c) and c['kind'] == 'honest':
        sc = '(HonestF %s %s %s %s %s %s)' % (ckey(c['kl'], names), ckey(c['kc'], names), cbytes(c['cl']),
                                              cbytes(c['cc']), cfaults(o['L']), cfaults(o['C']))
    elif is_fault_case(c) and c['kind'] == 'peerL':
        sc = '(VsPeerLF %s %s %s %s)' % (ckey(c['kl'], names), cbytes(c['cl']), clist(c['script'], crev), cfaults(o['L']))
    elif is_fault_case(c):
        sc = '(VsPeerCF %s %s %s %s)' % (ckey(c['kc'], names), cbytes(c['cc']), clist(c['script'], crev), cfaults(o['C']))
    elif c['kind'] == 'honest':
        sc = '(Honest %s %s %s %s)' % (ckey(c['kl'], names), ckey(c['kc'], names), cbytes(c['cl']), cbytes(c['cc']))
    elif c['kind'] == 'peerL':
        sc = '(VsPeerL %s %s %s)' % (ckey(c['kl'], names), cbytes(c['cl']), clist(c['script'], cbytes))
    else:
        sc = '(VsPeerC %s %s %s)' % (ckey(c['kc'], names), cbytes(c['cc']), clist(c['script'], cbytes))
    table = clist(o['table'], lambda e: '(%s, %s)' % (
        names[e[0]], clist(e[1], lambda md: '(%s, %s)' % (cbytes(md[0]), cbytes(md[1])))))
    return '(%s((%s, %s, (%s, %s), (%s, %s)) : Auth.case))' % (lets, sc, table, copt(o['nL']), copt(o['nC']),
                                                cobs(o['L']), cobs(o['C']))


# ------------------------------------------------------------------ monitors on implementation traces
def is_bytes_key(spec):
    return spec is not None and spec['t'] in ('bytes', 'authstr')


def monitors(c, o, dm):
    """property monitors evaluated directly on what the real code did (no model involved)"""
    al = []

    def alarm(sig, what):
        al.append(dict(signature='C18:' + sig, what=what + ' | case ' + brief(c) + ' | impl ' + brief_obs(o),
                       replay=dict(case=c, impl=strip(o))))
    for side, key in (('L', c.get('kl')), ('C', c.get('kc'))):
        ob = o.get(side)
        if ob is None or key is None:
            continue
        if key['t'] not in ('bytes', 'authstr', 'none'):
            if ob['out'] != 'TypeError' or ob['sent']:
                alarm('non-bytes-key-not-rejected',
                      '%s side with a %s key ended %s after sending %d message(s) instead of TypeError before any message'
                      % (side, key['t'], ob['out'], len(ob['sent'])))
        # accepted => the digest received for the own challenge was right (recorded calls only)
        if is_bytes_key(key) and key['hex'] and ob['out'] == 'returned' and 'trace' in ob:
            why = accepted_right_digest(bytes.fromhex(key['hex']), ob['trace'], dm)
            if why:
                failed = [e for e in ob['trace'] if e[0] == 's' and e[2]]
                alarm('wrong-digest-accepted',
                      'honest %s was handed a connection although %s%s' % (
                          side, why, '; its send of %s had failed with %s' % (
                              bytes.fromhex(failed[0][1])[:12], failed[0][2]) if failed else ''))
    if c['kind'] == 'honest' and not is_fault_case(c) and is_bytes_key(c['kl']) and is_bytes_key(c['kc']) \
            and c['kl']['hex'] and c['kc']['hex']:
        kl, kc = bytes.fromhex(c['kl']['hex']), bytes.fromhex(c['kc']['hex'])
        outs = (o['L']['out'], o['C']['out'])
        if kl == kc and outs != ('returned', 'returned'):
            alarm('same-key-refused', 'listener and client hold the same key but ended %s/%s' % outs)
        if kl != kc and outs != ('AuthenticationError', 'AuthenticationError'):
            cl, cc = bytes.fromhex(c['cl']), bytes.fromhex(c['cc'])
            if outs == ('returned', 'returned') and mac(kl, cl, dm) == mac(kc, cl, dm) \
                    and mac(kl, cc, dm) == mac(kc, cc, dm):
                alarm('hmac-equivalent-keys-accepted',
                      'two DIFFERENT keys (%d and %d bytes, class %s) authenticated each other: HMAC-%s maps both to '
                      'the same padded key, so every digest coincides' % (len(kl), len(kc), c.get('cls'), dm))
            else:
                alarm('mismatched-keys-not-both-refused',
                      'listener and client hold different keys but ended %s/%s' % outs)
    if c['kind'] in ('peerL', 'peerC') and not any(isinstance(m, dict) for m in c['script']):
        side = c['kind'][-1]
        key = c['kl'] if side == 'L' else c['kc']
        ob = o[side]
        if is_bytes_key(key) and key['hex'] and ob['out'] == 'returned':
            k = bytes.fromhex(key['hex'])
            ch = bytes.fromhex(c['cl'] if side == 'L' else c['cc'])
            pos = 0 if side == 'L' else 2
            script = [bytes.fromhex(m) for m in c['script']]
            if len(script) <= pos or script[pos] != mac(k, ch, dm):
                alarm('wrong-digest-accepted',
                      'honest %s returned a connection although the peer never sent hmac(key, challenge)' % side)
    # a recorded session played at a fresh endpoint whose challenge differs from the recorded one
    if c.get('replayed') and c['replayed']['fresh']:
        side = c['kind'][-1]
        if o[side]['out'] == 'returned':
            alarm('replayed-session-accepted',
                  'the messages recorded from one party of an earlier handshake were accepted by a fresh %s although '
                  'its challenge %s differs from the recorded one %s' % (
                      'listener' if side == 'L' else 'client', c['replayed']['c2'], c['replayed']['c1']))
    # a real shutdown must have produced a real failure (else the fault cases test nothing)
    if c.get('shut_rd') is not None:
        ob = o[c['kind'][-1]]
        j = c['shut_rd']
        if len(ob.get('sres', [])) > j and ob['sres'][j] is None:
            al.append(dict(harness='send call %d succeeded although the peer had shut down its read side' % j))
    return al


def strip(o):
    return {k: v for k, v in o.items() if k != 'table'}


def brief(c):
    d = {k: (v if not isinstance(v, str) or len(v) < 80 else v[:60] + '...(%d hex chars)' % len(v))
         for k, v in c.items() if k not in ('kl', 'kc', 'script')}
    for k in ('kl', 'kc'):
        if k in c:
            s = dict(c[k])
            if 'hex' in s and len(s['hex']) > 80:
                s['hex'] = s['hex'][:40] + '...(%d bytes)' % (len(s['hex']) // 2)
            d[k] = s
    if 'script' in c:
        d['script'] = [m if isinstance(m, dict) or len(m) < 80 else m[:40] + '...(%d bytes)' % (len(m) // 2)
                       for m in c['script']]
    return json.dumps(d, sort_keys=True)


def brief_obs(o):
    def b(x):
        if x is None:
            return None
        d = dict(out=x['out'], sent=[m if len(m) < 80 else m[:40] + '...' for m in x['sent']])
        if any(x.get('sres') or []):
            d['send_calls'] = x['sres']
        return d
    return json.dumps(dict(L=b(o.get('L')), C=b(o.get('C')), nL=o.get('nL'), nC=o.get('nC')))


# ------------------------------------------------------------------ the check
def digestmod_from_gen():
    """the algorithm both handshake functions name, as extracted by the generator"""
    try:
        text = open(os.path.join(core.COQ, 'Gen', 'K_auth.v')).read()
        found = re.findall(r'Definition digestmod_(\w+) : bytes := \[([0-9; ]*)\]', text)
        algs = {n: bytes(int(x) for x in v.split(';') if x.strip()).decode() for n, v in found}
        if algs.get('deliver') and algs.get('deliver') == algs.get('answer'):
            hashlib.new(algs['deliver'])
            return algs['deliver']
    except Exception:
        pass
    return 'md5'


def run_impl(cases, dm, aux=False, norm=()):
    """-> (cases, results, aux, norm facts); a two-session replay case comes back as the two ordinary cases it
    consists of (the honest session, then the recorded script played at a fresh endpoint)"""
    slim = [{k: v for k, v in c.items() if k not in ('cls', 'replayed')} for c in cases]
    out = core.run_driver('auth_driver.py', dict(cases=slim, digestmod=dm, aux=aux,
                                                 norm=[[k.hex(), m.hex()] for k, m in norm]), timeout=1200)
    flat_c, flat_o = [], []
    for c, o in zip(cases, out['results']):
        if 'replay' not in o:
            flat_c.append(c)
            flat_o.append(o)
            continue
        (c1, o1), (c2, o2) = o['replay']
        own = c['c1'] if c['kind'] == 'replayL' else c['cc1']
        c1['cls'] = c.get('cls', 'replay') + '/session-1'
        c2['cls'] = c.get('cls', 'replay') + '/session-2'
        c2['replayed'] = dict(fresh=own != c['c2'], c1=own, c2=c['c2'])
        flat_c += [c1, c2]
        flat_o += [o1, o2]
    return flat_c, flat_o, out['aux'], out.get('norm') or []


def correspond_norm(res, cases, outs, single_keys, facts, dm):
    """Lib/AuthKey.norm against the real hmac: H1 on the sampled keys, Coq norm = hmac.py key preparation,
    real acceptance of a key pair = equality of the Coq norms"""
    for k, f in facts.items():
        if f['d_raw'] != f['d_norm']:
            res.broken.append(dict(kind='assumption', name='H1 (mac k m = mac (norm k) m) is false of the real hmac',
                                   detail='key %s: hmac(key, m) = %s but hmac(prepared key, m) = %s' % (
                                       k.hex()[:80], f['d_raw'], f['d_norm'])))
    pairs = []
    for c, o in zip(cases, outs):
        if c['kind'] == 'honest' and not is_fault_case(c) and is_bytes_key(c['kl']) and is_bytes_key(c['kc']) \
                and c['kl']['hex'] and not c.get('real_urandom'):
            kl, kc = bytes.fromhex(c['kl']['hex']), bytes.fromhex(c['kc']['hex'])
            pairs.append((kl, kc, (o['L']['out'], o['C']['out']) == ('returned', 'returned'), c, o))
    for k in single_keys:
        pairs.append((k, k, None, None, None))
    terms = [norm_to_coq(kl, kc, acc, facts) for kl, kc, acc, _, _ in pairs]
    chunks, cur, size = [], [], 0
    for t in terms:
        if cur and (size + len(t) > 1500000 or len(cur) >= 400):
            chunks.append(cur)
            cur, size = [], 0
        cur.append(t)
        size += len(t)
    chunks.append(cur)
    codes, _ = core.coq_eval('C18n', HEADER_NORM, chunks, timeout=300 if res.tier == 'quick' else 1500)
    for i, code in codes:
        kl, kc, acc, c, o = pairs[i]
        if code == 2:
            res.alarms.append(dict(
                signature='C18:acceptance-differs-from-normalised-key-equality',
                what='real Listener.accept x Client with keys of %d and %d bytes: both handed a connection = %s, but '
                     'norm kl = norm kc (HMAC-%s key preparation evaluated in Coq) is %s: case %s | impl %s' % (
                         len(kl), len(kc), acc, dm, not acc, brief(c), brief_obs(o)),
                replay=dict(case=c, impl=strip(o))))
        else:
            res.broken.append(dict(kind='correspondence', name='Lib/AuthKey.norm vs hmac.py key preparation',
                                   detail='keys %s / %s: hmac.py prepares %s / %s' % (
                                       kl.hex()[:80], kc.hex()[:80], facts[kl]['pynorm'], facts[kc]['pynorm'])))
    def label(c):
        if c is None:
            return 'single-key'
        cls = c.get('cls', 'corpus')
        return cls if cls.startswith('norm/') else cls.split('/')[0]
    hist = Counter('%s:%s' % (label(c), 'not-run' if acc is None else 'accepted' if acc else 'refused')
                   for kl, kc, acc, c, o in pairs)
    equal_distinct = sum(1 for kl, kc, acc, c, o in pairs if acc and kl != kc)
    return dict(norm_cases=len(pairs), norm_keys_checked_for_H1=len(facts),
                norm_block_size=next(iter(facts.values()))['block'] if facts else None,
                norm_pairs_accepted_with_distinct_keys=equal_distinct, norm_case_histogram=dict(hist))


def correspond(res, n, dm, n_fault):
    rng = random.Random(res.seed * 7919 + 18)
    corpus = json.load(open(core.VERIF + '/corpus/C18.json'))
    cases = corpus + gen_cases(rng, n, dm, res.tier)
    # channel faults (own generator state: the cases above stay what they were)
    cases += gen_fault_cases(random.Random(res.seed * 7919 + 1818), n_fault, dm)
    # key normalisation boundaries, two-session replays (own generator states)
    cases += gen_norm_cases(random.Random(res.seed * 7919 + 1801), dm)
    cases += gen_replay_cases(random.Random(res.seed * 7919 + 1802))
    single_keys = gen_norm_keys(random.Random(res.seed * 7919 + 1803), dm)
    norm_keys = list(dict.fromkeys(
        [bytes.fromhex(c[k]['hex']) for c in cases if c['kind'] == 'honest' and not is_fault_case(c)
         and is_bytes_key(c.get('kl')) and is_bytes_key(c.get('kc')) for k in ('kl', 'kc')]
        + [bytes.fromhex(c['key']['hex']) for c in cases if c['kind'] in ('replayL', 'replayC')] + single_keys))
    h1_msg = rbytes(random.Random(res.seed * 7919 + 1804), 20)
    cases, outs, aux, nf = run_impl(cases, dm, aux=True, norm=[(k, h1_msg) for k in norm_keys])
    facts = dict(zip(norm_keys, nf))
    # monitors first: they do not depend on the model
    seen = set()
    for c, o in zip(cases, outs):
        for a in monitors(c, o, dm):
            if 'harness' in a:
                res.broken.append(dict(kind='harness', name='fault injection did not take effect',
                                       detail='%s | case %s | impl %s' % (a['harness'], brief(c), brief_obs(o))))
                continue
            if a['signature'] not in seen or len(res.alarms) < 40:
                res.alarms.append(a)
            seen.add(a['signature'])
    # key normalisation: its own coqc process, concurrently with the case evaluation below
    nres = types.SimpleNamespace(alarms=[], broken=[], tier=res.tier, cov=None)

    def norm_job():
        try:
            nres.cov = correspond_norm(nres, cases, outs, single_keys, facts, dm)
        except Exception as exc:      # noqa: must not look like a pass
            nres.broken.append(dict(kind='check-crashed', name='key normalisation check: ' + type(exc).__name__,
                                    detail=str(exc)[-2000:]))
    nthread = threading.Thread(target=norm_job)
    nthread.start()
    terms = [to_coq(c, o) for c, o in zip(cases, outs)]
    # chunks balanced by size (huge keys make huge terms)
    chunks, cur, size = [], [], 0
    for t in terms:
        if cur and (size + len(t) > 1500000 or len(cur) >= 250):
            chunks.append(cur)
            cur, size = [], 0
        cur.append(t)
        size += len(t)
    chunks.append(cur)
    codes, _ = core.coq_eval('C18', HEADER, chunks, timeout=300 if res.tier == 'quick' else 1500)
    for i, code in codes:
        c, o = cases[i], outs[i]
        if code == 2:
            res.alarms.append(dict(
                signature='C18:outcome-differs-from-proved-model',
                what='the real handshake ends differently from the proved model (who returns / who raises what / '
                     'challenge length): case %s | impl %s' % (brief(c), brief_obs(o)),
                replay=dict(case=c, impl=strip(o))))
        else:
            res.broken.append(dict(kind='correspondence', name='Auth model vs real handshake (bytes on the wire)',
                                   detail='case %s | impl %s' % (brief(c), brief_obs(o))))
    nthread.join()
    res.alarms += nres.alarms
    res.broken += nres.broken
    norm_cov = nres.cov or {}
    # facts outside the model
    refused = dict(session1=['returned', 'returned'], session2='AuthenticationError', fresh_challenge=True)
    expect = dict(process_authkey_is_bytes=True, authstr_pickle_outside_spawn='TypeError',
                  challenge_prefix_ok=True, challenge_lengths=[20, 20], challenges_differ=True,
                  replay_real_urandom_listener=refused, replay_real_urandom_client=refused)
    for k, v in expect.items():
        if aux.get(k) != v:
            res.alarms.append(dict(signature='C18:aux-' + k,
                                   what='real code: %s is %r, expected %r' % (k, aux.get(k), v),
                                   replay=dict(aux=aux)))
    nontrivial = {json.dumps({k: v for k, v in c.items() if k != 'cls'}, sort_keys=True)
                  for c, o in zip(cases, outs)
                  if any(o.get(s) and o[s]['sent'] for s in 'LC')}
    hist_kind = Counter(c['kind'] + '/' + c.get('transport', 'pipe') + ('/faults' if is_fault_case(c) else '')
                        for c in cases)
    fcases = [(c, o) for c, o in zip(cases, outs) if is_fault_case(c)]
    hist_fault = Counter()
    for c, o in fcases:
        for sd in 'LC':
            for i, e in enumerate((o.get(sd) or {}).get('sres') or []):
                if e:
                    hist_fault['%s send#%d %s%s' % (sd, i, e, ' (real, peer shut down its read side)'
                                                    if c.get('shut_rd') is not None else '')] += 1
            for e in (o.get(sd) or {}).get('trace') or []:
                if e[0] == 'r' and e[2]:
                    hist_fault['%s recv %s' % (sd, e[2])] += 1
    hist_fault_out = Counter('%s:%s/%s' % (c['kind'], (o['L'] or {}).get('out'), (o['C'] or {}).get('out'))
                             for c, o in fcases)
    hist_keys = Counter(c.get('cls', 'corpus') for c in cases if c['kind'] == 'honest')
    hist_out = Counter('%s:%s/%s' % (c['kind'], (o['L'] or {}).get('out'), (o['C'] or {}).get('out'))
                       for c, o in zip(cases, outs))
    hist_first = Counter(c.get('cls', 'corpus').split('/')[0] for c in cases if c['kind'] != 'honest')
    keylens = Counter()
    for c in cases:
        for k in ('kl', 'kc'):
            if k in c and 'hex' in c[k]:
                ln = len(c[k]['hex']) // 2
                keylens['0' if ln == 0 else '1-64' if ln <= 64 else '65-1000' if ln <= 1000 else '>1000'] += 1
    first = len(corpus)
    res.add_cov(evaluations=len(cases), distinct=len(nontrivial), traces=len(cases),
                samples=[dict(case=json.loads(brief(cases[first])), impl=json.loads(brief_obs(outs[first]))),
                         dict(case=json.loads(brief(cases[-1])), impl=json.loads(brief_obs(outs[-1])))],
                rule='honest listener x client over key-pair classes and challenges; scripted hostile peers '
                     '(random and enumerated digest/challenge/verdict variants); the same over a faulty channel (which '
                     'send/recv call fails x which error x what the peer answered; injected and real EPIPE); key pairs around '
                     'the HMAC key-preparation boundaries (NUL padding within / across the block, long key vs its digest, NUL-only '
                     'and empty keys); two-session replays (recorded handshake played at a fresh listener / client, challenge '
                     'fresh / repeated / one bit off); non-trivial = at least one handshake message was sent; distinct by '
                     'canonical JSON',
                case_kinds=dict(hist_kind), key_pair_classes=dict(hist_keys), outcome_histogram=dict(hist_out),
                peer_first_message_classes=dict(hist_first), key_length_histogram=dict(keylens),
                digest_algorithm_named_by_the_code=dm, aux_observations=aux,
                fault_cases=len(fcases), failed_calls_histogram=dict(hist_fault),
                fault_case_outcomes=dict(hist_fault_out),
                replay_session2_outcomes=dict(Counter(
                    '%s:%s' % ('/'.join(c['cls'].split('/')[1:3]), o[c['kind'][-1]]['out'])
                    for c, o in zip(cases, outs) if c.get('replayed'))),
                **norm_cov)


def run(res):
    res.proof_step('Props/C18.v', extra_targets=['Model/Auth.vo'], kernels_needed=['K_auth'])
    dm = digestmod_from_gen()
    n = 200 if res.tier == 'quick' else 4000
    n_fault = 120 if res.tier == 'quick' else 3000
    if res.broken:
        n = max(n, 1500)        # failing-input search
        n_fault = max(n_fault, 600)
    correspond(res, n, dm, n_fault)
    res.assumptions += [
        'the MAC is an uninterpreted function in the theorems. The only properties of HMAC used are explicit hypotheses of '
        'the theorems that need them: H1 mac k m = mac (norm k) m (key preparation; checked against the real hmac on '
        'sampled keys each run) and H2 distinct normalised keys do not collide on the challenge used (C18_iff_same_'
        'normalised_key, C18_iff_same_key); "mac key c_i = mac key c_j -> c_i = c_j" for the two challenges of a replay '
        '(C18_replay_across_sessions_*iff_challenge_repeats). Unforgeability (an attacker without the key cannot compute '
        'mac key c) is not modelled: peers are arbitrary message lists / strategies and the theorems say which messages are '
        'accepted, not who can compute them',
        'os.urandom returns fresh unpredictable bytes: NOT proved; C18_replay_across_sessions_* state what follows from '
        'urandom i 20 <> urandom j 20 and that a repeated challenge makes the replay succeed (the generator checks the '
        'challenge is os.urandom(MESSAGE_LENGTH); the driver checks two real challenges differ and a real replay is refused)',
        'channel = FIFO of whole messages (framing and partial reads are C13); recv_bytes(256) rejecting longer '
        'messages with OSError is exercised on the real Connection but not proved here',
        'channel faults: a send_bytes / recv_bytes call either completes or raises and then transfers nothing (a partial '
        'write followed by an error is C13); which call fails with which error is an oracle (universally quantified in '
        'the theorems, observed by the recorder in the runs); that an exception raised by a call leaves the handshake '
        'function rests on the generator refusing try/except/with inside deliver_challenge/answer_challenge and around '
        'the calls in accept()/Client()',
        'assert statements are enabled (python -O would drop the CHALLENGE prefix check and the isinstance asserts)',
        'relay/reflection by a man in the middle (forwarding an honest party\'s digest) is outside the property: the '
        'theorems only say the accepted digest equals mac(key, challenge)',
        'observation outside the property: falsy keys -- Listener(authkey=b"") skips authentication, Client(authkey=b"") '
        'performs it (modelled faithfully, stated as C18_observation_empty_key)',
    ]


def replay(path):
    d = json.load(open(path))
    if 'case' not in d.get('replay', {}):
        print(json.dumps(d, indent=1)[:3000])
        return 1
    c = d['replay']['case']
    dm = digestmod_from_gen()
    if c.get('replayed'):
        # session 2 of a two-session replay: the script is what was recorded in session 1
        print('(the script of this case = the messages recorded from the other party in an earlier real handshake)')
    cs, outs, _, _ = run_impl([c], dm)
    c, o = cs[-1], outs[-1]
    print('case:', brief(c))
    print('recorded implementation:', json.dumps(d['replay'].get('impl'))[:2000])
    print('implementation now:     ', json.dumps(strip(o))[:2000])
    al = [a for a in monitors(c, o, dm) if 'harness' not in a]
    for a in al:
        print('monitor:', a['signature'], '-', a['what'][:300])
    codes, _ = core.coq_eval('C18r', HEADER, [[to_coq(c, o)]])
    print('model agrees' if not codes else 'model disagrees (code %d)' % codes[0][1])
    ncodes = []
    if c['kind'] == 'honest' and not is_fault_case(c) and is_bytes_key(c['kl']) and is_bytes_key(c['kc']) \
            and c['kl']['hex']:
        kl, kc = bytes.fromhex(c['kl']['hex']), bytes.fromhex(c['kc']['hex'])
        keys = list(dict.fromkeys([kl, kc]))
        _, _, _, nf = run_impl([], dm, norm=[(k, b'replay') for k in keys])
        acc = (o['L']['out'], o['C']['out']) == ('returned', 'returned')
        ncodes, _ = core.coq_eval('C18rn', HEADER_NORM, [[norm_to_coq(kl, kc, acc, dict(zip(keys, nf)))]])
        print('both handed a connection: %s; equality of the normalised keys (Coq) %s' % (
            acc, 'agrees' if not ncodes else 'disagrees (code %d)' % ncodes[0][1]))
    return 1 if (codes or ncodes or al) else 0
