"""C12 -- exceptions and tracebacks cross the process boundary intact.

Tie: coq/Gen/K_einfo.v (guard of Traceback.__init__, DEFAULT_MAX_FRAMES expression, marker,
pickling protocol of the stand-ins, MaybeEncodingError constructor / __reduce__, and HOW every attribute
of the stand-ins _Frame/_Code/Traceback is read from the live object: literal, obj.attr, obj.ns.get(k),
obj.ns[k], try/except KeyError) is regenerated from /repo on every run and proved equal to Model/EInfo.v
(in particular: the reads never raise, whatever keys the live frame's namespaces lack); correspondence of the real
ExceptionInfo / Traceback / MaybeEncodingError / Worker.workloop with the model on generated cases,
plus the property monitor (Model.EInfo.monitor_case) evaluated on the implementation's
observations."""
import json
import random
from vlib import core
from vlib.core import cz, cnat, cbool, copt, clist

MANIFEST = dict(
    text='Theorems (Coq, all inputs): the recursion guard, default frame limit, default depth and truncation marker of einfo.Traceback as translated from einfo.py on every run equal the model; BUILDING THE RECORD IS TOTAL: how every attribute of the stand-ins _Frame/_Code/Traceback is read from the live object (literal, obj.attr, obj.ns.get(k[,d]), obj.ns[k], try/except KeyError) is translated on every run, and executed on live frames whose f_globals/f_locals are arbitrary dicts (code run by exec/eval: no __name__, no __file__, no __loader__) these reads never raise and build the stand-in with the (file, name, line) triple verbatim, __file__ = live value or "__main__", __name__ = live value or None; Traceback(tb) on any non-empty live traceback returns a chain whose (file, name, line) part is the chain of the depth theorems, and a task raising a picklable exception through such frames yields ACK + one READY carrying the record; the stand-in chain has at most recursionlimit//8 + 3 nodes and is the first limit+2 live frames followed by the marker iff the live chain is longer; for every exception class that reproduces itself from its args and every n >= 1, n pickle round trips of an ExceptionInfo keep type, exception class, args, attributes, traceback text and tb chain, and nothing changes after the second; the same stated for picklable records only (every record along the chain is again picklable), an unpicklable record is never sent; COUNTERFACTUAL (switch value false = the tree before the repair of D20): MaybeEncodingError args are re-repr()ed on every round trip, for ever; the body of MaybeEncodingError.__reduce__ and of its rebuild function, as matched on this run, returns a constructed object unchanged; MAIN CLAUSE: a task raising a picklable exception (any class) yields ACK + exactly one READY(ok=False) carrying the record with type, wrapped exception, text and the copied traceback (<= limit+3 nodes), and for every k >= 1 the k-fold round trip of that record exists, is picklable and has exactly that type, class, args, attributes, text and chain; a task raising an unpicklable exception is answered by exactly one READY carrying the MaybeEncodingError record, which survives every k >= 1 round trips; a result whose READY cannot be sent yields exactly one READY carrying a MaybeEncodingError record and the worker loop continues; with a working pipe every accepted task gets exactly one READY. Correspondence: real exceptions x argument tuples x traceback depths 1..300 (thorough ..900 and RecursionError) x 1..5 pickle round trips, Traceback(max_frames=m), MaybeEncodingError(a, b), and the real Worker.workloop in-process over scripted requests with a really-pickling outq; the call chains run over ordinary functions and 14 unusual frame kinds (functions and module code run by exec/eval in fresh or odd globals, lambda, generator expression, generator, class body, under sorted(key=)/map, __traceback_hide__, raise-from and raise-in-handler chaining), with the live and stand-in frame namespaces compared (kind ns) and monitors for "building the record raised" and "a task outcome killed the worker". HISTORIES (one process records many failures): Model/EInfoSeq.v gives traceback nodes what they say about their code object (co_firstlineno, f_lineno, tb_lasti, the co_positions() entry of the failing instruction) and runs the constructor over a list of failures, handing it the history each time; C12_history_independent / C12_record_order_irrelevant / C12_record_describes_its_failure (true by construction of the model: its constructor ignores the history), C12_code_copy_reads_own_code_object (the reads of Traceback/_Frame/_Code as translated on this run copy these attributes from the parameter of that very call, f_code = self.Code(frame.f_code)), and the STRUCTURAL theorem C12_code_standins_keep_no_state (syntax of einfo.py extracted on this run: no mutable class-level binding in the record classes, no constructor statement that could keep something for the next call, constructors reach modules/classes/functions/builtins/plain values only). Correspondence kind seq + worker-loop scripts with recompiled tasks: 2-6 failures recorded one after the other in ONE driver process through code compiled afresh per step under one file name (compile/exec def, re-executed module, lambdas and generator expressions on one line, generated methods, real dataclasses), i.e. through DIFFERENT code objects with equal (co_filename, co_name, co_firstlineno); every record is compared, independently of the model, node by node (file, name, tb_lineno, co_firstlineno, f_lineno, tb_lasti, position) and as formatted by traceback.extract_tb / format_exception with the live traceback of its own failure (taken before the record is built), before and after pickle round trips; signature C12:record-describes-another-code-object (also Gallina monitor EInfoSeq.mon_step, code 9). KNOWN FINDING F-C12-2 (modelled, refuted, replayed on every run): the stand-in frames copy the raw values of __file__/__name__/__traceback_hide__, which are pickled with the record; C12_own_exception_delivered_refuted (a picklable exception raised through a frame whose hide marker does not pickle is answered by the MaybeEncodingError record), C12_own_exception_delivered_partial (delivered when all copied namespace values pickle), C12_namespace_value_reported_as_encoding_error; deterministic wl/nsput cases with such frames on every run, judged by a trace-only monitor (own type/args must reach the caller).',
    note='Trusted: Coq kernel; translate/kernels/einfo.py (structural matcher + pykernel expression translator); harness/einfo_driver.py; pickle and the traceback module themselves (the text is an oracle; "the standard module can format the stand-in tb" is validated on every case, not proved); repr() of non-str objects is an oracle, repr of str is modelled for ASCII code points; exception classes whose constructor does not reproduce the object from its args are outside the statement. All theorems Closed under the global context.',
    technique='Coq proof over translator-regenerated kernel + differential correspondence + Gallina monitor on implementation traces',
    ref='5.12',
)

HEADER = '''From Coq Require Import ZArith List Bool.
From BV Require Import Lib.Cases Model.EInfo Model.EInfoSeq.
Import ListNotations. Open Scope Z_scope.
Definition check_case := EInfoSeq.check_scase.'''

MEE = 'billiard.pool.MaybeEncodingError'
SIG_D20 = 'C12:maybe-encoding-error-args-unstable'
SIG_NSVAL = 'C12:frame-namespace-value-makes-record-unpicklable'     # known finding F-C12-2
SIG_STALE = 'C12:record-describes-another-code-object'

PLAIN_CLASSES = ['ValueError', 'KeyError', 'RuntimeError', 'TypeError', 'ZeroDivisionError',
                 'AssertionError', 'LookupError', 'IndexError', 'StopIteration', 'ArithmeticError',
                 'OSError', 'MemoryError', 'KeyboardInterrupt', 'SystemExit', 'GeneratorExit',
                 'BaseException', 'Exception', 'UserError', 'UserSub', 'UserBase',
                 'SoftTimeLimitExceeded', 'TimeLimitExceeded', 'WorkerLostError', 'Terminated',
                 'RestartFreqExceeded']
BASE_ONLY = ['KeyboardInterrupt', 'SystemExit', 'GeneratorExit', 'BaseException', 'UserBase']


# ------------------------------------------------------------ Coq rendering
def cstr(s):
    return '[' + '; '.join(str(ord(ch)) for ch in s) + ']'


class Share:
    """let-bind rendered sub-terms that occur more than once in a case"""

    def __init__(self):
        self.names, self.defs = {}, []

    def __call__(self, text):
        if len(text) < 40:
            return text
        if text not in self.names:
            self.names[text] = 'v%d_' % len(self.names)
            self.defs.append((self.names[text], text))
        return self.names[text]

    def wrap(self, body):
        return '(%s%s)' % (''.join('let %s := %s in ' % d for d in self.defs), body)


def carg(j):
    if 'i' in j:
        return '(AInt %s)' % cz(j['i'])
    if 's' in j:
        return '(AStr %s)' % cstr(j['s'])
    if 'n' in j:
        return 'ANone'
    if 'b' in j:
        return '(ABool %s)' % cbool(j['b'])
    if 't' in j:
        return '(ATuple %s)' % clist(j['t'], carg)
    if 'l' in j:
        return '(AList %s)' % clist(j['l'], carg)
    if 'u' in j:
        return '(AUnp %s)' % cz(j['u'])
    return '(AOpaque %s)' % cstr(j['o'])


_CLS = {}


def ccls(name):
    if name == MEE:
        return 'CMee'
    if name not in _CLS:
        _CLS[name] = len(_CLS) + 1
    return '(CPlain %d)' % _CLS[name]


def cdict(d):
    return clist(d, lambda kv: '(%s, %s)' % (cstr(kv[0]), carg(kv[1])))


def cexc(d, sh=lambda t: t):
    return '(mk_exc %s %s %s)' % (ccls(d['cls']), sh(clist(d['args'], carg)), sh(cdict(d['attrs'])))


def crle(r):
    return clist(r, lambda e: '(%s, %s, %s, %s)' % (cz(e[0]), cz(e[1]), cz(e[2]), cnat(e[3])))


def cview(v, sh):
    return '(%s, %s, %s, %s, %s, %s, %s, %s, %s)' % (
        ccls(v['type']), cbool(v['wrapped']), ccls(v['cls']), sh(clist(v['args'], carg)),
        sh(cdict(v['attrs'])), copt(v['cause']), cz(v['text']), sh(crle(v['tb'])), cbool(v['internal']))


def ctab(strs):
    return clist(strs, cstr)


def ns_unp(orc, dmf):
    """repr of what pickling the record raises because of a namespace value of the copied frames (the
    first dmf+2 live frames; per frame f_globals[__file__], f_globals[__name__], then the hide local),
    None if they all pickle -- mirrors Model.EInfo.chain_pickle_err o copy_ltb, which CaseNsPut compares
    with the real pickler on the same frame kinds"""
    rank = {('g', '__file__'): 0, ('g', '__name__'): 1, ('l', '__traceback_hide__'): 2}
    cand = sorted((idx, rank[(w, k)], err) for idx, w, k, err in orc.get('live_unp', [])
                  if (w, k) in rank and idx < dmf + 2)
    return cand[0][2] if cand else None


def has_unp(j):
    if isinstance(j, dict):
        return 'u' in j or any(has_unp(v) for v in j.values())
    if isinstance(j, list):
        return any(has_unp(v) for v in j)
    return False


def conode(n):
    return '(%s, %s, %s, %s, %s, %s, %s)' % (cz(n[0]), cz(n[1]), cz(n[2]), cz(n[3]), cz(n[4]), cz(n[5]),
                                             clist(n[6], cz))


def crt(o, reclimit):
    sh = Share()
    return sh.wrap('CaseRT %s %s %s %s %s %s %s' % (
        ctab(o['strs']), cz(reclimit), ccls(o['live_exc']['cls']), cexc(o['live_exc'], sh),
        sh(crle(o['live'])), cz(o['live_text']), clist(o['views'], lambda v: cview(v, sh))))


def to_coq(c, o):
    """a term of Model.EInfoSeq.scase: a history (kind seq), or One <case of Model.EInfo>"""
    if c['kind'] == 'seq':
        return '(Seq %s)' % clist(o['steps'], lambda so: '(mk_step %s %s %s)' % (
            crt(so, o['reclimit']), clist(so['nodes_live'], conode),
            clist(so['nodes'], lambda ch: clist(ch, conode))))
    return '(One %s)' % to_coq_one(c, o)


def to_coq_one(c, o):
    k = c['kind']
    sh = Share()
    if k == 'rt':
        return crt(o, o['reclimit'])
    if k == 'tb':
        return sh.wrap('CaseTB %s %s %s %s' % (ctab(o['strs']), cz(c['m']), sh(crle(o['live'])),
                                               clist(o['chains'], lambda r: sh(crle(r)))))
    if k == 'mee':
        return '(CaseMee %s %s %s %s)' % (carg(c['a']), carg(c['b']), clist(o['args'], carg),
                                          cdict(o['attrs']))
    if k == 'slots':
        return '(CaseSlots %s %s %s)' % (ctab(o['frame']), ctab(o['code']), ctab(o['tb']))
    if k in ('ns', 'nsput'):
        def cg(v):
            return 'GNone' if v[0] == 'n' else '(%s (T_ %d))' % (
                {'s': 'GStr', 'o': 'GOther', 'u': 'GUnp'}[v[0]], v[1])

        def cns(d):
            return sh(clist(d, lambda kv: '(T_ %d, %s)' % (kv[0], cg(kv[1]))))

        def node(ctor):
            return lambda n: sh('(%s (mk_fr (T_ %d) (T_ %d) %s) %s %s)' % (ctor, n[0], n[1], cz(n[2]),
                                                                            cns(n[3]), cns(n[4])))
        if k == 'nsput':
            body = sh.wrap('CaseNsPut %s %s %s' % (cz(o['reclimit']), clist(o['live'], node('mk_lf')),
                                                   'None' if o['err'] is None else '(Some (T_ %d))' % o['err']))
        else:
            body = sh.wrap('CaseNS %s %s %s' % (cz(o['reclimit']), clist(o['live'], node('mk_lf')),
                                                clist(o['chains'], lambda ch: sh(clist(ch, node('mk_sf'))))))
        return '(let T_ := tab_get %s in %s)' % (ctab(o['strs']), body)
    # worker loop
    reqs = []
    for r in c['script']:
        if r is None:
            reqs.append('RNone')
            continue
        orc = o['oracle'].get('%d,%d' % (r['job'], r['i']), {})
        if 'ret' in r['spec']:
            out = '(Returns %s)' % carg(r['spec']['ret'])
        elif 'live_exc' in orc:
            out = '(Raises %s %s (expand tab_ %s) %s)' % (
                ccls(orc['live_exc']['cls']), cexc(orc['live_exc'], sh), sh(crle(orc['live'])), cz(orc['text']))
        else:       # the task's READY was never attempted: a dummy non-empty traceback, so that a
            #         missing oracle can never make the model predict a crash
            out = '(Raises (CPlain 0) (mk_exc (CPlain 0) [] []) [mk_fr [] [] 0] 0)'
        ptb = '(expand tab_ %s)' % crle(orc['ptb']) if orc.get('ptb') else '[mk_fr [] [] 0]'
        reqs.append('(RTask %s %s %s %s %s)' % (cz(r['job']), cz(r['i']), out, ptb, cz(orc.get('ptext', 0))))
    # F-C12-2: the put of a raising task's READY fails by itself when a namespace value the stand-in
    # frames copy does not pickle (Model.EInfo.env_ns); which value, and the repr of what pickling it
    # raises, come from the driver's own look at the LIVE frames (not from the failed put)
    scripted = list(c['env'])
    for key, orc in o['oracle'].items():
        r = ns_unp(orc, o['dmf'])
        if r is not None:
            r = o['strs'][r]
            n = orc['put_n']
            scripted += ['ok'] * (n + 1 - len(scripted))
            if scripted[n] == 'ok':
                scripted[n] = ['ns', r]
    env = []
    for n, a in enumerate(scripted):
        if a == 'ok':
            env.append('PutOk')
        elif a[0] == 'ns':
            env.append('(PutExc %s)' % cstr(a[1]))
        elif a == 'base':
            env.append('PutBase')
        else:
            env.append('(PutExc %s)' % cstr(o['env_reprs'].get(str(n), '')))

    def cmsg(m):
        if m[0] == 'ack':
            return '(OAck %s %s)' % (cz(m[1]), cz(m[2]))
        if m[0] == 'val':
            return '(OVal %s %s %s %s)' % (cz(m[1]), cz(m[2]), cbool(m[3]), carg(m[4]))
        if m[0] == 'info':
            return '(OInfo %s %s %s %s)' % (cz(m[1]), cz(m[2]), cbool(m[3]), cview(m[4], sh))
        return '(OAck (-1) (-1))'
    e = o['ending']
    oe = 'OEndScript' if e[0] == 'end' else ('(OExit %s)' % cz(e[1]) if e[0] == 'exit' else 'OCrashed')
    msgs = clist(o['msgs'], cmsg)
    return '(let tab_ := %s in %s)' % (ctab(o['strs']), sh.wrap('CaseWL tab_ %s %s %s %s %s %s %s' % (
        cz(o['reclimit']), copt(c['maxtasks']), clist(reqs, str), clist(env, str),
        clist(o['unser'], lambda p: '(%s, %s)' % (cz(p[0]), cz(p[1]))), msgs, oe)))


# --------------------------------------------------------------- generation
ALPHA = ['a', 'b', 'Z', ' ', "'", "'", '"', '\\', '\n', '\t', '\r', '\x01', '\x7f', '0', '%', '{',
         'é', '€']


def gen_str(rng):
    return ''.join(rng.choice(ALPHA) for _ in range(rng.choice([0, 1, 1, 2, 3, 5, 9])))


def gen_arg(rng, depth=0, unp=0.0):
    r = rng.random()
    if unp and r < unp:
        return {'u': rng.randint(0, 99)}
    if depth < 3 and r < 0.25:
        k = rng.choice(['t', 'l'])
        return {k: [gen_arg(rng, depth + 1, unp) for _ in range(rng.choice([0, 1, 1, 2, 3]))]}
    r = rng.random()
    if r < 0.35:
        return {'i': rng.choice([0, 1, -1, 7, 42, -300, 10 ** 20, -(10 ** 12) - 5, rng.randint(-999, 99999)])}
    if r < 0.8:
        return {'s': gen_str(rng)}
    if r < 0.9:
        return {'n': 0}
    return {'b': rng.random() < 0.5}


def nest_unp(rng, depth, k):
    """a value that fails to pickle exactly `depth` containers deep"""
    v = {'u': k}
    for _ in range(depth):
        sibs = [gen_arg(rng, 2) for _ in range(rng.choice([0, 1, 2]))]
        pos = rng.randint(0, len(sibs))
        v = {rng.choice(['t', 'l']): sibs[:pos] + [v] + sibs[pos:]}
    return v


# the driver's FUNCS: 0-3 ordinary functions; 4-8 functions made by exec() in globals without / with odd
# __name__ / __file__ / __loader__; 9 eval'd lambda + generator expression in fresh globals; 10 generator;
# 11 class body; 12 sorted(key=) ; 13 map + lambda; 14 __traceback_hide__; 15 raise .. from; 16 raised while
# handling another exception; 17 module-level code run by exec in fresh globals
EXOTIC = list(range(4, 18))
EXOTIC_NAMES = {4: 'exec-fresh-globals', 5: 'exec-name-only', 6: 'exec-file-only', 7: 'exec-None-values',
                8: 'exec-non-str-values', 9: 'eval-lambda-genexpr', 10: 'generator', 11: 'class-body',
                12: 'sorted-key', 13: 'map-lambda', 14: 'traceback-hide', 15: 'raise-from',
                16: 'raise-in-handler', 17: 'exec-module-code'}


def gen_pat(rng, n, exotic=0.3):
    """run-length pattern of n call steps over the driver's functions (ordinary f0..f3, and with
    probability `exotic` per run one of the unusual frame kinds, 1-3 steps)"""
    out = []
    left = n
    use_exotic = rng.random() < 0.6
    while left > 0:
        if use_exotic and rng.random() < exotic:
            k = min(left, rng.choice([1, 1, 2, 3]))
            f = rng.choice(EXOTIC)
        else:
            k = min(left, rng.choice([1, 1, 2, 3, 5, 20, 80]))
            f = rng.choice([0, 0, 1, 2, 3])
        if out and out[-1][0] == f:
            out[-1][1] += k
        else:
            out.append([f, k])
        left -= k
    return out


def gen_exc(rng, unp=0.0):
    name = rng.choice(PLAIN_CLASSES + BASE_ONLY + ['MaybeEncodingError'] * 4)
    if name == 'MaybeEncodingError':
        return [name, [gen_arg(rng), gen_arg(rng)], []]
    nargs = rng.choice([0, 1, 1, 2, 2, 3])
    if name == 'OSError':
        nargs = min(nargs, 1)
    args = [gen_arg(rng, 0, unp) for _ in range(nargs)]
    attrs = []
    if rng.random() < 0.3:
        for k in rng.sample(['foo', 'detail', 'x1'], rng.choice([1, 2])):
            attrs.append([k, gen_arg(rng, 1)])
    return [name, args, attrs]


def gen_depth(rng, thorough):
    r = rng.random()
    if r < 0.45:
        return rng.randint(1, 6)
    if r < 0.65:
        return rng.randint(7, 60)
    if r < 0.88:
        return rng.randint(118, 134)          # around DEFAULT_MAX_FRAMES + 2
    return rng.randint(135, 900 if thorough else 300)


def gen_rt(rng, thorough):
    return dict(kind='rt', exc=gen_exc(rng), pat=gen_pat(rng, gen_depth(rng, thorough)),
                rounds=rng.randint(1, 5), proto=rng.choice([2, 3, 4, 5]))


def gen_tb(rng):
    n = rng.randint(1, 24)
    m = rng.choice([-3, -2, -1, 0, 1, 2, 3, 5, 8, n - 4, n - 3, n - 2, n - 1, n, n + 1, 200])
    return dict(kind='tb', m=m, pat=gen_pat(rng, n), rounds=rng.choice([0, 1, 2]))


def gen_mee(rng):
    return dict(kind='mee', a=gen_arg(rng, 0, 0.1), b=gen_arg(rng, 0, 0.1))


def gen_ns(rng):
    """short chains dense in unusual frames; the stand-in frames' namespaces are compared too"""
    n = rng.choice([1, 1, 2, 3, 4, 6, 9])
    pat = []
    for _ in range(n):
        f = rng.choice(EXOTIC) if rng.random() < 0.75 else rng.choice([0, 1, 2, 3])
        if pat and pat[-1][0] == f:
            pat[-1][1] += 1
        else:
            pat.append([f, 1])
    exc = gen_exc(rng)
    return dict(kind='ns', exc=exc, pat=pat, rounds=rng.choice([0, 1, 2, 3]), proto=rng.choice([2, 4, 5]))


def gen_wl(rng):
    script = []
    job = rng.randint(1, 50)
    nputs = 0
    for _ in range(rng.randint(1, 6)):
        if rng.random() < 0.15:
            script.append(None)
            continue
        job += rng.randint(1, 3)
        r = rng.random()
        if r < 0.3:
            spec = dict(ret=gen_arg(rng))
        elif r < 0.65:
            spec = dict(ret=nest_unp(rng, rng.randint(0, 5), rng.randint(0, 99)))
        elif r < 0.85:
            spec = dict(exc=gen_exc(rng), pat=gen_pat(rng, rng.choice([1, 2, 3, 5, 8, 130])))
        else:
            spec = dict(exc=gen_exc(rng, unp=0.5), pat=gen_pat(rng, rng.randint(1, 4)))
        if 'exc' in spec and spec['exc'][0] == 'MaybeEncodingError':
            spec['exc'][1] = [gen_arg(rng), gen_arg(rng)]
        script.append(dict(job=job, i=rng.randint(0, 3), spec=spec))
        nputs += 3
    env = []
    if rng.random() < 0.3:
        env = ['ok'] * rng.randint(0, max(0, nputs - 1))
        env.append(rng.choice([
            'base',
            ['exc', 'OSError', [{'i': 32}, {'s': 'Broken pipe'}]],
            ['exc', 'OSError', [{'i': 32}, {'s': 'Broken pipe'}]],
            ['exc', 'ValueError', [{'s': "can't \"send\""}]],
            ['exc', 'UserError', []]]))
    return dict(kind='wl', maxtasks=rng.choice([None, None, None, 1, 2, 3]), env=env, script=script)


# ---- histories (kind seq): several failures recorded one after the other in ONE driver process, through
# ---- freshly compiled code objects that share (file name, function name, first line) and differ in body
SEQ_SHAPES = ['def', 'reload', 'lambda', 'genexpr', 'method']
_GEN_UNSAFE = ('StopIteration', 'GeneratorExit')      # PEP 479 turns them into RuntimeError inside a generator


def gen_seq_exc(rng):
    e = gen_exc(rng)
    if e[0] in _GEN_UNSAFE:
        e[0] = 'ValueError'
    return e


def gen_seq_step(rng, shape):
    st = dict(shape=shape, which=rng.randint(0, 5), depth=rng.choice([0, 0, 0, 1, 3]),
              pad=rng.choice([0, 0, 1, 2] if shape in ('lambda', 'genexpr') else [0, 0, 1, 2, 3, 5, 8, 12]))
    if shape == 'def':
        st['tail'] = rng.choice([0, 0, 2])
        if rng.random() < 0.15:
            st['alt'] = 1             # the same source under another file name: equal code, other key
    return st


def gen_seq(rng, tag):
    shapes = rng.sample(SEQ_SHAPES, rng.choice([1, 1, 2]))
    steps = []
    for _ in range(rng.choice([2, 2, 3, 4, 6])):
        st = gen_seq_step(rng, rng.choice(shapes))
        st.update(exc=gen_seq_exc(rng), rounds=rng.choice([0, 1, 1, 2, 3]), proto=rng.choice([2, 4, 5]))
        steps.append(st)
    return dict(kind='seq', tag=tag, file=rng.randint(0, 2), steps=steps)


def gen_wl_seq(rng, tag):
    """worker-loop script whose raising tasks run through freshly compiled code of one shape"""
    shape = rng.choice(SEQ_SHAPES)
    script, job = [], rng.randint(1, 50)
    fidx = rng.randint(0, 2)
    for _ in range(rng.randint(2, 4)):
        job += rng.randint(1, 3)
        if rng.random() < 0.2:
            script.append(dict(job=job, i=0, spec=dict(ret=gen_arg(rng))))
            continue
        q = gen_seq_step(rng, shape)
        q.update(tag=tag, file=fidx)
        script.append(dict(job=job, i=rng.randint(0, 3), spec=dict(exc=gen_seq_exc(rng), seq=q)))
    return dict(kind='wl', maxtasks=None, env=[], script=script)


def _sq(shape, pad, which=0, depth=0, exc=None, rounds=1, **kw):
    return dict(shape=shape, pad=pad, which=which, depth=depth, rounds=rounds, proto=4,
                exc=exc or ['ValueError', [{'s': shape}, {'i': pad}], []], **kw)


# every shape: short body then long body then short again (the later code objects have the key of the
# first and another body); the same source under two file names; recursion (one code object, many
# frames) before and after an edit; the real dataclasses machinery ("<string>", __init__) -- ONE such case
# per run, "<string>" cannot be made case-local --; and the same through the worker loop
BOUNDARY_SEQ = [
    dict(kind='seq', tag=9000 + k, file=k % 3, steps=[
        _sq(shape, 0, 0, exc=['KeyError', [{'s': 'short'}], []]), _sq(shape, big, 2, rounds=2),
        _sq(shape, 0, 1, rounds=0), _sq(shape, mid, 1, exc=['UserBase', [{'i': 1}], [['detail', {'s': 'd'}]]])])
    for k, (shape, mid, big) in enumerate([('def', 3, 9), ('reload', 2, 7), ('lambda', 1, 2), ('genexpr', 1, 2),
                                           ('method', 2, 6)])]
BOUNDARY_SEQ += [
    dict(kind='seq', tag=9010, file=0, steps=[_sq('def', 7, rounds=2), _sq('def', 0, rounds=2)]),      # long, then short
    dict(kind='seq', tag=9011, file=1, steps=[_sq('def', 3), _sq('def', 3, alt=1), _sq('def', 4, alt=1)]),
    dict(kind='seq', tag=9012, file=2, steps=[_sq('def', 0, depth=6), _sq('def', 5, depth=6, tail=2),
                                              _sq('reload', 0, depth=4), _sq('reload', 6, depth=4)]),
    dict(kind='seq', tag=9013, file=0, steps=[_sq('lambda', 0, 0), _sq('lambda', 0, 1), _sq('lambda', 0, 2),
                                              _sq('genexpr', 0, 2), _sq('genexpr', 0, 1), _sq('genexpr', 0, 0)]),
    dict(kind='seq', tag=9014, file=0, steps=[_sq('dataclass', 0, 0), _sq('dataclass', 4, 3), _sq('dataclass', 2, 0)]),
    dict(kind='wl', maxtasks=None, env=[], script=[
        dict(job=101, i=0, spec=dict(exc=['KeyError', [{'s': 'short'}], []], seq=dict(shape='def', pad=0, tag=9020, file=0))),
        dict(job=102, i=0, spec=dict(exc=['ValueError', [{'s': 'long'}, {'i': 7}], []],
                                     seq=dict(shape='def', pad=7, tag=9020, file=0))),
        dict(job=103, i=1, spec=dict(ret={'i': 32}))]),
    dict(kind='wl', maxtasks=None, env=[], script=[
        dict(job=111, i=0, spec=dict(exc=['ValueError', [{'i': 2}], []], seq=dict(shape='lambda', which=2, tag=9021, file=2))),
        dict(job=112, i=0, spec=dict(exc=['ValueError', [{'i': 0}], []], seq=dict(shape='lambda', which=0, tag=9021, file=2))),
        dict(job=113, i=0, spec=dict(exc=['ValueError', [{'i': 1}], []], seq=dict(shape='method', pad=5, which=4, tag=9021, file=2))),
        dict(job=114, i=0, spec=dict(exc=['ValueError', [{'i': 1}], []], seq=dict(shape='method', pad=1, which=0, tag=9021, file=2)))])]


BOUNDARY = (
    # live chain = pattern + 2 driver frames; limit+2 = 127: fits, fits exactly, one too many
    [dict(kind='rt', exc=['ValueError', [{'s': 'edge'}, {'i': n}], []], pat=[[0, n]], rounds=2, proto=4)
     for n in (123, 124, 125, 126, 127)] +
    [dict(kind='rt', exc=['KeyboardInterrupt', [], []], pat=[[1, 1]], rounds=5, proto=2),
     dict(kind='rt', exc=['SystemExit', [{'i': 3}], []], pat=[[3, 2], [2, 2]], rounds=3, proto=5),
     dict(kind='rt', deep=True, rounds=2, proto=4),
     # D20 witness (kept in the corpus as well)
     dict(kind='rt', exc=['MaybeEncodingError', [{'s': "it's"}, {'l': [{'i': 1}, {'s': 'a"b'}]}], []],
          pat=[[0, 1]], rounds=3, proto=4),
     dict(kind='tb', m=0, pat=[[0, 1]], rounds=1), dict(kind='tb', m=0, pat=[[0, 2]], rounds=1),
     dict(kind='tb', m=-1, pat=[[0, 3]], rounds=1), dict(kind='tb', m=3, pat=[[2, 3]], rounds=2),
     dict(kind='tb', m=3, pat=[[2, 4]], rounds=2),
     dict(kind='mee', a={'s': ''}, b={'t': [{'s': "'"}]}),
     dict(kind='wl', maxtasks=None, env=[], script=[
         dict(job=1, i=0, spec=dict(ret={'l': [{'i': 1}, {'t': [{'l': [{'s': 'a'}, {'u': 7}]}]}]})),
         dict(job=2, i=1, spec=dict(exc=['KeyError', [{'u': 3}], []], pat=[[0, 2]])),
         dict(job=3, i=0, spec=dict(ret={'i': 5}))]),
     dict(kind='wl', maxtasks=2, env=[], script=[
         dict(job=5, i=0, spec=dict(ret={'u': 1})), None,
         dict(job=6, i=0, spec=dict(exc=['SystemExit', [{'i': 1}], []], pat=[[3, 1]])),
         dict(job=7, i=0, spec=dict(ret={'i': 0}))]),
     dict(kind='wl', maxtasks=None, env=['ok', ['exc', 'OSError', [{'i': 32}, {'s': 'Broken pipe'}]]],
          script=[dict(job=9, i=2, spec=dict(ret={'s': 'fine'})), dict(job=10, i=0, spec=dict(ret={'n': 0}))]),
     dict(kind='wl', maxtasks=None, env=['ok', 'ok', 'ok', 'base'],
          script=[dict(job=9, i=2, spec=dict(ret={'s': 'fine'})), dict(job=10, i=0, spec=dict(ret={'n': 0}))]),
     ])


# every unusual frame kind once as the raising frame and once in between, through ExceptionInfo
# (rt, ns) and through the worker loop (wl: the next task must still be served)
BOUNDARY_FRAMES = [dict(kind='slots')]
for _f in EXOTIC:
    BOUNDARY_FRAMES += [
        dict(kind='ns', exc=['ValueError', [{'s': 'from exec'}, {'i': _f}], []], pat=[[_f, 1]], rounds=2, proto=4),
        dict(kind='ns', exc=['KeyError', [{'i': _f}], [['detail', {'s': 'd'}]]], pat=[[0, 1], [_f, 2], [3, 1]],
             rounds=1, proto=2),
        dict(kind='rt', exc=['UserBase', [{'s': 'b'}], []], pat=[[1, 2], [_f, 1]], rounds=3, proto=5),
        dict(kind='wl', maxtasks=None, env=[], script=[
            dict(job=40 + _f, i=0, spec=dict(exc=['ValueError', [{'s': 'from exec'}, {'i': 7}], []],
                                             pat=[[_f, 1]])),
            dict(job=60 + _f, i=1, spec=dict(ret={'i': 32}))])]
BOUNDARY_FRAMES += [
    # a traceback longer than the limit made of exec'd frames only; all kinds in one chain
    dict(kind='rt', exc=['RuntimeError', [{'s': 'deep exec'}], []], pat=[[4, 130]], rounds=2, proto=4),
    dict(kind='ns', exc=['RuntimeError', [], []], pat=[[f, 1] for f in EXOTIC], rounds=2, proto=4),
    dict(kind='tb', m=1, pat=[[4, 1], [9, 1], [5, 2]], rounds=1)]


# known finding F-C12-2, on every run: a task raising a picklable exception from / through a frame one of
# whose copied namespace values does not pickle (18: hide local, 19: __file__ of exec globals, 20:
# __name__ of exec globals), through the worker loop (followed by another task), and the record alone
BOUNDARY_NSVAL = []
for _f in (18, 19, 20):
    BOUNDARY_NSVAL += [
        dict(kind='wl', maxtasks=None, env=[], script=[
            dict(job=80 + _f, i=0, spec=dict(exc=['ValueError', [{'s': 'mine'}, {'i': 7}], []], pat=[[_f, 1]])),
            dict(job=90 + _f, i=1, spec=dict(ret={'i': 32}))]),
        dict(kind='nsput', exc=['ValueError', [{'s': 'mine'}, {'i': 7}], []], pat=[[_f, 1]])]
BOUNDARY_NSVAL += [
    dict(kind='wl', maxtasks=None, env=[], script=[
        dict(job=70, i=0, spec=dict(exc=['UserBase', [{'i': 1}], [['detail', {'s': 'd'}]]],
                                    pat=[[0, 2], [19, 1], [4, 1], [18, 1], [3, 1]])),
        dict(job=71, i=0, spec=dict(exc=['KeyError', [{'s': 'k'}], []], pat=[[2, 1]]))]),
    dict(kind='nsput', exc=['KeyError', [{'s': 'k'}], []], pat=[[0, 1], [20, 1], [19, 1], [18, 1], [1, 1]]),
    dict(kind='nsput', exc=['KeyError', [{'s': 'k'}], []], pat=[[4, 1], [14, 1], [8, 1]]),      # all pickle
    # the unpicklable value sits in a frame beyond the limit: it is not copied, the record pickles
    dict(kind='nsput', exc=['KeyError', [{'s': 'k'}], []], pat=[[0, 126], [18, 1]]),
    dict(kind='wl', maxtasks=None, env=[], script=[
        dict(job=72, i=0, spec=dict(exc=['KeyError', [{'s': 'k'}], []], pat=[[0, 126], [18, 1]]))])]


def gen_cases(rng, n, thorough):
    cases = []
    for k in range(n):
        r = rng.random()
        if r < 0.07:
            cases.append(gen_seq(rng, k))
        elif r < 0.10:
            cases.append(gen_wl_seq(rng, k))
        elif r < 0.42:
            cases.append(gen_rt(rng, thorough))
        elif r < 0.54:
            cases.append(gen_tb(rng))
        elif r < 0.62:
            cases.append(gen_mee(rng))
        elif r < 0.77:
            cases.append(gen_ns(rng))
        else:
            cases.append(gen_wl(rng))
    if thorough:
        cases += [dict(kind='rt', deep=True, rounds=r, proto=p) for r in (1, 5) for p in (2, 5)]
    return cases + BOUNDARY + BOUNDARY_FRAMES + BOUNDARY_NSVAL + BOUNDARY_SEQ


# ---------------------------------------------------------------- judging
MON = {1: ('roundtrip-changes-type', 'exception type/class changed across a pickle round trip'),
       3: ('roundtrip-changes-text', 'traceback text changed across a pickle round trip'),
       4: ('roundtrip-changes-tb', 'tb chain changed across a pickle round trip (or is not a prefix of the live chain)'),
       5: ('depth-bound-exceeded', 'tb chain longer than max_frames + 3'),
       6: ('ready-count', 'READY messages do not match the accepted tasks one to one'),
       7: ('encoding-error-not-reported', 'a task whose result could not be sent was not answered by a MaybeEncodingError record'),
       8: ('task-outcome-kills-worker', 'nothing in the environment failed, yet the worker loop died while reporting a task'),
       9: ('record-describes-another-code-object',
           'a record of a history says something else about its code objects (co_firstlineno / f_lineno / tb_lasti / '
           'position of the failing instruction) than the live traceback of its own failure (Gallina monitor mon_step)')}


NODE_FIELDS = ['co_filename', 'co_name', 'tb_lineno', 'co_firstlineno', 'f_lineno', 'tb_lasti',
               'co_positions() entry of the failing instruction (line, end line, column, end column)']


def node_diff(live, nodes, strs, dmf):
    """first disagreement between the stand-in nodes of a record and the live nodes of the failure it was
    built from (None if there is none): trace-only, independent of the model.  Strings are indices into
    one table.  f_lineno is -3 where the frame is still running; a stand-in that keeps no positions ([])
    is not compared on them."""
    def show(n):
        return 'File "%s", line %s, in %s' % (strs[n[0]], n[2], strs[n[1]])
    k = min(len(live), dmf + 2)
    if len(nodes) < k:
        return 'the record has %d nodes for %d live frames' % (len(nodes), len(live))
    for idx in range(k):
        a, b = live[idx], nodes[idx]
        for f, name in enumerate(NODE_FIELDS):
            if name == 'f_lineno' and -3 in (a[f], b[f]):
                continue
            if f == 6 and b[f] == []:
                continue
            if a[f] != b[f]:
                va, vb = (strs[a[f]], strs[b[f]]) if f < 2 else (a[f], b[f])
                return ('frame %d of the failure is %s (co_firstlineno %s, tb_lasti %s); %s of that frame is %r, '
                        'the record says %r%s' % (idx + 1, show(a), a[3], a[5], name, va, vb,
                                                  ' (no entry for that instruction: the traceback module cannot '
                                                  'format the record)' if vb == [-9, -9, -9, -9] else ''))
    return None


def ex_diff(real, got):
    for idx, (a, b) in enumerate(zip(real, got)):
        if a != b:
            return ('entry %d: the traceback module formats the live traceback as File "%s", line %s, in %s '
                    '(end line %s, columns %s-%s) and the record as File "%s", line %s, in %s (end line %s, '
                    'columns %s-%s)' % (idx + 1, a[0], a[2], a[1], a[3], a[4], a[5], b[0], b[2], b[1], b[3], b[4], b[5]))
    return 'extract_tb gives %d entries for the live traceback and %d for the record' % (len(real), len(got))


def judge_seq(res, c, o, rep):
    """a history: every record against the live traceback of ITS OWN failure"""
    n = len(o['steps'])
    raised = set()

    step = [0]

    def alarm(sig, what):
        if sig not in raised:         # one alarm per signature and history
            raised.add(sig)
            res.alarms.append(dict(signature=sig, what=what, replay=rep, seq_step=step[0]))

    for k, (st, so) in enumerate(zip(c['steps'], o['steps'])):
        step[0] = k
        where = ('record %d of a history of %d failures recorded one after the other in one process (%s, code '
                 'compiled afresh under the file name %s; earlier steps: %s)'
                 % (k + 1, n, json.dumps({x: st[x] for x in ('shape', 'pad', 'which', 'depth', 'alt', 'tail')
                                          if st.get(x)}), so['file'],
                    json.dumps([{x: p[x] for x in ('shape', 'pad', 'which') if p.get(x)} for p in c['steps'][:k]])))
        if so.get('build_error'):
            alarm('C12:record-construction-raises',
                  'building the ExceptionInfo record from the live traceback raised %s: %s' % (so['build_error'], where))
            continue
        if so['error']:
            alarm('C12:record-not-picklable', 'pickle round trip of the ExceptionInfo failed (%s): %s' % (so['error'], where))
        for r, nodes in enumerate(so['nodes']):
            d = node_diff(so['nodes_live'], nodes, so['strs'], o['dmf'])
            if d:
                alarm(SIG_STALE, 'the record describes another code object than the one that failed: %s, after %d '
                                 'round trips: %s' % (where, r, d))
                break
        for r, ex in enumerate(so['ex']):
            if isinstance(ex, str):
                alarm('C12:traceback-object-unformattable',
                      'traceback module cannot format the tb of the record (%s): %s, after %d round trips' % (ex, where, r))
                break
            if isinstance(so['real_ex'], list) and so['live_len'] <= o['dmf'] + 2 and ex != so['real_ex']:
                alarm(SIG_STALE, 'the record describes another code object than the one that failed: %s, after %d '
                                 'round trips: %s' % (where, r, ex_diff(so['real_ex'], ex)))
                break
        if so['fmt_text']:
            alarm('C12:traceback-object-unformattable' if 'raised' in so['fmt_text'] else SIG_STALE,
                  '%s: %s' % (so['fmt_text'], where))
        bad = [v['fmt'] for v in so['views'] if v['fmt']]
        if bad:
            alarm('C12:traceback-object-unformattable', 'traceback module cannot format the received tb: %s: %s' % (bad[0], where))
        if not so.get('text_names_raiser', True):
            alarm('C12:text-does-not-name-raising-frame',
                  'ExceptionInfo.traceback does not name the raising frame / exception: %s' % where)
    return raised


def shrink_seq(res):
    """the first alarm about a history: try the two-step histories (one earlier step, the failing step) and
    report the first that still raises the alarm -- every candidate is re-run on the real code"""
    a = next((a for a in res.alarms if 'seq_step' in a and a['replay']['case']['kind'] == 'seq'), None)
    if a is None or a['seq_step'] < 1 or len(a['replay']['case']['steps']) <= 2:
        return
    c, k = a['replay']['case'], a['seq_step']
    cands = [dict(c, steps=[c['steps'][j], c['steps'][k]]) for j in range(k - 1, -1, -1)]
    try:
        outs = core.run_driver('einfo_driver.py', cands, timeout=300)
    except Exception:       # noqa -- the unshrunk witness stands
        return
    for cand, out in zip(cands, outs):
        if 'driver_error' in out:
            continue

        class _R:
            alarms = []
        _R.alarms = []
        judge_seq(_R, cand, out, dict(case=cand, impl=slim(out)))
        hit = next((b for b in _R.alarms if b['signature'] == a['signature']), None)
        if hit:
            a.update(what=hit['what'] + ' [shrunk from a history of %d failures]' % len(c['steps']),
                     replay=hit['replay'], seq_step=hit['seq_step'])
            return


def short(c):
    s = json.dumps(c, sort_keys=True)
    return s if len(s) < 400 else s[:400] + '...'


def judge(res, cases, outs, codes):
    code_at = dict(codes)
    for idx, (c, o) in enumerate(zip(cases, outs)):
        rep = dict(case=c, impl=slim(o))
        if 'driver_error' in o:
            res.broken.append(dict(kind='correspondence', name='einfo_driver crashed on a case',
                                   detail=short(c) + ' :: ' + o['driver_error']))
            continue
        # monitors evaluated directly on the implementation's behaviour (Python side)
        seq_raised = judge_seq(res, c, o, rep) if c['kind'] == 'seq' else set()
        if o.get('build_error'):
            # the task's exception is there, its live traceback is there -- and building the record
            # raised: in a worker this escapes the handler, the worker dies, the caller gets
            # WorkerLostError instead of the task's exception
            res.alarms.append(dict(signature='C12:record-construction-raises',
                                   what='building the %s from the live traceback raised %s on %s'
                                        % ('Traceback stand-in' if c['kind'] == 'tb' else 'ExceptionInfo record',
                                           o['build_error'], short(c)), replay=rep))
            continue
        if c['kind'] == 'ns':
            if o['error']:
                res.alarms.append(dict(signature='C12:record-not-picklable',
                                       what='pickle round trip of the ExceptionInfo failed (%s) on %s' % (o['error'], short(c)),
                                       replay=rep))
            elif o['fmt']:
                res.alarms.append(dict(signature='C12:traceback-object-unformattable',
                                       what='traceback module cannot format the received tb: %s on %s' % (o['fmt'], short(c)),
                                       replay=rep))
            if not o['text_names_raiser']:
                res.alarms.append(dict(signature='C12:text-does-not-name-raising-frame',
                                       what='ExceptionInfo.traceback does not name the raising frame on %s' % short(c),
                                       replay=rep))
        if c['kind'] == 'wl':
            # trace-only: the own exception of a task must reach the caller.  A task whose exception
            # pickles, whose READY put was not scripted to fail, and which is answered by a
            # MaybeEncodingError record instead of its own type/args
            for r in c['script']:
                if r is None or 'exc' not in r['spec']:
                    continue
                orc = o['oracle'].get('%d,%d' % (r['job'], r['i']), {})
                le = orc.get('live_exc')
                if not le or has_unp(le) or le['cls'] == MEE:
                    continue
                n = orc.get('put_n')
                if n is not None and n < len(c['env']) and c['env'][n] != 'ok':
                    continue
                got = [m[4] for m in o['msgs'] if m[0] == 'info' and m[1] == r['job'] and m[2] == r['i']]
                # the record the parent reads, formatted by the traceback module, against the REAL traceback
                # of this very task (taken by the driver when the worker handed the record over)
                if got and got[0]['type'] == le['cls'] and isinstance(orc.get('real_ex'), list) \
                        and isinstance(got[0].get('ex'), list) and got[0]['ex'] != orc['real_ex'] \
                        and sum(x[3] for x in orc['live']) <= o['dmf'] + 2:
                    res.alarms.append(dict(
                        signature=SIG_STALE,
                        what='worker loop: the record sent for task %d of the script (job %d) describes another code '
                             'object than the one that failed: %s on %s'
                             % (c['script'].index(r) + 1, r['job'], ex_diff(orc['real_ex'], got[0]['ex']), short(c)),
                        replay=rep))
                if got and got[0]['cls'] == MEE and got[0]['type'] == MEE:
                    cause = ns_unp(orc, o['dmf'])
                    if cause is not None:
                        res.alarms.append(dict(
                            signature=SIG_NSVAL,
                            what='task raised %s%s (picklable) through a frame holding a namespace value that does not '
                                 'pickle (%s): the caller is sent MaybeEncodingError%s instead (F-C12-2)'
                                 % (le['cls'], json.dumps(le['args']), o['strs'][cause], json.dumps(got[0]['args'][:1])),
                            replay=rep))
                    else:
                        res.alarms.append(dict(
                            signature='C12:picklable-exception-reported-as-encoding-error',
                            what='task raised %s%s (picklable, put not scripted to fail) but the caller is sent '
                                 'MaybeEncodingError%s on %s' % (le['cls'], json.dumps(le['args']),
                                                                 json.dumps(got[0]['args'][:1]), short(c)),
                            replay=rep))
        if c['kind'] == 'wl' and o['ending'][0] == 'crash' and not c['env']:
            res.alarms.append(dict(signature='C12:task-outcome-kills-worker',
                                   what='no put was scripted to fail, yet Worker.workloop died with %s after %d messages on %s'
                                        % (o['ending'][1], len(o['msgs']), short(c)), replay=rep))
        if c['kind'] == 'rt':
            if o['error']:
                res.alarms.append(dict(signature='C12:record-not-picklable',
                                       what='pickle round trip of the ExceptionInfo failed (%s) on %s' % (o['error'], short(c)),
                                       replay=rep))
            bad = [v['fmt'] for v in o['views'] if v['fmt']]
            if bad:
                res.alarms.append(dict(signature='C12:traceback-object-unformattable',
                                       what='traceback module cannot format the received tb: %s on %s' % (bad[0], short(c)),
                                       replay=rep))
            if not o['text_names_raiser']:
                res.alarms.append(dict(signature='C12:text-does-not-name-raising-frame',
                                       what='ExceptionInfo.traceback does not name the raising frame / exception on %s' % short(c),
                                       replay=rep))
        if c['kind'] == 'tb' and (o['error'] or o['fmt']):
            res.alarms.append(dict(signature='C12:traceback-object-unformattable',
                                   what='Traceback stand-in: %s on %s' % (o['error'] or o['fmt'], short(c)), replay=rep))
        if c['kind'] == 'wl':
            bad = [m[4]['fmt'] for m in o['msgs'] if m[0] == 'info' and m[4]['fmt']]
            bad += [v['pfmt'] for v in o['oracle'].values() if v.get('pfmt')]
            if bad:
                res.alarms.append(dict(signature='C12:traceback-object-unformattable',
                                       what='worker record: %s on %s' % (bad[0], short(c)), replay=rep))
        code = code_at.get(idx, 0)
        corr, mon = code % 10, code // 10
        if mon == 2:
            views = o.get('views') or []
            is_mee = bool(views) and views[0]['cls'] == MEE
            if is_mee:
                a0, a1 = views[0]['args'], next(v['args'] for v in views if v['args'] != views[0]['args'])
                res.alarms.append(dict(signature=SIG_D20,
                                       what='MaybeEncodingError args change on a pickle round trip: %s -> %s (D20)'
                                            % (json.dumps(a0), json.dumps(a1)), replay=rep))
            else:
                res.alarms.append(dict(signature='C12:roundtrip-changes-args',
                                       what='exception args changed across a pickle round trip on %s' % short(c),
                                       replay=rep))
        elif mon:
            sig, what = MON.get(mon, ('monitor-%d' % mon, 'property monitor code %d' % mon))
            if 'C12:' + sig not in seq_raised:      # (the trace-only monitor in judge_seq said it with details)
                res.alarms.append(dict(signature='C12:' + sig, what='%s on %s' % (what, short(c)), replay=rep))
        if corr == 2:
            res.alarms.append(dict(signature='C12:differs-from-proved-model',
                                   what='type/args/text/tb chain or worker messages differ from the proved model on %s'
                                        % short(c), replay=rep))
        elif corr == 1:
            res.broken.append(dict(kind='correspondence',
                                   name='EInfo model vs implementation (attributes/cause/stand-in namespaces/object attribute names only)',
                                   detail=short(c)))


def slim(o):
    """observation without bulky tables (replays stay readable)"""
    if not isinstance(o, dict):
        return o
    return {k: v for k, v in o.items() if k not in ('text_lens',)}


def nontrivial(c, o):
    if 'driver_error' in o:
        return False
    if c['kind'] == 'rt':
        return len(o['views']) >= 2 and (o['live_len'] > 3 or bool(o['live_exc']['args']))
    if c['kind'] == 'wl':
        return any(r is not None for r in c['script'])
    if c['kind'] == 'slots':
        return False
    if c['kind'] == 'seq':
        return len(o['steps']) >= 2
    return True


def renderable(o):
    return 'driver_error' not in o and not o.get('build_error') \
        and not any(so.get('build_error') for so in o.get('steps', []))


def correspond(res, n):
    thorough = res.tier != 'quick'
    rng = random.Random(res.seed * 15485863 + 12)
    corpus = json.load(open(core.VERIF + '/corpus/C12.json'))
    cases = corpus + gen_cases(rng, n, thorough)
    outs = []
    for part in core.chunks(cases, 400):
        outs += core.run_driver('einfo_driver.py', part, timeout=1200)
    ok = [(c, o) for c, o in zip(cases, outs) if renderable(o)]
    terms = [to_coq(c, o) for c, o in ok]
    codes, _ = core.coq_eval('C12', HEADER, core.chunks(terms, 50))
    # map indices of the filtered list back
    idxmap = [i for i, o in enumerate(outs) if renderable(o)]
    codes = [(idxmap[i], code) for i, code in codes]
    judge(res, cases, outs, codes)
    # a record that describes another code object: the shortest history first, shrunk to two steps if possible
    # (a stale FIRST record of a history comes from an earlier case of this driver process: replaying that case
    # alone need not reproduce it, so it is reported after those whose cause lies inside the history)
    res.alarms.sort(key=lambda a: (1, 0, 0) if a['signature'] != SIG_STALE else
                    (0, a.get('seq_step', 1) == 0,
                     len(a['replay']['case'].get('steps', a['replay']['case'].get('script', [])))))
    shrink_seq(res)
    # the expected finding D20 last, so that anything else is what gets reported first
    res.alarms.sort(key=lambda a: a['signature'] in (SIG_D20, SIG_NSVAL))
    # ... and "building the record raised" first: it is the cause of whatever else such a run shows
    res.alarms.sort(key=lambda a: a['signature'] != 'C12:record-construction-raises')

    kinds, classes, depths, rounds, endings = {}, {}, {}, {}, {}
    trunc = unser = scripted = 0
    frame_kinds, missing_keys = {}, {}
    for c, o in ok:
        kinds[c['kind']] = kinds.get(c['kind'], 0) + 1
        pats = [c['pat']] if 'pat' in c else \
            [r['spec']['pat'] for r in c.get('script', []) if r and 'pat' in r['spec']]
        for f in {f for p in pats for f, _ in p if f in EXOTIC_NAMES}:
            frame_kinds[EXOTIC_NAMES[f]] = frame_kinds.get(EXOTIC_NAMES[f], 0) + 1
        if c['kind'] == 'ns':
            for node in o['live']:
                have = {o['strs'][kv[0]] for kv in node[3]}
                for key in ('__name__', '__file__', '__loader__'):
                    if key not in have:
                        missing_keys[key] = missing_keys.get(key, 0) + 1
        if c['kind'] == 'rt':
            nm = o['live_exc']['cls'].split('.')[-1]
            classes[nm] = classes.get(nm, 0) + 1
            b = o['live_len']
            key = '1-8' if b <= 8 else '9-100' if b <= 100 else '101-126' if b <= 126 else \
                '127' if b == 127 else '128' if b == 128 else '129-300' if b <= 300 else '>300'
            depths[key] = depths.get(key, 0) + 1
            rounds[str(c['rounds'])] = rounds.get(str(c['rounds']), 0) + 1
            trunc += o['live_len'] > o['dmf'] + 2
        if c['kind'] == 'wl':
            endings[o['ending'][0]] = endings.get(o['ending'][0], 0) + 1
            unser += len(o['unser'])
            scripted += bool(c['env'])
    # histories: steps that ran through a code object whose (file, name, first line) an EARLIER step of the
    # same history ran through with another body (another raise line / instruction offset / position)
    hist = dict(histories=0, steps=0, steps_through_equal_key_other_body=0, shapes={})
    for c, o in ok:
        if c['kind'] != 'seq':
            continue
        hist['histories'] += 1
        seen = {}
        for st, so in zip(c['steps'], o['steps']):
            hist['steps'] += 1
            hist['shapes'][st['shape']] = hist['shapes'].get(st['shape'], 0) + 1
            keys = {}
            for nd in so['nodes_live'][1:]:
                keys.setdefault((so['strs'][nd[0]], so['strs'][nd[1]], nd[3]), set()).add((nd[2], nd[5], tuple(nd[6])))
            if any(k in seen and not (body <= seen[k]) for k, body in keys.items()):
                hist['steps_through_equal_key_other_body'] += 1
            for k, body in keys.items():
                seen.setdefault(k, set()).update(body)
    hist['worker_scripts_with_recompiled_tasks'] = sum(
        1 for c, o in ok if c['kind'] == 'wl' and any(r and 'seq' in r['spec'] for r in c['script']))
    distinct = len({json.dumps(c, sort_keys=True) for c, o in ok if nontrivial(c, o)})
    sample = [dict(case=c, impl=slim(o)) for c, o in ok if c['kind'] == 'wl' and o['unser']][:1]
    sample += [dict(case=c, impl=dict(live_len=o['live_len'], views=len(o['views']),
                                     tb_len=sum(x[3] for x in o['views'][-1]['tb'])))
               for c, o in ok if c['kind'] == 'rt' and o['live_len'] > 127][:1]
    res.add_cov(evaluations=len(cases), distinct=distinct, traces=len(ok), samples=sample,
                rule='corpus, then seeded random cases of five kinds (rt: exception class x args x attrs x real '
                     'call-chain pattern x 1-5 pickle round trips x protocol; tb: Traceback(max_frames=m); '
                     'mee: MaybeEncodingError(a,b); wl: Worker.workloop over a scripted request list with a '
                     'really-pickling outq and scripted put failures; ns: short chains dense in unusual frames, '
                     'live and stand-in frame namespaces observed), the call chains running over ordinary functions '
                     'and 14 unusual frame kinds (exec/eval in fresh or odd globals, lambda, generator expression, '
                     'generator, class body, under sorted(key=)/map, __traceback_hide__, chained exceptions), then '
                     'enumerated boundary cases (live depth limit+1..limit+4, base exceptions, RecursionError, D20 '
                     'witness; every unusual frame kind as raising frame and in between, through ExceptionInfo and '
                     'through the worker loop; HISTORIES (kind seq, and wl scripts with recompiled tasks): 2-6 failures '
                     'recorded one after the other in one process through code compiled afresh per step under one file '
                     'name -- def / reloaded module / lambdas on one line / generator expressions on one line / generated '
                     'methods / real dataclasses --, so that later steps run through other code objects with an equal '
                     '(co_filename, co_name, co_firstlineno), each record compared node by node and as formatted by the '
                     'traceback module with the live traceback of its own failure); non-trivial = rt with >= 1 round trip and (args or more than 3 '
                     'frames), wl with >= 1 task, every tb/mee/ns; distinct by canonical JSON',
                unusual_frame_kinds=frame_kinds, live_frames_without_key=missing_keys, histories=hist,
                case_kinds=kinds, exception_classes=classes, live_depth_histogram=depths,
                roundtrips_histogram=rounds, truncated_tracebacks=trunc,
                worker_endings=endings, worker_unserialisable_results=unser,
                worker_cases_with_scripted_put_failure=scripted)


def run(res):
    res.proof_step('Props/C12.v', extra_targets=['Model/EInfo.vo', 'Model/EInfoSeq.vo'], kernels_needed=['K_einfo'])
    n = 200 if res.tier == 'quick' else 6000
    if res.broken:
        n = max(n, 1500)      # failing-input search
    correspond(res, n)
    res.assumptions += [
        'pickle and the traceback module are trusted; the traceback text is an oracle of the model',
        'a live frame is (co_filename, co_name, tb_lineno) + its f_globals / f_locals as arbitrary dicts (any key may be '
        'missing; values str / None / other); real frame, code and traceback objects have the attributes listed in '
        'Model.EInfo.frame_slots / code_slots / tb_slots (validated against dir() of real objects on every run); the '
        'stand-in constructors are the reads matched statement by statement by the translator (any other statement '
        'shape is a translator error); namespace values of the stand-in that do not pickle make the record '
        'unpicklable: known finding F-C12-2, modelled by Model.EInfo.env_ns / handle_task_ns (the READY put fails by '
        'itself with the repr of what pickling the value raises); in wl cases which value fails is taken from the '
        'driver\'s own pickling of the LIVE frames\' values (props ns_unp mirrors chain_pickle_err o copy_ltb, which '
        'CaseNsPut compares with the real pickler on the record for the same frame kinds)',
        'histories: that no constructor of einfo.py keeps anything between two calls is (a) structural -- the translator classifies the '
        'class-level bindings and constructor statements of the record classes from the syntax (C12_code_standins_keep_no_state; state kept '
        'elsewhere, e.g. in an attribute of a function object or via a mutated builtin, is outside that scan) -- and (b) tested by the seq '
        'cases; the model-level history theorems hold by construction of the model',
        'repr() of anything but str/int/None/bool/tuple/list is an oracle; str code points ASCII (a few printable non-ASCII are exercised)',
        'exception classes whose constructor does not rebuild the object from .args (the statement says "picklable") are outside',
        'the worker is run in-process with synq=None and a scripted wait_for_job; put failures other than pickling are scripted by call index',
        'Model.EInfo.mee_repaired = true: the model follows /repo (MaybeEncodingError has the repaired __reduce__); '
        'lemma gen_mee_reduce fails to compile if /repo and that line disagree, and gen_mee_rebuild if the BODY of '
        '__reduce__ / of the rebuild function it names (matched statement by statement by the translator) does not '
        'restore args and __dict__; the *_refuted / *_never_settles theorems are about the counterfactual switch value false',
        'the model of unpickling a MaybeEncodingError under the repaired switch is exact on objects of the shape its '
        'constructor builds (args = (exc, value), __dict__ = {exc, value}); the new end-to-end theorems assume that shape '
        '(picklable_exc); extra attributes set on such an object by hand would be dropped by the real __reduce__',
    ]


def replay(path):
    d = json.load(open(path))
    c = d['replay']['case']
    out = core.run_driver('einfo_driver.py', [c])[0]
    print('case:', json.dumps(c))
    print('implementation now:', json.dumps(slim(out))[:6000])
    if 'driver_error' in out:
        return 1
    if out.get('build_error'):
        print('building the record from the live traceback raised: %s' % out['build_error'])
        return 1
    if c['kind'] == 'wl' and out['ending'][0] == 'crash' and not c['env']:
        print('Worker.workloop died with %s although no put was scripted to fail' % out['ending'][1])
    rc = 0
    if c['kind'] == 'seq':
        class _R:
            alarms = []
        judge_seq(_R, c, out, None)
        for a in _R.alarms:
            print('  %s: %s' % (a['signature'], a['what']))
        rc = 1 if _R.alarms else 0
        if not renderable(out):
            return rc
    codes, _ = core.coq_eval('C12r', HEADER, [[to_coq(c, out)]])
    if not codes:
        print('model agrees, property monitor silent')
        return rc
    code = codes[0][1]
    print('correspondence code %d (0 agree, 1 internal detail, 2 property observable), monitor code %d'
          % (code % 10, code // 10))
    if out.get('views'):
        for k, v in enumerate(out['views']):
            print('  after %d round trips: type=%s args=%s' % (k, v['type'], json.dumps(v['args'])))
    return 1
