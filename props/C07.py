"""C07 -- close() then join() drains all work and leaves no processes behind.  Pool family: theorems over Model/Pool.v (Props/C07.v), tied to
billiard/pool.py by differential correspondence on fake-process histories."""
from vlib import core
from props import poolcommon as pc

MANIFEST = dict(
    text='Theorems: a pool that is not RUN accepts no apply/map/imap; result and accept handling do not depend on the pool state (results of jobs submitted before close() are kept); close() hands back every slot; outcomes observable before close() survive any continuation; an Apply result is credited to its owner. join() returning, workers reaped and helper threads stopped are validated on real pools on every run (not proved). close() in the middle of a supervision pass: no further worker is started and the pool is left closed. Closed crash-free composition (Model/PoolSys.v): with close() at any point every maximal schedule ends, within 6n+1 steps, with every job accepted before close() resolved with its own outcome. Refuted with witnesses (known findings): jobs queued at close() are dropped when the last worker is recycled; multi-part results credited to the first owner.',
    note='Trusted: Coq kernel; Model/Pool.v and Model/Worker.v validated on every run against the real code; real-pool scenarios are timing-dependent validation (generous bounds), not proof. Partial: liveness of join() and the thread census are runtime behaviour; known findings: queued jobs dropped after close() on a recycling pool (D19), result counter credited to the first owner of a map job (D7: join may wait out the 30 s guard).',
    technique='Coq proof over executable pool and worker models + differential correspondence + real-pool validation scenarios',
    ref='5.7',
)

FOCUS = {'close': 3, 'apply': 12, 'ready': 12, 'ack': 12, 'map': 4, 'feed': 6, 'tick': 6, 'tick_close': 4, 'exit': 5}

REAL_QUICK = [{'kind': 'close_join', 'n': 2, 'applies': 6, 'threads': False, 'sleep': 0.4}, {'kind': 'close_join', 'n': 2, 'applies': 6, 'map': 7, 'imap': 3}, {'kind': 'close_join', 'n': 3, 'applies': 9, 'before_close': 0.3}, {'kind': 'close_join', 'n': 2, 'applies': 6, 'maxtasks': 1, 'watchdog': 30}]
REAL_THOROUGH = [{'kind': 'close_join', 'n': 2, 'applies': 6, 'threads': False, 'sleep': 0.4}, {'kind': 'close_join', 'n': 1, 'applies': 3, 'threads': False, 'sleep': 0.3}, {'kind': 'close_join', 'n': 3, 'applies': 9, 'threads': False}, {'kind': 'close_join', 'n': 1, 'applies': 0, 'map': 0, 'imap': 0, 'before_close': 0}, {'kind': 'close_join', 'n': 1, 'applies': 0, 'map': 0, 'imap': 0, 'before_close': 0.4}, {'kind': 'close_join', 'n': 1, 'applies': 0, 'map': 0, 'imap': 4, 'before_close': 0}, {'kind': 'close_join', 'n': 1, 'applies': 0, 'map': 0, 'imap': 4, 'before_close': 0.4}, {'kind': 'close_join', 'n': 1, 'applies': 0, 'map': 9, 'imap': 0, 'before_close': 0}, {'kind': 'close_join', 'n': 1, 'applies': 0, 'map': 9, 'imap': 0, 'before_close': 0.4}, {'kind': 'close_join', 'n': 1, 'applies': 0, 'map': 9, 'imap': 4, 'before_close': 0}, {'kind': 'close_join', 'n': 1, 'applies': 0, 'map': 9, 'imap': 4, 'before_close': 0.4}, {'kind': 'close_join', 'n': 1, 'applies': 5, 'map': 0, 'imap': 0, 'before_close': 0}, {'kind': 'close_join', 'n': 1, 'applies': 5, 'map': 0, 'imap': 0, 'before_close': 0.4}, {'kind': 'close_join', 'n': 1, 'applies': 5, 'map': 0, 'imap': 4, 'before_close': 0}, {'kind': 'close_join', 'n': 1, 'applies': 5, 'map': 0, 'imap': 4, 'before_close': 0.4}, {'kind': 'close_join', 'n': 1, 'applies': 5, 'map': 9, 'imap': 0, 'before_close': 0}, {'kind': 'close_join', 'n': 1, 'applies': 5, 'map': 9, 'imap': 0, 'before_close': 0.4}, {'kind': 'close_join', 'n': 1, 'applies': 5, 'map': 9, 'imap': 4, 'before_close': 0}, {'kind': 'close_join', 'n': 1, 'applies': 5, 'map': 9, 'imap': 4, 'before_close': 0.4}, {'kind': 'close_join', 'n': 2, 'applies': 0, 'map': 0, 'imap': 0, 'before_close': 0}, {'kind': 'close_join', 'n': 2, 'applies': 0, 'map': 0, 'imap': 0, 'before_close': 0.4}, {'kind': 'close_join', 'n': 2, 'applies': 0, 'map': 0, 'imap': 4, 'before_close': 0}, {'kind': 'close_join', 'n': 2, 'applies': 0, 'map': 0, 'imap': 4, 'before_close': 0.4}, {'kind': 'close_join', 'n': 2, 'applies': 0, 'map': 9, 'imap': 0, 'before_close': 0}, {'kind': 'close_join', 'n': 2, 'applies': 0, 'map': 9, 'imap': 0, 'before_close': 0.4}, {'kind': 'close_join', 'n': 2, 'applies': 0, 'map': 9, 'imap': 4, 'before_close': 0}, {'kind': 'close_join', 'n': 2, 'applies': 0, 'map': 9, 'imap': 4, 'before_close': 0.4}, {'kind': 'close_join', 'n': 2, 'applies': 5, 'map': 0, 'imap': 0, 'before_close': 0}, {'kind': 'close_join', 'n': 2, 'applies': 5, 'map': 0, 'imap': 0, 'before_close': 0.4}, {'kind': 'close_join', 'n': 2, 'applies': 5, 'map': 0, 'imap': 4, 'before_close': 0}, {'kind': 'close_join', 'n': 2, 'applies': 5, 'map': 0, 'imap': 4, 'before_close': 0.4}, {'kind': 'close_join', 'n': 2, 'applies': 5, 'map': 9, 'imap': 0, 'before_close': 0}, {'kind': 'close_join', 'n': 2, 'applies': 5, 'map': 9, 'imap': 0, 'before_close': 0.4}, {'kind': 'close_join', 'n': 2, 'applies': 5, 'map': 9, 'imap': 4, 'before_close': 0}, {'kind': 'close_join', 'n': 2, 'applies': 5, 'map': 9, 'imap': 4, 'before_close': 0.4}, {'kind': 'close_join', 'n': 4, 'applies': 0, 'map': 0, 'imap': 0, 'before_close': 0}, {'kind': 'close_join', 'n': 4, 'applies': 0, 'map': 0, 'imap': 0, 'before_close': 0.4}, {'kind': 'close_join', 'n': 4, 'applies': 0, 'map': 0, 'imap': 4, 'before_close': 0}, {'kind': 'close_join', 'n': 4, 'applies': 0, 'map': 0, 'imap': 4, 'before_close': 0.4}, {'kind': 'close_join', 'n': 4, 'applies': 0, 'map': 9, 'imap': 0, 'before_close': 0}, {'kind': 'close_join', 'n': 4, 'applies': 0, 'map': 9, 'imap': 0, 'before_close': 0.4}, {'kind': 'close_join', 'n': 4, 'applies': 0, 'map': 9, 'imap': 4, 'before_close': 0}, {'kind': 'close_join', 'n': 4, 'applies': 0, 'map': 9, 'imap': 4, 'before_close': 0.4}, {'kind': 'close_join', 'n': 4, 'applies': 5, 'map': 0, 'imap': 0, 'before_close': 0}, {'kind': 'close_join', 'n': 4, 'applies': 5, 'map': 0, 'imap': 0, 'before_close': 0.4}, {'kind': 'close_join', 'n': 4, 'applies': 5, 'map': 0, 'imap': 4, 'before_close': 0}, {'kind': 'close_join', 'n': 4, 'applies': 5, 'map': 0, 'imap': 4, 'before_close': 0.4}, {'kind': 'close_join', 'n': 4, 'applies': 5, 'map': 9, 'imap': 0, 'before_close': 0}, {'kind': 'close_join', 'n': 4, 'applies': 5, 'map': 9, 'imap': 0, 'before_close': 0.4}, {'kind': 'close_join', 'n': 4, 'applies': 5, 'map': 9, 'imap': 4, 'before_close': 0}, {'kind': 'close_join', 'n': 4, 'applies': 5, 'map': 9, 'imap': 4, 'before_close': 0.4}, {'kind': 'close_join', 'n': 2, 'applies': 6, 'maxtasks': 1, 'watchdog': 30}]


def run(res):
    res.proof_step('Props/C07.v', extra_targets=['Model/Pool.vo'], kernels_needed=['G_pool_shape', 'G_pool_pins'])
    n = 150 if res.tier == 'quick' else 6000
    if res.broken:
        n = max(n, 1500)      # failing-input search on the implementation
    pc.pool_check(res, 'C07', n, focus=FOCUS)
    pc.closed_check(res, 'C07', 120 if res.tier == 'quick' else 2000)
    pc.real_scenarios(res, 'C07', REAL_QUICK if res.tier == 'quick' else REAL_THOROUGH)
    res.assumptions += pc_assumptions()


def pc_assumptions():
    return [
        'atomicity grain: one event = one message handled, one supervision pass, one full timeout scan, one user call; preemption inside these is not modelled',
        'worker processes, the clock, kill() and waitpid() are harness fakes; task values are abstract tags',
        'threads=False driving of the real handlers (handle_result_event, _maintain_pool, TimeoutHandler.handle_event, TaskHandler.body)',
    ]


def replay(path):
    return pc.pool_replay(path)
