"""C09 -- pool keeps its size; workers recycled without harm.  Pool family: theorems over Model/Pool.v (Props/C09.v), tied to
billiard/pool.py by differential correspondence on fake-process histories."""
from vlib import core
from props import poolcommon as pc
from props import C03 as worker

MANIFEST = dict(
    text='Theorems: a supervision pass that does not raise brings the worker list to exactly max(configured size, still-alive workers); a fresh in-range slot index always exists below size (pigeonhole) and is unused; workers are only started by supervision; an exit of a worker owning no unfinished job changes no job. History level (Proofs/PoolSize.v): in every reachable state the workers not being stopped number at most the configured size; a pass over a running pool whose reaped workers all left clean/recycled never fails, restores the size, leaves the limiter and every resolved job untouched; no exited worker is left in the pool list after any pass; slot indices are pairwise distinct in every reachable state. Refuted (known finding): no replacement after close(). Closed system with crashes (Model/PoolCrash.v): the worker list is at the configured size in every reachable state, whatever the schedule of kills, passes and results (C09_crash_pool_size_kept).',
    note='Trusted: Coq kernel; hand-written model Model/Pool.v validated on every run against the real billiard.pool parent-side code (harness/pool_driver.py: fake processes, fake clock, recorded signals); event-level atomicity; worker side and OS not modelled here (C03 covers the worker loop). Partial: per-worker quota (at most N jobs) is the worker loop (C03); map/imap spurious loss on recycling pools (D3) and close() stopping supervision (D19) are known findings. A supervision pass interleaved inside shrink() (where it waits for the semaphore) is a monitor-only hook case on the real code.',
    technique='Coq proof (invariants by induction over all event histories of an executable pool model) + differential correspondence against the real parent-side code',
    ref='5.9',
)

FOCUS = {'exit': 10, 'tick': 14, 'grow': 3, 'shrink': 3, 'apply': 8, 'ack': 8}


def run(res):
    res.proof_step('Props/C09.v', extra_targets=['Model/Pool.vo', 'Model/Worker.vo', 'Model/PoolCrash.vo'], kernels_needed=['G_pool_shape', 'K_worker', 'K_restart', 'G_pool_pins'])
    n = 150 if res.tier == 'quick' else 6000
    if res.broken:
        n = max(n, 1500)      # failing-input search on the implementation
    pc.pool_check(res, 'C09', n, focus=FOCUS)
    pc.hook_cases_C09(res)
    # the closed system with crashes (Model/PoolCrash.v), schedules without the racy pass of the recorded C04 finding
    pc.crash_closed_check(res, 'C09', 40 if res.tier == 'quick' else 800, allow_early=False)
    # the per-child task quota is the worker loop's business: the real Worker.workloop against
    # the worker model (quota, recycle status, what counts as an executed job)
    before = len(res.alarms)
    worker.correspond(res, 120 if res.tier == 'quick' else 4000)
    # recorded findings of C03 (the worker protocol's own property) are reported by ./check C03,
    # not once more under this property; everything else the worker run raises counts here
    c03_known = {k['signature'] for k in core.load_known() if k.get('status') == 'known' and k.get('property') == 'C03'}
    kept = [a for a in res.alarms[before:] if a['signature'] not in c03_known]
    del res.alarms[before:]
    res.alarms.extend(kept)
    for a in res.alarms[before:]:
        a['signature'] = a['signature'].replace('C03:', 'C09:worker-')
    pc.real_scenarios(res, 'C09', [dict(kind='recycle', n=2, maxtasks=2, jobs=12)] if res.tier == 'quick' else [dict(kind='recycle', n=n, maxtasks=m, jobs=6 * n * m, watchdog=90) for n in (1, 2, 4) for m in (1, 2, 3)])
    res.assumptions += pc_assumptions()


def pc_assumptions():
    return [
        'atomicity grain: one event = one message handled, one supervision pass, one full timeout scan, one user call; preemption inside these is not modelled',
        'worker processes, the clock, kill() and waitpid() are harness fakes; task values are abstract tags',
        'threads=False driving of the real handlers (handle_result_event, _maintain_pool, TimeoutHandler.handle_event, TaskHandler.body)',
    ]


def replay(path):
    return pc.pool_replay(path)
