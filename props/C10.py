"""C10 -- slot semaphore.  Semaphore half: K_laxsem regenerated from pool.py and proved equal to
Model.LaxSem; correspondence on random op sequences.  Pool half: slot accounting of the pool model."""
import json
import random
from vlib import core
from props import poolcommon as pc
from vlib.core import cz, clist, cbool

MANIFEST = dict(
    text='Theorems (Coq, all op sequences, unbounded): the LaxBoundedSemaphore methods translated from pool.py on every run equal the model; 0 <= value <= size + shrinks-in-progress for every sequence of acquire/release/grow/shrink/clear; acquire enabled iff value > 0; release is lax. Correspondence on random op sequences against the real class. Pool level: the bound is the configured size in every reachable state; a pass gives back one slot per reaped worker; an apply task that cannot be sent gives its slot back (repaired defect D26). Closed crash-free composition: free slots + jobs in flight = bound in every reachable state, all slots back at the end. Refuted with a witness (known finding): the first result of a map job frees a slot no map job took. Closed system with crashes (Model/PoolCrash.v): free slots + slot holders = bound in every reachable state, all slots back at every complete end (C10_crash_slots_account). Closed system with hard limits (Model/PoolLimit.v): free slots + unresolved jobs + dead unreaped workers = bound on every schedule without the racy scan (C10_limit_slots_account); REFUTED with the racy scan (known finding F-C10-2, C10_quiet_pool_has_all_slots_refuted): a quiet pool with 1 of 2 slots free for ever.',
    note='Trusted: Coq kernel, translate/pykernel.py, Lib/PyVal.v (Python int/None semantics), stdlib threading.Semaphore modelled (blocking acquire = Blocked), `with cond:` sections atomic. Pool-level slot conservation is partial (see DESIGN.md 5.10).',
    technique='Coq proof over translator-regenerated kernel + differential correspondence',
    ref='5.10',
)

HEADER = '''From Coq Require Import ZArith List Bool.
From BV Require Import Lib.Cases Model.LaxSem.
Import ListNotations. Open Scope Z_scope.
Definition check_case := LaxSem.check_case.'''

OPS = ['Acquire', 'Acquire', 'Acquire', 'Release', 'Release', 'Release', 'Grow', 'Shrink', 'Clear', 'ShrinkFinish']


def gen_cases(rng, n):
    cases = []
    for _ in range(n):
        cases.append(dict(n=rng.choice([0, 1, 1, 2, 2, 3, 4, 8]),
                          ops=[rng.choice(OPS) for _ in range(rng.randint(0, 30))]))
    cases.append(dict(n=2, ops=['Acquire', 'Acquire', 'Acquire', 'Release', 'Release', 'Release', 'Release']))
    cases.append(dict(n=1, ops=['Acquire', 'Shrink', 'Release', 'ShrinkFinish', 'Release', 'Grow', 'Clear']))
    return cases


def cop(o):
    return 'HShrink' if o == 'Shrink' else '(HOp %s)' % o


def to_coq(c, obs):
    return '(%s, %s, %s)' % (cz(c['n']), clist(c['ops'], cop),
                             clist(obs, lambda o: '(%s, %s, %s)' % (cbool(o[0]), cz(o[1]), cz(o[2]))))


def correspond_sem(res, n):
    rng = random.Random(res.seed * 104729 + 3)
    cases = json.load(open(core.VERIF + '/corpus/C10.json')) + gen_cases(rng, n)
    probes = [[n, m, 'release'] for n in (1, 2, 3) for m in (1, 2) if m <= n]
    both = core.run_driver('laxsem_driver.py', dict(cases=cases, probes=probes))
    outs = both['cases']
    for pr in both['probes']:
        # two concurrent releases with `missing` slots taken: value must be min(n, value + 2) and never above the bound
        if pr['value'] > pr['bound'] or pr['hung']:
            res.alarms.append(dict(signature='C10:concurrent-release-exceeds-bound',
                                   what='two threads releasing concurrently on a size-%d semaphore with %d slot(s) taken: value %d, bound %d%s'
                                        % (pr['n'], pr['missing'], pr['value'], pr['bound'], ' (hung)' if pr['hung'] else ''),
                                   replay=dict(kind='race-probe', probe=pr)))
    terms = [to_coq(c, o) for c, o in zip(cases, outs)]
    codes, _ = core.coq_eval('C10', HEADER, core.chunks(terms, 400))
    distinct = len({json.dumps(c) for c in cases if len(set(c['ops'])) >= 3})
    hist = {}
    for c in cases:
        for o in c['ops']:
            hist[o] = hist.get(o, 0) + 1
    over = 0
    for c, o in zip(cases, outs):
        pend = 0
        for op, ob in zip(c['ops'], o):
            if op == 'Shrink' and ob[0]:
                pend += 1
            if op == 'ShrinkFinish' and not ob[0]:
                pend -= 1
            # the property itself, checked directly on the implementation trace
            if ob[1] < 0 or ob[1] > ob[2] + pend:
                over += 1
                res.alarms.append(dict(signature='C10:value-out-of-bounds',
                                       what='semaphore value %d outside [0, %d+%d] after %s' % (ob[1], ob[2], pend, op),
                                       replay=dict(case=c, impl=o)))
                break
    res.add_cov(evaluations=len(cases), distinct=distinct, traces=len(cases),
                samples=[dict(case=cases[-1], impl=outs[-1])],
                rule='random sequences over acquire/release/grow/shrink/clear/wake-blocked-shrink, sizes 0-8; '
                     'non-trivial = at least three distinct op kinds',
                op_histogram=hist, concurrent_release_probes=len(probes))
    for i, code in codes:
        res.alarms.append(dict(signature='C10:semaphore-differs',
                               what='LaxBoundedSemaphore differs from the proved model on %s: impl %s'
                                    % (json.dumps(cases[i]), outs[i]),
                               replay=dict(case=cases[i], impl=outs[i])))


def run(res):
    res.proof_step('Props/C10.v', extra_targets=['Model/LaxSem.vo', 'Model/Pool.vo', 'Model/PoolCrash.vo'], kernels_needed=['K_laxsem', 'G_laxsem_atomic', 'G_pool_shape', 'G_pool_pins'])
    n = 400 if res.tier == 'quick' else 20000
    if res.broken:
        n = max(n, 5000)
    correspond_sem(res, n)
    # pool half: slot accounting of the whole pool against the proved pool model
    pc.pool_check(res, 'C10', 100 if res.tier == 'quick' else 4000, focus={'apply': 14, 'ready': 12, 'ack': 10, 'exit': 6, 'tick': 10, 'grow': 3, 'shrink': 3, 'close': 0.6, 'feed': 5},
                  cfg=lambda rng: dict(pc.random_cfg(rng), putlocks=True))
    # closed crash-free composition: conservation (free slots + jobs in flight = bound) is proved of it
    pc.closed_check(res, 'C10', 120 if res.tier == 'quick' else 2000)
    # the closed system with crashes (Model/PoolCrash.v), schedules without the racy pass of the recorded C04 finding
    pc.crash_closed_check(res, 'C10', 40 if res.tier == 'quick' else 800, allow_early=False)
    # the closed system with hard time limits, racy scans included (they re-detect the recorded finding F-C10-2)
    pc.limit_closed_check(res, 'C10', 60 if res.tier == 'quick' else 1200, allow_racy=True)
    pc.real_scenarios(res, 'C10', [dict(kind='closed_system', n=2, jobs=12), dict(kind='closed_system', n=3, jobs=7, putlocks=True)] if res.tier == 'quick' else [dict(kind='closed_system', n=n, jobs=j, putlocks=pl) for n in (1, 2, 4) for j in (0, 1, 9, 40) for pl in (True, False)])
    res.assumptions += [
        'threading.Semaphore / Condition (stdlib) are modelled: a blocking acquire with value 0 is "Blocked"',
        '`with self._cond:` sections are atomic',
    ]


def replay(path):
    d = json.load(open(path))
    if (d.get('replay') or {}).get('kind') == 'race-probe':
        pr = d['replay']['probe']
        out = core.run_driver('laxsem_driver.py', dict(cases=[], probes=[[pr['n'], pr['missing'], pr['op']]]))['probes'][0]
        print('probe now:', json.dumps(out))
        return 1 if out['value'] > out['bound'] or out['hung'] else 0
    if (d.get('replay') or {}).get('kind') == 'pool-history':
        return pc.pool_replay(path)
    c = d['replay']['case']
    out = core.run_driver('laxsem_driver.py', [c])[0]
    print('case:', json.dumps(c))
    print('implementation now:', json.dumps(out))
    codes, _ = core.coq_eval('C10r', HEADER, [[to_coq(c, out)]])
    print('model agrees' if not codes else 'model disagrees')
    return 1 if codes else 0
