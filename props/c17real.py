"""C17 on the REAL primitive: billiard.synchronize objects of get_context('fork') over the real
_multiprocessing.SemLock, shared by real forked processes and real threads
(harness/c17_real_driver.py).  Judged by monitors only (pure functions of the observation); no
model is involved.  Every clause is deterministic in OUTCOME: no clause depends on how long
something took, only on results, on who finished before the (generous) watchdog, and on semaphore
values read at quiescent points.

    run_real(res)        -> coverage dict (alarms/broken appended to res)
    replay_real(scn)     -> 0 | 1
    monitor(record)      -> list of 'clause-id: text'
"""
import json
import time
from vlib import core

DRIVER = 'c17_real_driver.py'
WD = 30      # seconds after all participants stand at their start gate; a hang becomes an observation then
STARTUP = 60      # seconds for forking the processes and starting the threads (driver default)

MIX7 = [None, 0.01, None, 0.15, None, 0.4, None]

QUICK = [
    dict(kind='notify_all', procs=[2, 2, 0], threads=1, watchdog=WD),
    dict(kind='notify_all', lock='lock', procs=[0, 2], threads=2, watchdog=WD),
    dict(kind='notify_all_mixed', procs=[2, 2, 0], threads=2, timeouts=MIX7, notify_delay=0.1, watchdog=WD),
    dict(kind='timeout', procs=[0, 1], threads=1, wait=0.05, fresh='proc', watchdog=WD),
    dict(kind='timeout', procs=[0], threads=0, wait=0.05, fresh='thread', watchdog=WD),
    dict(kind='notify_one', procs=[0], threads=0, notifies=1, watchdog=WD),
    dict(kind='notify_one', procs=[0, 1], threads=0, notifies=1, watchdog=WD),
    dict(kind='notify_one', procs=[0], threads=1, notifies=1, watchdog=WD),
    dict(kind='event', procs=[2, 0], threads=1, watchdog=WD),
    dict(kind='semaphore', prim='semaphore', k=2, procs=[2, 0, 0], threads=2, rounds=3, hold=0.004, watchdog=WD),
    dict(kind='semaphore', prim='lock', procs=[2, 0], threads=1, rounds=3, hold=0.004, watchdog=WD),
    dict(kind='semaphore', prim='rlock', procs=[2, 0], threads=1, rounds=2, hold=0.004, watchdog=WD),
    dict(kind='bounded', k=2, j=2, watchdog=WD),
    # the forking thread HOLDS the lock (RLock / Lock / a Condition's lock) while the participant processes are forked
    dict(kind='fork_held', prim='rlock', procs=[0, 0], threads=0, rounds=2, watchdog=WD),
    dict(kind='fork_held', prim='lock', procs=[0, 2], threads=0, rounds=2, watchdog=WD),
    dict(kind='fork_held', prim='cond', procs=[0, 0], threads=0, watchdog=WD),
    dict(kind='fork_held', prim='cond_lock', procs=[0, 2], threads=0, watchdog=WD),
]


def _thorough():
    out = []
    WD = 45      # the bigger scenarios take several seconds on a heavily loaded box
    for rep in range(3):
        for sc in QUICK:
            out.append(dict(sc, rep=rep))
        out += [
            dict(kind='notify_all', procs=[3, 3, 2, 0, 0], threads=3, watchdog=WD, rep=rep),
            dict(kind='notify_all', procs=[0, 0, 0, 0, 0, 0], threads=0, watchdog=WD, rep=rep),
            dict(kind='notify_all', procs=[], threads=5, watchdog=WD, rep=rep),
            dict(kind='notify_all', lock='lock', procs=[4], threads=0, watchdog=WD, rep=rep),
            dict(kind='notify_all_mixed', procs=[3, 2, 0, 0], threads=2, watchdog=WD, rep=rep,
                 timeouts=[None, 0.005, 0.05, None, 0.1, 0.2, None, 0.3, 0.6], notify_delay=[0.0, 0.1, 0.25][rep]),
            dict(kind='notify_all_mixed', lock='lock', procs=[2, 0], threads=2, watchdog=WD, rep=rep,
                 timeouts=[0.02, None, 0.1, None, 0.2], notify_delay=0.1),
            dict(kind='timeout', procs=[2, 0, 0], threads=2, wait=0.02, fresh='proc-thread', watchdog=WD, rep=rep),
            dict(kind='timeout', lock='lock', procs=[0], threads=1, wait=0.1, fresh='proc', watchdog=WD, rep=rep),
            dict(kind='timeout', procs=[], threads=1, wait=0.05, fresh='thread', watchdog=WD, rep=rep),
            dict(kind='notify_one', procs=[2, 0], threads=1, notifies=3, watchdog=WD, rep=rep),
            dict(kind='notify_one', lock='lock', procs=[0, 0], threads=1, notifies=2, watchdog=WD, rep=rep),
            dict(kind='event', procs=[3, 0, 0], threads=2, watchdog=WD, rep=rep),
            dict(kind='event', procs=[2, 0], threads=2, timeouts=[None, 0.01, None, 0.2, None], notify_delay=0.1,
                 watchdog=WD, rep=rep),
            dict(kind='semaphore', prim='semaphore', k=3, procs=[3, 2, 0, 0], threads=3, rounds=8, hold=0.003, watchdog=WD, rep=rep),
            dict(kind='semaphore', prim='semaphore', k=1, procs=[0, 0, 0], threads=1, rounds=8, hold=0.002, watchdog=WD, rep=rep),
            dict(kind='semaphore', prim='bounded', k=2, procs=[2, 0, 0], threads=2, rounds=6, hold=0.003, watchdog=WD, rep=rep),
            dict(kind='semaphore', prim='lock', procs=[3, 0, 0], threads=2, rounds=8, hold=0.002, watchdog=WD, rep=rep),
            dict(kind='semaphore', prim='rlock', procs=[2, 0, 0], threads=2, rounds=6, hold=0.002, watchdog=WD, rep=rep),
            dict(kind='fork_held', prim='rlock', procs=[0, 2, 0], threads=1, rounds=4, watchdog=WD, rep=rep),
            dict(kind='fork_held', prim='lock', procs=[0, 0, 0], threads=0, rounds=4, watchdog=WD, rep=rep),
            dict(kind='fork_held', prim='cond', procs=[0, 2], threads=1, watchdog=WD, rep=rep),
            dict(kind='fork_held', prim='cond_lock', procs=[0, 0, 0], threads=0, watchdog=WD, rep=rep),
            dict(kind='bounded', k=1, j=1, watchdog=WD, rep=rep),
            dict(kind='bounded', k=5, j=3, watchdog=WD, rep=rep),
        ]
    return out


THOROUGH = _thorough()

COND_KINDS = ('notify_all', 'notify_all_mixed', 'notify_one', 'timeout', 'event', 'fork_held')


# ------------------------------------------------------------------ the monitors
def _quiet(v, where, zero, out):
    """semaphore values of a condition at a point where no notify is running and every waiter has
    returned: token semaphore empty, announcements == acknowledgements (== 0 after reconciliation)"""
    if v is None:
        return
    if v.get('wait') != 0:
        out.append('accounting: %s: wait_semaphore = %s, expected 0 (a token was left behind)' % (where, v.get('wait')))
    if v.get('sleeping') != v.get('woken'):
        out.append('accounting: %s: sleeping_count = %s but woken_count = %s with nobody in wait()'
                   % (where, v.get('sleeping'), v.get('woken')))
    elif zero and v.get('sleeping') != 0:
        out.append('accounting: %s: sleeping_count = woken_count = %s after a reconciling notify_all, expected 0'
                   % (where, v.get('sleeping')))
    if v.get('lock') != 1:
        out.append('accounting: %s: the condition\'s lock has value %s, expected 1 (free)' % (where, v.get('lock')))


def monitor(record):
    """violated clauses of one {scenario, obs} record; [] = fine"""
    sc, o = record['scenario'], record['obs']
    kind = sc.get('kind')
    out = []
    if o.get('driver_error'):
        return ['driver: ' + str(o['driver_error'])]
    if o.get('runner_lost') and not o.get('hung'):
        return ['driver: the scenario process died without reporting']
    if o.get('hung') and o.get('hung_phase') in ('setup', 'launch', 'at-gate'):
        # forking the processes / starting the threads did not complete (nothing under test was used yet)
        return ['driver: start-up of the participants did not complete within %ss (phase %s)'
                % (sc.get('startup', STARTUP), o.get('hung_phase'))]
    parts = o.get('parts', [])
    lost = []
    if kind in ('notify_all', 'notify_all_mixed', 'event', 'fork_held') and ('notify_s' in o or 'set_s' in o):
        lost = [p['id'] for p in parts if not p.get('done') and p.get('timeout') is None]
    if lost:      # the notify_all / set() call itself returned, the waiters did not
        out.append('lost-wakeup: untimed waiters announced before %s never returned (%ss watchdog): %s'
                   % ('Event.set()' if kind == 'event' else 'notify_all()', sc.get('watchdog', WD), ', '.join(lost)))
    elif o.get('hung') or o.get('unfinished'):
        out.append('hung: not finished before the %ss watchdog (phase %s): %s'
                   % (sc.get('watchdog', WD), o.get('hung_phase', '?'), ', '.join(o.get('unfinished', [])) or 'orchestrator only'))
    if o.get('orchestrator_exc'):
        out.append('raised: %s in phase %s: %s' % (o['orchestrator_exc'], o.get('orchestrator_phase'), o.get('orchestrator_msg', '')))
    for p in parts:
        if p.get('exc'):
            out.append('raised: participant %s raised %s: %s' % (p['id'], p['exc'], p.get('msg', '')))
        if p.get('gate_timeout'):
            out.append('hung: participant %s was never released by the orchestrator' % p['id'])
    done = [p for p in parts if p.get('done') and not p.get('exc') and not p.get('gate_timeout')]

    if kind in ('notify_all', 'notify_all_mixed', 'event'):
        what = 'Event.set' if kind == 'event' else 'notify_all'
        for p in done:
            if p.get('timeout') is None and p.get('r') is not True:
                out.append('untimed-wait: untimed waiter %s present at %s returned %r' % (p['id'], what, p.get('r')))
            if p.get('timeout') is not None and p.get('r') not in (True, False):
                out.append('wait-result: timed waiter %s returned %r, not a boolean' % (p['id'], p.get('r')))
        if not o.get('hung'):
            _quiet(o.get('after'), 'after every waiter returned', False, out)
            _quiet(o.get('final'), 'after reconciliation', True, out)
    if kind == 'notify_all' and o.get('before_notify') is not None and all(p.get('timeout') is None for p in parts):
        b = o['before_notify']
        if b.get('sleeping', 0) - b.get('woken', 0) != len(parts):
            out.append('accounting: %d untimed waiters announced, sleeping - woken = %s at notify_all'
                       % (len(parts), b.get('sleeping', 0) - b.get('woken', 0)))
    if kind == 'event':
        for p in done:
            if p.get('timeout') is None and p.get('is_set') is not True:
                out.append('event-flag: is_set() = %r in waiter %s right after its wait() returned (nobody cleared)'
                           % (p.get('is_set'), p['id']))
        exp = dict(is_set_initial=False, is_set_after_set=True, is_set_after_clear=False, wait_after_clear=False,
                   wait_when_set=True, timed_wait_when_set=True, is_set_final=True)
        for key, want in exp.items():
            if key in o and o[key] is not want:
                out.append('event-flag: %s = %r, expected %r' % (key, o[key], want))
        for key in ('after', 'final'):
            if key in o and o[key].get('flag') != 1:
                out.append('event-flag: flag semaphore = %r %s, expected 1' % (o[key].get('flag'), key))

    if kind == 'timeout':
        for p in done:
            if p.get('role') == 'timed' and p.get('r') is not False:
                out.append('timed-out-wait: wait(%s) with no notifier returned %r in %s' % (p.get('timeout'), p.get('r'), p['id']))
        fresh = [p for p in parts if p.get('role') == 'fresh']
        if o.get('fresh_done_before_notify'):
            out.append('spurious-wakeup: the fresh untimed waiter returned before any notify()')
        if 'asleep_before_notify' in o and o['asleep_before_notify'] != 1:
            out.append('accounting: sleeping - woken = %s with exactly one waiter asleep (after %d timed-out waits)'
                       % (o['asleep_before_notify'], len(parts) - 1))
        for p in fresh:
            if p.get('done') and not p.get('exc') and p.get('r') is not True:
                out.append('notify-one: the single untimed waiter returned %r after notify()' % (p.get('r'),))
            if not p.get('done') and 'after_timeouts' in o:
                out.append('notify-one: the single untimed waiter was not woken by notify() (stale acknowledgements: %d)'
                           % (len(parts) - 1))
        if 'after_timeouts' in o:
            _quiet(o['after_timeouts'], 'after the timed-out waits', False, out)
        if not o.get('hung'):
            _quiet(o.get('after_notify'), 'after notify() woke the waiter', False, out)
            _quiet(o.get('final'), 'after reconciliation', True, out)

    if kind == 'notify_one':
        w = len(parts)
        for p in done:
            if p.get('r') is not True:
                out.append('untimed-wait: untimed waiter %s returned %r' % (p['id'], p.get('r')))
        for i, st in enumerate(o.get('steps', [])):
            if st.get('done') != i + 1:
                out.append('notify-one: %d of %d sleepers had returned after notify() number %d (+ grace), expected exactly %d'
                           % (st.get('done'), w, i + 1, i + 1))
            if st.get('asleep') != w - i - 1:
                out.append('notify-one: sleeping - woken = %s after notify() number %d with %d sleepers, expected %d'
                           % (st.get('asleep'), i + 1, w, w - i - 1))
            if st.get('vals', {}).get('wait') != 0:
                out.append('accounting: wait_semaphore = %s after notify() number %d' % (st['vals'].get('wait'), i + 1))
        if o.get('hung') and str(o.get('hung_phase', '')).startswith('first-done'):
            out.append('notify-one: nobody was woken by notify() (%d sleepers)' % w)
        if not o.get('hung'):
            _quiet(o.get('after'), 'after every waiter returned', False, out)
            _quiet(o.get('final'), 'after reconciliation', True, out)

    if kind == 'semaphore' and 'max_inside' in o:
        k = o.get('k')
        prim = sc.get('prim', 'semaphore')
        if o['max_inside'] > k:
            out.append('concurrency: %d participants inside the section guarded by %s(%s)' % (o['max_inside'], prim, k))
        for p in done:
            if p.get('role') == 'worker' and p.get('localmax', 0) > k:
                out.append('concurrency: %s saw %d inside %s(%s)' % (p['id'], p['localmax'], prim, k))
        if o.get('initial_value') != k or o.get('value_final') != k:
            out.append('sem-value: %s(%s) has value %s initially and %s after all releases' % (prim, k, o.get('initial_value'), o.get('value_final')))
        if not o.get('hung') and (o.get('inside_final') != 0 or o.get('entries') != o.get('expected_entries') or o.get('guard_final') != 1):
            out.append('sem-value: occupancy %s at the end, %s of %s sections entered, guard lock value %s'
                       % (o.get('inside_final'), o.get('entries'), o.get('expected_entries'), o.get('guard_final')))
        if prim == 'rlock':
            for p in done:
                if p.get('role') == 'worker' and any(d != [2, True] for d in p.get('depth2', [])):
                    out.append('rlock-reentrant: second acquire by the owner gave (count, is_mine) = %s in %s' % (p.get('depth2'), p['id']))
                if p.get('role') == 'intruder' and p.get('raised') != 'AssertionError':
                    out.append('rlock-nonowner: release() of an RLock held by another %s raised %s, expected AssertionError'
                               % ('process' if p['where'] == 'proc' else 'thread', p.get('raised')))
            oa = o.get('owner_after_intruders')
            if oa is not None and (oa.get('is_mine') is not True or oa.get('count') != 2 or oa.get('value') != 0):
                out.append('rlock-nonowner: after the refused releases the owner sees is_mine=%s count=%s value=%s'
                           % (oa.get('is_mine'), oa.get('count'), oa.get('value')))
            if 'value_after_owner_release' in o and o['value_after_owner_release'] != 1:
                out.append('sem-value: RLock value %s after the owner released twice' % o['value_after_owner_release'])

    if kind == 'fork_held':
        prim = sc.get('prim', 'rlock')
        what = {'rlock': 'an RLock', 'lock': 'a Lock', 'cond': 'the RLock of a Condition', 'cond_lock': 'the Lock of a Condition'}.get(prim, prim)
        for p in parts:
            if p.get('try0'):
                out.append('fork-two-holders: %s was forked by the thread holding %s; its non-blocking acquire SUCCEEDED while the '
                           'forking process was still inside (the child\'s copy of the lock object said count=%s is_mine=%s; occupancy '
                           'seen inside: %s)' % (p['id'], what, p.get('count0'), p.get('is_mine0'), p.get('inside_with_holder')))
        if o.get('max_inside', 0) > 1:
            out.append('concurrency: %d participants inside the section guarded by %s (one of them the forking process)'
                       % (o['max_inside'], what))
        if 'value_while_held' in o and o['value_while_held'] != 0:
            out.append('sem-value: the semaphore of %s has value %s while the forking process holds it' % (what, o['value_while_held']))
        hw = o.get('holder_while_held')
        if hw is not None and (hw.get('is_mine') is not True or hw.get('count') != 1):
            out.append('sem-value: the holder sees is_mine=%s count=%s after forking' % (hw.get('is_mine'), hw.get('count')))
        if prim in ('rlock', 'lock') and 'value_final' in o and not o.get('hung'):
            if o.get('initial_value') != 1 or o.get('value_final') != 1 or o.get('inside_final') != 0 \
                    or o.get('entries') != o.get('expected_entries') or o.get('guard_final') != 1:
                out.append('sem-value: %s has value %s initially and %s at the end; occupancy %s, %s of %s sections entered'
                           % (what, o.get('initial_value'), o.get('value_final'), o.get('inside_final'), o.get('entries'), o.get('expected_entries')))
            for p in done:
                if p.get('localmax', 0) > 1:
                    out.append('concurrency: %s saw %d inside %s' % (p['id'], p['localmax'], what))
        if prim in ('cond', 'cond_lock'):
            for p in done:
                if p.get('r') is not True:
                    out.append('untimed-wait: untimed waiter %s (forked while the condition\'s lock was held) returned %r after notify_all'
                               % (p['id'], p.get('r')))
            if not o.get('hung'):
                _quiet(o.get('after'), 'after every waiter returned', False, out)
                _quiet(o.get('final'), 'after reconciliation', True, out)

    if kind == 'bounded':
        k, j = sc.get('k', 2), sc.get('j', sc.get('k', 2))
        for pl, d in sorted((o.get('seqs') or {}).items()):
            if d is None:
                continue
            if d['b_over'] != 'ValueError' or d['b_after'] != k:
                out.append('bounded-over-release: [%s] BoundedSemaphore(%d): release beyond the initial value raised %s, value then %s'
                           % (pl, k, d['b_over'], d['b_after']))
            if d['b_acquired'] != [True] * j or d['b_mid'] != k - j or d['b_release_exc'] != [None] * j or d['b_back'] != k:
                out.append('sem-value: [%s] BoundedSemaphore(%d): %d acquires %s -> value %s; releases %s -> value %s'
                           % (pl, k, j, d['b_acquired'], d['b_mid'], d['b_release_exc'], d['b_back']))
            if d['b_drain'] != [True] * k + [False] or d['b_refill_exc'] != [None] * k:
                out.append('sem-value: [%s] BoundedSemaphore(%d): k+1 non-blocking acquires gave %s, refilling raised %s'
                           % (pl, k, d['b_drain'], d['b_refill_exc']))
            if d['s_over'] is not None or d['s_after'] != k + 1 or d['s_acquired'] != [True] * j or d['s_release_exc'] != [None] * j:
                out.append('semaphore-extra-release: [%s] Semaphore(%d): extra release raised %s, value then %s (expected none, %d)'
                           % (pl, k, d['s_over'], d['s_after'], k + 1))
            if d['l_over'] != 'ValueError' or d['l_after'] != 1 or d['l_acquire'] != [True, False] or d['l_release'] is not None:
                out.append('lock-over-release: [%s] Lock: release of a free lock raised %s (value %s); acquire twice non-blocking %s; release raised %s'
                           % (pl, d['l_over'], d['l_after'], d['l_acquire'], d['l_release']))
        for pl, v in sorted((o.get('seen_from_runner') or {}).items()):
            if not o.get('hung') and (v.get('b') != k or v.get('s') != k + 1 or v.get('l') != 1):
                out.append('sem-value: [%s] final values seen from the creating process: bounded=%s semaphore=%s lock=%s'
                           % (pl, v.get('b'), v.get('s'), v.get('l')))
    return out


# ------------------------------------------------------------------ running
def _run(scenarios, parallel):
    limit = sum(float(s.get('watchdog', WD)) + float(s.get('startup', STARTUP)) + 12 for s in scenarios) / max(1, parallel) + 60
    return core.run_driver(DRIVER, dict(scenarios=scenarios, parallel=parallel), timeout=limit)


def judge(records):
    """[(record, clause id, text)] -- one entry per (scenario, clause id)"""
    found = []
    for r in records:
        seen = {}
        for c in monitor(r):
            cid = c.split(':', 1)[0]
            seen.setdefault(cid, []).append(c.split(':', 1)[1].strip())
        for cid, texts in seen.items():
            found.append((r, cid, '; '.join(texts[:3]) + (' (+%d more)' % (len(texts) - 3) if len(texts) > 3 else '')))
    return found


def _max_inside(records):
    """'prim(k)' -> [smallest, largest] peak occupancy seen over the scenarios (k reached = real contention)"""
    d = {}
    for r in records:
        if r['scenario'].get('kind') == 'semaphore' and 'max_inside' in r['obs']:
            key = '%s(%s)' % (r['scenario'].get('prim'), r['obs'].get('k'))
            m = r['obs']['max_inside']
            lo, hi = d.get(key, [m, m])
            d[key] = [min(lo, m), max(hi, m)]
    return d


def run_real(res, scenarios=None, parallel=4):
    if scenarios is None:
        scenarios = QUICK if res.tier == 'quick' else THOROUGH
    t0 = time.time()
    try:
        out = _run(scenarios, parallel)
        records = out['records']
    except Exception as exc:      # noqa  (DriverError, TimeoutExpired, malformed output)
        res.broken.append(dict(kind='correspondence', name='c17 real driver',
                               detail='%s: %s' % (type(exc).__name__, str(exc)[-2000:])))
        return dict(c17real_scenarios=0, c17real_error=type(exc).__name__)
    for r, cid, text in judge(records):
        if cid == 'driver':
            res.broken.append(dict(kind='correspondence', name='c17 real driver',
                                   detail='%s on %s' % (text, json.dumps(r['scenario']))))
            continue
        res.alarms.append(dict(
            signature='C17:real-' + cid,
            what='real SemLock, %d processes / %d threads, scenario %s: %s'
                 % (r['obs'].get('n_procs', 0), r['obs'].get('n_threads', 0), json.dumps(r['scenario']), text),
            replay=dict(real=r['scenario'])))
    kinds = {}
    for r in records:
        key = r['scenario'].get('kind') + ('/' + r['scenario']['prim'] if 'prim' in r['scenario'] else '')
        kinds[key] = kinds.get(key, 0) + 1
    obs = [r['obs'] for r in records]
    return dict(
        c17real_scenarios=len(records),
        c17real_kinds=kinds,
        c17real_participants=sum(o.get('n_parts', 0) for o in obs),
        c17real_processes=sum(o.get('n_procs', 0) for o in obs),
        c17real_threads=sum(o.get('n_threads', 0) for o in obs),
        c17real_untimed_waiters_woken=sum(1 for r in records if r['scenario'].get('kind') in COND_KINDS
                                          for p in r['obs'].get('parts', []) if p.get('timeout') is None and p.get('r') is True),
        c17real_timed_waits=dict(
            expired=sum(1 for o in obs for p in o.get('parts', []) if p.get('timeout') is not None and p.get('r') is False),
            notified=sum(1 for o in obs for p in o.get('parts', []) if p.get('timeout') is not None and p.get('r') is True)),
        c17real_max_inside=_max_inside(records),
        c17real_hung=sum(1 for o in obs if o.get('hung')),
        c17real_slowest_scenario_s=max([o.get('wall_s', 0) for o in obs] or [0]),
        c17real_wall_s=round(time.time() - t0, 2),
    )


def replay_real(scenario):
    out = _run([scenario], 1)
    r = out['records'][0]
    print('scenario:', json.dumps(r['scenario']))
    print('repo:', out.get('repo'))
    o = dict(r['obs'])
    parts = o.pop('parts', [])
    print('observation:', json.dumps(o))
    for p in parts:
        print('  participant', json.dumps(p))
    bad = monitor(r)
    for c in bad:
        print('MONITOR FAILS --', c)
    if not bad:
        print('all monitors pass')
    return 1 if bad else 0
