"""C17 -- locks, semaphores, conditions, events: no lost wake-ups.

Tie (a): translate/kernels/semprog.py compiles Condition.wait/notify/notify_all, Event.*, the
SemLock wrappers and constructor parameters from the working tree into coq/Gen/P_cond.v; the
theorems are about those programs (Gen = Model by reflexivity).
Tie (b): harness/c17_driver.py runs billiard's REAL classes over the fake _semlock of
harness/detsched.py under explicit schedules; the Coq interpreter consumes the same schedule and
the micro-traces, call results and final semaphore values must be identical; property monitors
(Gallina, evaluated on the implementation's trace alone) classify a difference."""
import json
import random
import threading
from vlib import core
from vlib.core import cz, cbool, clist
from props import c17real

MANIFEST = dict(
    text='Theorems (Coq; any number of threads, any scripts of client calls, any schedule at semaphore-operation grain, '
         'timed acquires giving up at any step; all Closed under the global context). For ANY programs: an RLock admits one '
         'holder; a Lock admits one holder while nobody releases what it does not hold; Semaphore(k): value >= 0 and value + '
         'hold counts = k; a release at the maximum raises ValueError and changes nothing. For the Condition/Event programs '
         'compiled from synchronize.py on every run (Gen = Model by reflexivity): an inductive invariant (lock accounting, '
         'sleeping - woken + grabbed = threads between announcement and acknowledgement, 0 <= wait_semaphore <= outstanding '
         'tokens, flag in {0,1}) holds in every reachable state, hence no assert of notify/notify_all fails and no call raises; '
         'wait_semaphore = 0 whenever no notify is in progress; wait returns True when untimed; when notify_all has collected its '
         'acknowledgements nobody is left in the wait window, and (trace form) an untimed waiter blocked while a notify_all body '
         'runs holds its token when that notify_all reaches its final lock release; notify hands out at most one token; a timed '
         'wait may give up at any step, then returns False and the invariant still holds; the abstract event flag changes only '
         'at set/clear and is_set/Event.wait return exactly it. LIVENESS SIDE (no fairness assumption): a second invariant gives a LOWER '
         'bound on the wake-up tokens (acknowledgements a notifier still waits for <= wait_semaphore + woken_count + waiters standing at '
         'their acknowledgement); a variant M decreases with every step of every thread, so every schedule executes at most M steps; '
         'progress: a notifier at its blocking _woken_count.acquire() always has an enabled thread next to it; a state without an enabled '
         'thread has the lock free and consists of finished threads, untimed sleepers and threads blocked on user semaphores only; hence, '
         'unconditionally, in every such state reached from a state where notify_all/Event.set was in progress with an untimed waiter '
         'blocked, the notifier has returned None and the waiter has returned (True for Condition.wait), and a schedule reaching such a '
         'state exists; same for notify when exactly one thread is in the wait window (trace form + unconditional form, with witness); '
         'trace form of the wake-up theorem also for Event.set/Event.wait (flag = 1 at the end of set). Correspondence: the real classes run over a fake _semlock under '
         'explicit schedules and must produce the micro-trace, results and final values the Coq interpreter computes from the '
         'same schedule; Gallina trace monitors classify differences. Real primitive: a scenario set runs the real classes over the real '
         '_multiprocessing.SemLock across forked processes and threads (notify_all wakes all untimed waiters, timed-out wait returns False '
         'and the counters reconcile, notify wakes exactly one, Event set/clear/wait, Semaphore(k) concurrency <= k, BoundedSemaphore '
         'refuses over-release, RLock non-owner release), judged by outcome monitors only. '
         'FORKS: where SemLock.__init__ registers the after-fork reset of a lock object (which `if` tests enclose it) is read from the '
         'code on every run (G_semfork, fail-closed; also that Process._bootstrap runs the hooks before the target) and proved to cover every '
         'lock created on POSIX, named or not; for ANY programs a history with forks -- a process forks a child at any scheduling point, '
         'also while holding locks or inside wait/notify; the child inherits a copy of every lock object, reset by the hook, the kernel '
         'semaphores stay as they are -- equals a plain schedule of the system in which the children exist from the start holding nothing '
         '(C17_fork_is_late_start), hence RLock/Lock mutual exclusion, the semaphore bound and every Condition/Event theorem stated for '
         'Reach hold with forks (C17_reach_with_forks); refuted without the reset on the generated programs (the condition\'s RLock gets '
         'two holders; under a Lock the child\'s untimed wait() raises ValueError and leaves an orphan announcement). Real scenarios '
         '`fork_held`: the forking thread holds an RLock / Lock / a Condition\'s lock while the participant processes are forked; their '
         'non-blocking acquire must fail while the holder is inside, occupancy <= 1, waiters forked under the held lock are woken by notify_all.',
    note='Trusted: Coq kernel; translate/kernels/semprog.py (Python-ast -> SemProg); the primitive semantics of '
         '_multiprocessing.SemLock as modelled in Model/SemProg.v (sem_acq/sem_rel; cross-checked sequentially against the real '
         'primitive on every run); harness/detsched.py. One logical thread = one process. Counters assumed below SEM_VALUE_MAX '
         '(hypothesis gen_run_small/small). Recursion depth of the condition lock > 1 (client c_wait2) is covered by the '
         'correspondence only. No fairness is assumed: termination of every schedule is proved (variant), under M g < 64*SEM_VALUE_MAX (the '
         'system is not astronomically large). Real deadlines are over-approximated (a timed acquire may give up at any step). The '
         'real-primitive scenarios sample real schedules (monitors only, no model).',
    technique='Coq proof over translator-regenerated semaphore programs (weight functions + case analysis on pc) + schedule-exact differential correspondence on the real classes',
    ref='5.17',
)

HEADER = '''From Coq Require Import ZArith List Bool.
From BV Require Import Lib.Cases Model.SemProg Model.CondProg Model.CondCheck.
Import ListNotations. Open Scope Z_scope.
Definition check_case := CondCheck.check_case.'''

COND_CALLS = [(0, 0), (0, 0), (0, 1), (0, 1), (1, 0), (1, 0), (2, 0), (2, 0)]
EVENT_CALLS = [(3, 0), (4, 0), (4, 0), (5, 0), (6, 0), (6, 0), (6, 1)]
USER_CALLS = [(7, 0, 0), (7, 0, 1), (7, 1, 1), (8, 0, 0), (9, 0, 0), (9, 1, 1), (10, 0, 0), (10, 0, 0),
              (11, 0, 0), (11, 1, 1), (12, 0, 0), (13, 0, 1), (13, 0, 0), (14, 0, 0)]

ENUM_QUICK = [
    dict(lockrec=False, k=1, scripts=[[[0, 1, 0]], [[1, 0, 0]]]),
    dict(lockrec=False, k=1, scripts=[[[6, 0, 0]], [[4, 0, 0]], [[5, 0, 0]]]),
    dict(lockrec=False, k=1, scripts=[[[6, 1, 0]], [[4, 0, 0], [3, 0, 0]]]),
    dict(lockrec=True, k=1, scripts=[[[0, 1, 0], [0, 0, 0]], [[1, 0, 0], [2, 0, 0]]]),
    dict(lockrec=True, k=1, scripts=[[[15, 1, 0]], [[2, 0, 0]]]),
    dict(lockrec=False, k=1, scripts=[[[10, 0, 0], [9, 0, 0], [10, 0, 0], [10, 0, 0]], [[9, 1, 1], [12, 0, 0]]]),
]
ENUM_THOROUGH = [
    dict(lockrec=False, k=1, scripts=[[[0, 0, 0]], [[0, 1, 0]], [[2, 0, 0]]]),
    dict(lockrec=False, k=1, scripts=[[[0, 0, 0]], [[0, 1, 0]], [[1, 0, 0]]]),
    dict(lockrec=True, k=1, scripts=[[[0, 1, 0]], [[15, 0, 0]], [[2, 0, 0]]]),
    dict(lockrec=False, k=1, scripts=[[[6, 0, 0]], [[6, 1, 0]], [[4, 0, 0]]]),
]


def gen_jobs(rng, n):
    """random worlds/scripts; each job contributes a few random schedules"""
    jobs = []
    per = 3
    for _ in range((n + per - 1) // per):
        lockrec = rng.random() < 0.4
        nthreads = rng.choice([2, 2, 3, 3, 4])
        flavour = rng.choice(['cond', 'cond', 'event', 'mixed', 'user'])
        scripts = []
        for _t in range(nthreads):
            sc = []
            for _c in range(rng.randint(1, 3)):
                r = rng.random()
                if flavour == 'user' or (flavour == 'mixed' and r < 0.25):
                    c = rng.choice(USER_CALLS)
                    sc.append([c[0], c[1], c[2]])
                elif (flavour in ('event', 'mixed') and not lockrec and r < 0.75):
                    c = rng.choice(EVENT_CALLS)
                    sc.append([c[0], c[1], 0])
                else:
                    c = rng.choice(COND_CALLS + ([(15, 0), (15, 1)] if lockrec else []))
                    sc.append([c[0], c[1], 0])
            scripts.append(sc)
        jobs.append(dict(lockrec=lockrec, k=rng.choice([0, 1, 1, 2]), scripts=scripts, mode='random',
                         seed=rng.randrange(1 << 30), n=per, ptimeout=rng.choice([0.1, 0.25, 0.5])))
    return jobs


def ccall(c):
    return '(%d%%nat, %s, %s)' % (c[0], cz(c[1]), cz(c[2]))


def cevent(e):
    return '(%d%%nat, %d%%nat, %s, %s)' % (e[0], e[1], cz(e[2]), cz(e[3]))


def to_coq(r):
    endk = {'finished': 0, 'deadlock': 1}.get(r['end'], 2)
    return ('(%s, %s, (%s : list (list call)), (%s : list (nat * bool)), ((%s : list event), (%s : list nat), '
            '(%s : list (list Z)), (%s : list bool), (%s : list Z), (%s : list Z), %d))') % (
        cbool(r['lockrec']), cz(r['k']),
        clist(r['scripts'], lambda sc: clist(sc, ccall)),
        clist(r['sched'], lambda s: '(%d%%nat, %s)' % (s[0], cbool(s[1]))),
        clist(r['events'], cevent), clist(r['callidx'], lambda k: '%d%%nat' % k),
        clist(r['results'], lambda rs: clist(rs, cz)), clist(r['fins'], cbool),
        clist(r['vals'], cz), clist(r['pend'], cz), endk)


def rec_key(r):
    return json.dumps([r['lockrec'], r['k'], r['scripts'], r['sched']])


def nontrivial(r):
    """at least two threads took steps and a condition/event wait or notify interleaved"""
    return len({e[0] for e in r['events']}) >= 2 and len(r['events']) >= 6


def classify(res, records, codes):
    for i, code in codes:
        r = records[i]
        replay = dict(lockrec=r['lockrec'], k=r['k'], scripts=r['scripts'], sched=r['sched'], impl=dict(
            events=r['events'], results=r['results'], fins=r['fins'], vals=r['vals'], pend=r['pend'], end=r['end']))
        if code == 2:
            res.alarms.append(dict(
                signature='C17:monitor-or-result',
                what='real Condition/Event/semaphore classes violate a C17 monitor (or return a different result '
                     'on the same semaphore history) under schedule %s of scripts %s: results %s, end=%s'
                     % (json.dumps(r['sched']), json.dumps(r['scripts']), json.dumps(r['results']), r['end']),
                replay=replay))
        else:
            res.broken.append(dict(kind='correspondence', name='SemProg interpreter vs real classes (micro-trace)',
                                   detail=json.dumps(replay)[:3000]))


def correspond(res, n):
    rng = random.Random(res.seed * 7919 + 17)
    corpus = json.load(open(core.VERIF + '/corpus/C17.json'))
    jobs = [dict(c, mode='replay') for c in corpus]
    jobs += [dict(j, mode='enumerate', max_leaves=400) for j in ENUM_QUICK]
    if res.tier != 'quick':
        jobs += [dict(j, mode='enumerate', max_leaves=8000) for j in ENUM_THOROUGH]
    jobs += gen_jobs(rng, n)
    jobs.append(dict(mode='primitive', seed=res.seed, n=300 if res.tier == 'quick' else 3000))
    out = core.run_driver('c17_driver.py', dict(jobs=jobs), timeout=3000)
    records = out['records']
    terms = [to_coq(r) for r in records]
    codes, _ = core.coq_eval('C17', HEADER, core.chunks(terms, 250))
    classify(res, records, codes)
    prim = out['primitive']
    for m in prim['mismatches']:
        res.broken.append(dict(kind='correspondence', name='fake _semlock vs real _multiprocessing.SemLock',
                               detail=json.dumps(m)))
    keys = {rec_key(r) for r in records if nontrivial(r)}
    ends = {}
    for r in records:
        ends[r['end']] = ends.get(r['end'], 0) + 1
    hist = {}
    for r in records:
        for sc in r['scripts']:
            for c in sc:
                hist[str(c[0])] = hist.get(str(c[0]), 0) + 1
    res.add_cov(evaluations=len(records), distinct=len(keys), traces=len(records),
                samples=[dict(scripts=records[0]['scripts'], sched=records[0]['sched'], results=records[0]['results']),
                         dict(scripts=records[-1]['scripts'], sched=records[-1]['sched'], results=records[-1]['results'])],
                rule='schedules of 2-4 logical threads running scripts of 1-3 client calls over the real classes '
                     '(exhaustive DFS over all schedules for the listed small configurations, seeded random otherwise; '
                     'corpus first); non-trivial = at least two threads stepped and at least 6 semaphore operations; '
                     'distinct by (world, scripts, schedule)',
                c17_run_ends=ends, c17_call_histogram=hist,
                c17_steps_total=sum(len(r['sched']) for r in records),
                c17_timeouts_fired=sum(1 for r in records for s in r['sched'] if not s[1]),
                c17_enumerations_truncated=out['truncated'],
                c17_primitive_crosscheck=dict(cases=prim['cases'], ops=prim['ops'], mismatches=len(prim['mismatches'])))


def real_scenarios(res):
    """the REAL primitive: billiard's classes over the real _multiprocessing.SemLock, shared by real
    forked processes and real threads (harness/c17_real_driver.py); judged by the monitors of
    props/c17real.py alone (no model involved).  Runs beside the schedule-exact correspondence."""
    box = {}

    def work():
        try:
            box['cov'] = c17real.run_real(res)
        except Exception as exc:      # noqa
            res.broken.append(dict(kind='correspondence', name='c17 real driver', detail=repr(exc)[-1500:]))
            box['cov'] = dict(c17real_scenarios=0, c17real_error=type(exc).__name__)
    th = threading.Thread(target=work, daemon=True)
    th.start()
    return th, box


def run(res):
    res.proof_step('Props/C17.v', extra_targets=['Model/CondCheck.vo'], kernels_needed=['P_cond', 'G_semfork'])
    n = 300 if res.tier == 'quick' else 20000
    if res.broken:
        n = max(n, 3000)      # failing-input search
    th, box = real_scenarios(res)
    correspond(res, n)
    th.join()
    cov = box.get('cov', {})
    res.add_cov(evaluations=cov.get('c17real_scenarios', 0), distinct=cov.get('c17real_scenarios', 0),
                traces=cov.get('c17real_scenarios', 0),
                rule='real-primitive scenarios: billiard Condition/Event/Semaphore/BoundedSemaphore/Lock/RLock of '
                     "get_context('fork') over the real _multiprocessing.SemLock, shared by forked processes and threads; "
                     'judged by outcome monitors only (props/c17real.py); every scenario is distinct',
                **cov)
    res.assumptions += [
        'the semantics of _multiprocessing.SemLock is the one of Model/SemProg.v (sem_acq/sem_rel): modelled, cross-checked sequentially against the real primitive on every run',
        'one logical thread = one process with one thread (SemLock.count/last_tid are per process)',
        'a timed acquire may give up at any moment (over-approximation of the deadline); fairness/liveness of blocked acquires is not modelled',
        'an exception inside a call ends the call without clean-up in the model; the theorems show none is reachable in Condition/Event',
        'real-primitive scenarios (real SemLock, forked processes, threads) are judged by outcome monitors only; they sample real schedules, they do not enumerate them',
        'fork: the child of os.fork() has a copy of every lock object of the forking process (count/last_tid included), its only thread is the forking thread, kernel semaphores are shared not copied; SemLock._after_fork() sets count = 0; util.register_after_fork/_run_after_forkers are multiprocessing.util\'s (trusted, like the primitive); `if sem_unlink:` is true on this platform (the real fork_held scenarios exercise it)',
    ]


def replay(path):
    d = json.load(open(path))
    rp = d['replay']
    if 'real' in rp:
        return c17real.replay_real(rp['real'])
    job = dict(lockrec=rp['lockrec'], k=rp['k'], scripts=rp['scripts'], sched=rp['sched'], mode='replay')
    out = core.run_driver('c17_driver.py', dict(jobs=[job]))
    r = out['records'][0]
    print('scripts:', json.dumps(r['scripts']), 'lockrec=%s k=%s' % (r['lockrec'], r['k']))
    print('schedule:', json.dumps(rp['sched']))
    print('implementation now: events', json.dumps(r['events']))
    print('  results', json.dumps(r['results']), 'fins', r['fins'], 'vals', r['vals'], 'end', r['end'])
    codes, _ = core.coq_eval('C17r', HEADER, [[to_coq(r)]])
    print('model agrees, monitors pass' if not codes else
          ('property monitor fails / results differ (code 2)' if codes[0][1] == 2 else 'micro-trace differs (code 1)'))
    return 1 if codes else 0
