"""Shared by the pool-family checks (C01 C04-C11): rendering of pool histories and
implementation observations as Coq terms, history generators, trace monitors."""
import json
import random
from vlib import core
from vlib.core import cz, copt, clist, cbool

NONE = -999999

HEADER = '''From Coq Require Import ZArith List Bool.
From BV Require Import Lib.Cases Model.Pool.
Import ListNotations. Open Scope Z_scope.
Definition check_case := Pool.check_case.'''

EXC = dict(RestartFreqExceeded=10, ValueError=11, TypeError=12, KeyError=13, AssertionError=14,
           IndexError=15, AttributeError=16, Hang=17)


def oz(v):
    return NONE if v is None else int(v)


def cfg_coq(c):
    return '(mkcfg %s %s %s %s %s %s %s %s)' % (
        cz(c.get('n', 2)), copt(c.get('soft')), copt(c.get('hard')), copt(c.get('lost')),
        copt(c.get('max_restarts')), cz(c.get('max_restart_freq', 1)),
        cbool(c.get('putlocks', False)), cbool(c.get('enable_timeouts', False)))


def ev_coq(e):
    k, a = e[0], e[1:]
    if k == 'apply':
        a = list(a) + [None] * (4 - len(a))
        return '(EApply %s %s %s %s)' % (copt(a[0]), copt(a[1]), copt(a[2]), copt(a[3], cbool))
    if k == 'map':
        return '(EMap %s %s)' % (cz(a[0]), cz(a[1]))
    if k == 'imap':
        return '(EIMap %s)' % cz(a[0])
    if k == 'imapu':
        return '(EIMapU %s)' % cz(a[0])
    if k == 'feed':
        a = list(a) + [None] * (2 - len(a))
        return '(EFeed %s %s)' % (copt(a[0]), cbool(a[1] == 'io'))
    if k == 'ack':
        return '(EAck %s %s %s)' % (cz(a[0]), copt(a[1]), cz(a[2]))
    if k == 'ready':
        return '(EReady %s %s %s %s)' % (cz(a[0]), copt(a[1]), cbool(a[2]), cz(a[3]))
    if k == 'stale_ack':
        return '(EStaleAck %s)' % cz(a[0])
    if k == 'stale_ready':
        return '(EStaleReady %s)' % cbool(a[0])
    if k == 'death':
        return '(EDeath %s %s)' % (cz(a[0]), cz(a[1]))
    if k == 'junk':
        return 'EJunk'
    if k == 'exit':
        return '(EExit %s %s)' % (cz(a[0]), cz(a[1]))
    if k == 'tick':
        return 'ETick'
    if k == 'scan':
        return '(EScan %s)' % cbool(bool(a[0]) if a else False)
    if k == 'advance':
        return '(EAdvance %s)' % cz(a[0])
    if k == 'discard':
        return '(EDiscard %s)' % cz(a[0])
    if k == 'terminate_job':
        return '(ETerminateJob %s %s)' % (cz(a[0]), copt(a[1] if len(a) > 1 else None))
    if k == 'grow':
        return '(EGrow %s)' % cz(a[0])
    if k == 'shrink':
        return '(EShrink %s)' % cz(a[0])
    if k == 'close':
        return 'EClose'
    if k == 'next':
        return '(ENext %s)' % cz(a[0])
    raise ValueError(e)


def enc_payload(v, mapjob=False):
    if v is None:
        return [0, 0, 0]
    t = v[0]
    if t == 'ok':
        return [0, 0, 0] if mapjob else [1, int(v[1]), 0]
    if t == 'exc':
        return [2, int(v[1]), 0]
    if t == 'lost':
        return [3, oz(v[1]), int(v[2])]
    if t == 'timelimit':
        return [4, oz(v[1]), 0]
    if t == 'terminated':
        return [5, oz(v[1]), 0]
    if t == 'putfailed':
        return [6, 0, 0]
    return [99, 0, 0]


def enc_job(j):
    k = dict(apply=0, map=1, imap=2, imapu=3)[j['kind']]
    out = [k, int(j['incache']), int(j['ready'])]
    if k == 0:
        out.append(int(bool(j['acc'])))
    elif k == 1:
        out.append(sum(1 for a in j['acc'] if a) if isinstance(j['acc'], list) else 0)
    else:
        out.append(0)
    out += [1, int(j['lost'][0]), oz(j['lost'][1])] if j['lost'] else [0, 0, 0]
    out += [j['cb'][0], j['cb'][1], j['cb'][2]]
    if k == 0:
        out += enc_payload(j['val']) + [oz(j['extra'][0])]
    elif k == 1:
        out += enc_payload(j['val'], True) + [j['extra'][0]]
    else:
        out += [j['extra'][0], oz(j['extra'][1]), j['extra'][2], len(j['extra'][3])]
    out += [-1] + list(j['wpids']) + [-2]
    for sft, lim in j['cb'][3]:
        out += [int(sft), oz(lim)]
    return out


def enc_ret(o):
    if o['exc']:
        return [EXC.get(o['exc'], 19)]
    r = o['ret']
    if r is None:
        return [0]
    if r == 'Blocked':
        return [1]
    if r == 'Refused':
        return [2]
    if r == 'NoScanner':
        return [3]
    if r[0] == 'item':
        return [20, 1, int(r[1]), 0]
    if r[0] == 'stop':
        return [21]
    if r[0] == 'empty':
        return [22]
    if r[0] == 'raised':
        return [23] + enc_payload(r[1])
    return [98]


def obs_coq(o):
    return '(mkobs %s %s %s %s %s)' % (
        clist(enc_ret(o)),
        clist([enc_job(j) for j in o['jobs']], clist),
        clist([[w[0], w[1], int(w[2]), int(w[3]), oz(w[4])] for w in o['workers']], clist),
        clist([o['nprocs'], o['sem'][0], o['sem'][1], o['R'], o['state'], int(o['now'])]),
        clist(o['sigs'], lambda s: '(%s, %s)' % (cz(s[0]), cz(s[1]))))


def case_coq(case, obs):
    return '(%s, %s, %s)' % (cfg_coq(case['cfg']), clist(case['events'], ev_coq), clist(obs, obs_coq))


def run_impl(cases, timeout=300):
    return core.run_driver('pool_driver.py', cases, timeout=timeout)


def model_obs(case, k):
    """debugging: the model's observation after event k (printed raw by coqc)"""
    import subprocess
    import os
    cdir = os.path.join(core.COQ, 'Cases')
    os.makedirs(cdir, exist_ok=True)
    fn = os.path.join(cdir, 'dbg_pool.v')
    with open(fn, 'w') as fh:
        fh.write(HEADER + '\nEval vm_compute in (obs_at (init %s) %s %d%%nat).\n' % (
            cfg_coq(case['cfg']), clist(case['events'], ev_coq), k))
    p = subprocess.run(['coqc', '-Q', '.', 'BV', '-w', '-notation-overridden', 'Cases/dbg_pool.v'],
                       cwd=core.COQ, stdout=subprocess.PIPE, stderr=subprocess.STDOUT, text=True)
    return p.stdout


# ------------------------------------------------------------------ generators
def random_cfg(rng):
    return dict(n=rng.choice([1, 2, 2, 3, 4]),
                soft=rng.choice([None, None, 2, 4]), hard=rng.choice([None, None, 3, 6]),
                lost=rng.choice([None, None, 3]),
                max_restarts=rng.choice([None, 1, 2, 3, 100]), max_restart_freq=rng.choice([1, 5]),
                putlocks=rng.random() < 0.5, enable_timeouts=rng.random() < 0.5)


def gen_requests(rng, n, length=(5, 45), focus=None, cfg=None):
    """requests for state-aware generation inside the driver (harness/pool_gen.py)"""
    out = []
    for _ in range(n):
        out.append(dict(cfg=cfg(rng) if callable(cfg) else (cfg or random_cfg(rng)),
                        gen=dict(seed=rng.randrange(1 << 30), length=rng.randint(*length),
                                 focus=focus or {})))
    return out
