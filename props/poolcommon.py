"""Shared by the pool-family checks (C01 C04-C11): rendering of pool histories and
implementation observations as Coq terms, history generators, trace monitors."""
import json
import random
from vlib import core
from vlib.core import cz, copt, clist, cbool

NONE = -999999

HEADER = '''From Coq Require Import ZArith List Bool.
From BV Require Import Lib.Cases Model.Pool.
Import ListNotations. Open Scope Z_scope.
Definition check_case := Pool.check_case.'''

EXC = dict(RestartFreqExceeded=10, ValueError=11, TypeError=12, KeyError=13, AssertionError=14,
           IndexError=15, AttributeError=16, Hang=17, WorkersJoined=20)


def oz(v):
    return NONE if v is None else int(v)


def cfg_coq(c):
    return '(mkcfg %s %s %s %s %s %s %s %s)' % (
        cz(c.get('n', 2)), copt(c.get('soft')), copt(c.get('hard')), copt(c.get('lost')),
        copt(c.get('max_restarts')), cz(c.get('max_restart_freq', 1)),
        cbool(c.get('putlocks', False)), cbool(c.get('enable_timeouts', False)))


def ev_coq(e):
    k, a = e[0], e[1:]
    if k == 'apply':
        a = list(a) + [None] * (4 - len(a))
        return '(EApply %s %s %s %s)' % (copt(a[0]), copt(a[1]), copt(a[2]), copt(a[3], cbool))
    if k == 'applyq':
        a = list(a) + [None] * (4 - len(a))
        return '(EApplyQ %s %s %s %s)' % (copt(a[0]), copt(a[1]), copt(a[2]), copt(a[3], cbool))
    if k == 'apply_unsendable':
        return '(EApplyUnsendable %s)' % copt(a[0] if a else None, cbool)
    if k == 'map':
        return '(EMap %s %s)' % (cz(a[0]), cz(a[1]))
    if k == 'imap':
        return '(EIMap %s)' % cz(a[0])
    if k == 'imapu':
        return '(EIMapU %s)' % cz(a[0])
    if k == 'feed':
        a = list(a) + [None] * (2 - len(a))
        return '(EFeed %s %s)' % (copt(a[0]), cbool(a[1] == 'io'))
    if k == 'ack':
        return '(EAck %s %s %s)' % (cz(a[0]), copt(a[1]), cz(a[2]))
    if k == 'ready':
        return '(EReady %s %s %s %s)' % (cz(a[0]), copt(a[1]), cbool(a[2]), cz(a[3]))
    if k == 'stale_ack':
        return '(EStaleAck %s)' % cz(a[0])
    if k == 'stale_ready':
        return '(EStaleReady %s)' % cbool(a[0])
    if k == 'death':
        return '(EDeath %s %s)' % (cz(a[0]), cz(a[1]))
    if k in ('drain_begin', 'drain_end'):
        return 'EJunk'
    if k == 'wait':
        return '(EAdvance %s)' % cz(a[0])
    if k == 'junk':
        return 'EJunk'
    if k == 'exit':
        return '(EExit %s %s)' % (cz(a[0]), cz(a[1]))
    if k == 'tick':
        return 'ETick'
    if k == 'tick_close':
        return '(ETickClose %d%%nat)' % a[0]
    if k == 'join_shutdown':
        return 'EJoinShutdown'
    if k == 'scan':
        return '(EScan %s)' % cbool(bool(a[0]) if a else False)
    if k == 'scan_begin':
        return 'EScanBegin'
    if k == 'scan_step':
        return '(EScanStep %s)' % cbool(bool(a[0]) if a else False)
    if k == 'scan_end':
        return 'EScanEnd'
    if k == 'advance':
        return '(EAdvance %s)' % cz(a[0])
    if k == 'discard':
        return '(EDiscard %s)' % cz(a[0])
    if k == 'terminate_job':
        return '(ETerminateJob %s %s)' % (cz(a[0]), copt(a[1] if len(a) > 1 else None))
    if k == 'grow':
        return '(EGrow %s)' % cz(a[0])
    if k == 'shrink':
        return '(EShrink %s)' % cz(a[0])
    if k == 'close':
        return 'EClose'
    if k == 'next':
        return '(ENext %s)' % cz(a[0])
    raise ValueError(e)


def enc_payload(v, mapjob=False):
    if v is None:
        return [0, 0, 0]
    t = v[0]
    if t == 'ok':
        return [0, 0, 0] if mapjob else [1, int(v[1]), 0]
    if t == 'exc':
        return [2, int(v[1]), 0]
    if t == 'lost':
        return [3, oz(v[1]), int(v[2])]
    if t == 'timelimit':
        return [4, oz(v[1]), 0]
    if t == 'terminated':
        return [5, oz(v[1]), 0]
    if t == 'putfailed':
        return [6, 0, 0]
    return [99, 0, 0]


def enc_job(j):
    k = dict(apply=0, map=1, imap=2, imapu=3)[j['kind']]
    out = [k, int(j['incache']), int(j['ready'])]
    if k == 0:
        out.append(int(bool(j['acc'])))
    elif k == 1:
        out.append(sum(1 for a in j['acc'] if a) if isinstance(j['acc'], list) else 0)
    else:
        out.append(0)
    out += [1, int(j['lost'][0]), oz(j['lost'][1])] if j['lost'] else [0, 0, 0]
    out += [j['cb'][0], j['cb'][1], j['cb'][2]]
    if k == 0:
        out += enc_payload(j['val']) + [oz(j['extra'][0])]
    elif k == 1:
        out += enc_payload(j['val'], True) + [j['extra'][0]]
    else:
        out += [j['extra'][0], oz(j['extra'][1]), j['extra'][2], len(j['extra'][3])]
    out += [-1] + list(j['wpids']) + [-2]
    for sft, lim in j['cb'][3]:
        out += [int(sft), oz(lim)]
    return out


def enc_ret(o):
    if o['exc']:
        return [EXC.get(o['exc'], 19)]
    r = o['ret']
    if r is None:
        return [0]
    if r == 'Blocked':
        return [1]
    if r == 'Refused':
        return [2]
    if r == 'NoScanner':
        return [3]
    if r == 'Accepted':
        return [97]
    if r[0] == 'fed':
        return [0]
    if r[0] == 'item':
        return [20, 1, int(r[1]), 0]
    if r[0] == 'stop':
        return [21]
    if r[0] == 'empty':
        return [22]
    if r[0] == 'raised':
        return [23] + enc_payload(r[1])
    return [98]


def obs_coq(o):
    return '(mkobs %s %s %s %s %s)' % (
        clist(enc_ret(o)),
        clist([enc_job(j) for j in o['jobs']], clist),
        clist([[w[0], w[1], int(w[2]), int(w[3]), oz(w[4])] for w in o['workers']], clist),
        clist([o['nprocs'], o['sem'][0], o['sem'][1], o['R'], o['state'], int(o['now']), o['ncache']]),
        clist(o['sigs'], lambda s: '(%s, %s)' % (cz(s[0]), cz(s[1]))))


def case_coq(case, obs):
    return '(%s, %s, %s)' % (cfg_coq(case['cfg']), clist(case['events'], ev_coq), clist(obs, obs_coq))


def run_impl(cases, timeout=300):
    return core.run_driver('pool_driver.py', cases, timeout=timeout)


def model_obs(case, k):
    """debugging: the model's observation after event k (printed raw by coqc)"""
    import subprocess
    import os
    cdir = os.path.join(core.COQ, 'Cases')
    os.makedirs(cdir, exist_ok=True)
    fn = os.path.join(cdir, 'dbg_pool.v')
    with open(fn, 'w') as fh:
        fh.write(HEADER + '\nEval vm_compute in (obs_at (init %s) %s %d%%nat).\n' % (
            cfg_coq(case['cfg']), clist(case['events'], ev_coq), k))
    p = subprocess.run(['coqc', '-Q', '.', 'BV', '-w', '-notation-overridden', 'Cases/dbg_pool.v'],
                       cwd=core.COQ, stdout=subprocess.PIPE, stderr=subprocess.STDOUT, text=True)
    return p.stdout


# ------------------------------------------------------------------ generators
def random_cfg(rng):
    return dict(n=rng.choice([1, 2, 2, 3, 4]),
                soft=rng.choice([None, None, 2, 4]), hard=rng.choice([None, None, 3, 6]),
                lost=rng.choice([None, None, 3]),
                max_restarts=rng.choice([None, 1, 2, 3, 100]), max_restart_freq=rng.choice([1, 5]),
                putlocks=rng.random() < 0.5, enable_timeouts=rng.random() < 0.5,
                accept_raises=rng.random() < 0.3)      # harness only: every second accept callback raises


def gen_requests(rng, n, length=(5, 45), focus=None, cfg=None):
    """requests for state-aware generation inside the driver (harness/pool_gen.py)"""
    out = []
    for _ in range(n):
        out.append(dict(cfg=cfg(rng) if callable(cfg) else (cfg or random_cfg(rng)),
                        gen=dict(seed=rng.randrange(1 << 30), length=rng.randint(*length),
                                 focus=focus or {})))
    return out


# ------------------------------------------------------------------ monitors
# Each monitor inspects the IMPLEMENTATION's observations of one history and returns a
# list of (signature, what) -- concrete failures of the property on the real code.

def _apply_jobs(o):
    return [(k, j) for k, j in enumerate(o['jobs']) if j['kind'] == 'apply']


def mon_C01(case, obs):
    out = []
    seen = {}
    for n, o in enumerate(obs):
        if o['exc'] in ('Hang',):
            out.append(('C01:event-hangs', 'event %d %s hangs' % (n, case['events'][n])))
        for k, j in _apply_jobs(o):
            cbs = j['cb'][0] + j['cb'][1]
            if cbs > 1:
                out.append(('C01:callbacks-fired-twice', 'job %d: %d result callbacks after event %d %s'
                            % (k, cbs, n, case['events'][n])))
            if j['ready'] and cbs != 1:
                out.append(('C01:resolved-without-callback', 'job %d ready with %d callbacks after event %d' % (k, cbs, n)))
            if not j['ready'] and cbs:
                out.append(('C01:callback-before-outcome', 'job %d not ready but %d callbacks' % (k, cbs)))
            if j['ready']:
                if k in seen and seen[k] != j['val']:
                    out.append(('C01:outcome-changed', 'job %d outcome changed from %s to %s at event %d %s'
                                % (k, seen[k], j['val'], n, case['events'][n])))
                seen.setdefault(k, j['val'])
                if j['val'] and j['val'][0] == 'lost' and j['val'][2] != k:
                    out.append(('C01:failure-attached-to-other-job', 'job %d carries WorkerLostError of job %s' % (k, j['val'][2])))
            if k in seen and not j['ready']:
                out.append(('C01:outcome-withdrawn', 'job %d was ready and is not any more' % k))
        # map_async handles: one callback at most, and the outcome never changes once observable
        for k, j in enumerate(o['jobs']):
            if j['kind'] != 'map':
                continue
            cbs = j['cb'][0] + j['cb'][1]
            if cbs > 1:
                out.append(('C01:callbacks-fired-twice', 'map job %d: %d result callbacks (success %d, error %d) after event %d %s'
                            % (k, cbs, j['cb'][0], j['cb'][1], n, case['events'][n])))
            if not j['ready'] and cbs:
                out.append(('C01:callback-before-outcome', 'map job %d not ready but %d callbacks' % (k, cbs)))
            if j['ready']:
                if ('m', k) in seen and seen[('m', k)] != j['val']:
                    out.append(('C01:outcome-changed', 'map job %d outcome changed from %s to %s at event %d %s'
                                % (k, seen[('m', k)], j['val'], n, case['events'][n])))
                seen.setdefault(('m', k), j['val'])
            elif ('m', k) in seen:
                out.append(('C01:outcome-withdrawn', 'map job %d was ready and is not any more' % k))
    return out


def mon_result_dropped(case, obs):
    """a result message handled for a job that is still waiting (cached, unresolved) resolves it with
    that result -- whatever has happened to the worker that sent it in the meantime (it had finished
    the job: "no job is reported lost unless the worker running an unfinished part of it really
    exited"; "own result")"""
    out = []
    for n, (e, o) in enumerate(zip(case['events'], obs)):
        if e[0] != 'ready' or n == 0 or o['exc']:
            continue
        j = e[1]
        prev = obs[n - 1]['jobs']
        if not isinstance(j, int) or j >= len(prev) or j >= len(o['jobs']):
            continue
        before, after = prev[j], o['jobs'][j]
        if not before['incache'] or before['ready']:
            continue
        want = ['ok' if e[3] else 'exc', e[4]]
        if before['kind'] == 'apply' and e[2] is None:
            if not after['ready'] or after['val'] != want:
                out.append(('C04:result-of-finished-job-dropped',
                            'job %d was waiting, its result %s is handled at event %d %s and the job is %s afterwards'
                            % (j, want, n, e, ('resolved with %s' % (after['val'],)) if after['ready'] else 'still unresolved')))
        elif before['kind'] == 'map' and e[2] is not None and not e[3]:
            if not after['ready'] or after['val'] != want:
                out.append(('C04:result-of-finished-job-dropped',
                            'map job %d was waiting, the failure %s of part %s is handled at event %d and the job is %s afterwards'
                            % (j, want, e[2], n, ('resolved with %s' % (after['val'],)) if after['ready'] else 'still unresolved')))
    return out


def job_params(case, obs):
    """(soft, hard, lost timeout) of each job, recomputed from the submission events"""
    cfg = case['cfg']
    out = []
    for e, o in zip(case['events'], obs):
        if e[0] in ('apply', 'applyq', 'map', 'imap', 'imapu') and o['ret'] is None and not o['exc']:
            if e[0] in ('apply', 'applyq'):
                a = list(e[1:]) + [None] * 4
                out.append((a[0] or cfg.get('soft'), a[1] or cfg.get('hard'), a[2] or cfg.get('lost') or 10))
            elif e[0] == 'map':
                out.append((None, None, 10))
            else:
                out.append((None, None, cfg.get('lost') or 10))
    return out


def mon_C04(case, obs):
    out = []
    marker = {}
    params = job_params(case, obs)
    was_ready = set()
    exits = {}             # pid ref -> status given by the history
    tj = set()
    for n, (e, o) in enumerate(zip(case['events'], obs)):
        if e[0] == 'terminate_job':
            tj.add(e[1])
        for k, j in _apply_jobs(o):
            if j['ready'] and j['val'] and j['val'][0] == 'terminated' and k not in was_ready \
                    and not (set(j['wpids']) & tj):
                out.append(('C04:terminated-without-terminate-job',
                            'job %d resolved Terminated at event %d although terminate_job was never called on its worker %s'
                            % (k, n, j['wpids'])))
        if e[0] == 'exit':
            exits.setdefault(e[1], e[2])
        if o['exc'] and e[0] == 'tick' and o['exc'] != 'RestartFreqExceeded':
            out.append(('C04:supervision-pass-raises', 'tick raises %s at event %d' % (o['exc'], n)))
        for k, j in enumerate(o['jobs']):
            if j['lost']:
                if k in marker and marker[k] != j['lost']:
                    out.append(('C04:marker-rewritten', 'job %d marker %s -> %s at event %d' % (k, marker[k], j['lost'], n)))
                marker.setdefault(k, j['lost'])
            if j['kind'] != 'apply':
                continue
            if e[0] in ('tick', 'join_shutdown') and o['exc'] in (None, 'WorkersJoined') and j['incache'] and not j['ready'] and j['lost']:
                lt = case['cfg'].get('lost') or 10
                # the job's own timeout is not observable here; use the largest possible
                if o['now'] - j['lost'][0] > 10 and o['now'] - j['lost'][0] > lt:
                    out.append(('C04:loss-not-reported-in-time', 'job %d marker %s still unresolved at %s' % (k, j['lost'], o['now'])))
            if j['ready'] and j['val'] and j['val'][0] == 'lost' and k not in was_ready and j['lost'] \
                    and k < len(params) and o['now'] - j['lost'][0] <= params[k][2]:
                out.append(('C04:loss-reported-before-timeout', 'job %d lost at %s, detected %s, timeout %s'
                            % (k, o['now'], j['lost'][0], params[k][2])))
            if j['ready']:
                was_ready.add(k)
            if j['ready'] and j['val'] and j['val'][0] == 'lost':
                if not j['lost']:
                    out.append(('C04:lost-without-marker', 'job %d' % k))
                elif j['val'][1] != j['lost'][1]:
                    out.append(('C04:status-differs-from-marker', 'job %d reports %s, marker %s' % (k, j['val'][1], j['lost'])))
    # no job is marked lost unless the worker that acknowledged it is gone
    gone = set()
    for n, (e, o) in enumerate(zip(case['events'], obs)):
        if e[0] == 'exit':
            gone.add(e[1])
        for p_, sg in o['sigs']:
            if sg in (9, 15):
                gone.add(p_)          # the harness lets a signalled fake process die
        if n and e[0] == 'tick':
            inpool = {w[0] for w in obs[n - 1]['workers']}
            for k, j in _apply_jobs(o):
                was = obs[n - 1]['jobs'][k]['lost'] if k < len(obs[n - 1]['jobs']) else None
                if j['lost'] and not was and j['wpids']:
                    own = j['wpids'][0]
                    if own in inpool and own not in gone:
                        out.append(('C04:live-workers-job-marked-lost',
                                    'job %d was marked lost (%s) by the pass at event %d although its worker %d has not exited'
                                    % (k, j['lost'], n, own)))
    return out


def mon_C05(case, obs):
    out = []
    cfg = case['cfg']
    for n, (e, o) in enumerate(zip(case['events'], obs)):
        if e[0] == 'scan' and o['exc']:
            out.append(('C05:scan-raises', 'scan raises %s at event %d' % (o['exc'], n)))
        if e[0] == 'scan' and not o['exc'] and o['ret'] != 'NoScanner':
            for k, j in _apply_jobs(o):
                ev = next((x for x in case['events'] if x[0] == 'apply'), None)
        for k, j in _apply_jobs(o):
            if j['ready'] and j['val'] and j['val'][0] == 'timelimit':
                t = j['extra'][0]
                lim = j['val'][1]
                if t is None or lim is None or lim == 0:
                    out.append(('C05:timelimit-without-limit', 'job %d: %s accepted %s' % (k, j['val'], t)))
    return out


def mon_C05_stopped(case, obs):
    """the process that was running a job failed by the hard limit is sent the termination signal"""
    out = []
    gone = set()
    for n, (e, o) in enumerate(zip(case['events'], obs)):
        if e[0] == 'exit':
            gone.add(e[1])
        if n and e[0] in ('scan', 'scan_step') and not o['exc']:
            prev = obs[n - 1]
            inpool = {w[0] for w in prev['workers']}
            for k, j in _apply_jobs(o):
                if k < len(prev['jobs']) and not prev['jobs'][k]['ready'] and j['ready'] and j['val'] and j['val'][0] == 'timelimit' \
                        and j['wpids']:
                    own = j['wpids'][0]
                    if own in inpool and own not in gone and not any(p_ == own and sg in (15, 9) for p_, sg in o['sigs']):
                        out.append(('C05:timed-out-worker-not-stopped',
                                    'job %d failed with TimeLimitExceeded at event %d %s but its worker %d (in the pool, not exited) was sent no signal: %s'
                                    % (k, n, e, own, o['sigs'])))
                    elif own in inpool and own not in gone and len(e) > 1 and e[1] and not any(p_ == own and sg == 9 for p_, sg in o['sigs']):
                        # the scripted worker lingers after the termination signal: SIGKILL must follow
                        out.append(('C05:lingering-worker-not-killed',
                                    'job %d failed with TimeLimitExceeded at event %d %s; its worker %d ignores the termination signal and was never sent SIGKILL: %s'
                                    % (k, n, e, own, o['sigs'])))
        for p_, sg in o['sigs']:
            if sg in (9, 15):
                gone.add(p_)
    return out


def mon_C05_after_result(case, obs):
    out = []
    for n, (e, o) in enumerate(zip(case['events'], obs)):
        if not n or e[0] not in ('scan', 'scan_step'):
            continue
        prev = obs[n - 1]['jobs']
        for k, j in _apply_jobs(o):
            if k < len(prev) and prev[k]['ready']:
                if len(j['cb'][3]) > len(prev[k]['cb'][3]):
                    out.append(('C05:timeout-action-after-result',
                                'job %d was already resolved (%s) when the scan step at event %d ran its timeout callback %s'
                                % (k, prev[k]['val'], n, j['cb'][3][-1])))
        for p, sg in o['sigs']:
            if sg in (15, 9):
                owned = [j for j in prev if j['kind'] == 'apply' and p in j['wpids'] and not j['ready']]
                if not owned:
                    out.append(('C05:kill-without-running-job',
                                'signal %d sent to pid %d at event %d %s although it owns no unresolved job' % (sg, p, n, e)))
    return out


def mon_C05_jobs(case, obs):
    """needs the per-job limits: recomputed from the apply events"""
    out = []
    cfg = case['cfg']
    limits = []
    for e, o in zip(case['events'], obs):
        if e[0] in ('apply', 'applyq', 'map', 'imap', 'imapu') and o['ret'] is None and not o['exc']:
            if e[0] in ('apply', 'applyq'):
                a = list(e[1:]) + [None] * 4
                limits.append((a[0] or cfg.get('soft'), a[1] or cfg.get('hard')))
            else:
                limits.append((None, None))
    first_tl = {}
    for n, (e, o) in enumerate(zip(case['events'], obs)):
        for k, j in _apply_jobs(o):
            soft, hard = limits[k] if k < len(limits) else (None, None)
            t = j['extra'][0]
            if j['ready'] and j['val'] and j['val'][0] == 'timelimit' and k not in first_tl:
                first_tl[k] = n
                if not hard or t is None or o['now'] < t + hard:
                    out.append(('C05:timed-out-early', 'job %d timed out at %s, accepted %s, limit %s' % (k, o['now'], t, hard)))
                if j['val'][1] != hard:
                    out.append(('C05:wrong-limit-reported', 'job %d reports limit %s, effective %s' % (k, j['val'][1], hard)))
            if e[0] == 'scan' and not o['exc'] and o['ret'] != 'NoScanner' and j['incache'] and not j['ready'] \
                    and t and hard and o['now'] >= t + hard:
                out.append(('C05:not-timed-out-by-scan', 'job %d accepted %s limit %s still running after scan at %s'
                            % (k, t, hard, o['now'])))
    return out


def mon_C06(case, obs):
    out = []
    for n, (e, o) in enumerate(zip(case['events'], obs)):
        for k, j in _apply_jobs(o):
            softs = [t for t in j['cb'][3] if t[0]]
            if len(softs) > 1:
                out.append(('C06:soft-callback-twice', 'job %d: %s' % (k, j['cb'][3])))
        if e[0] in ('scan', 'scan_step'):
            usr1 = [s for s in o['sigs'] if s[1] == 10]
            targets = [s[0] for s in usr1]
            if len(set(targets)) != len(targets):
                pass   # two jobs owned by one pid may legitimately both expire
            for p in targets:
                prev = obs[n - 1] if n else None
                owned = [j for j in (prev or o)['jobs'] if j['kind'] == 'apply' and p in j['wpids'] and not j['ready']]
                if prev is not None and p not in {w[0] for w in prev['workers']}:
                    out.append(('C06:soft-signal-to-worker-not-in-pool',
                                'USR1 sent to pid %d at event %d %s although that worker is not in the pool any more '
                                '(the limit cannot be raised inside the process running the job; the pid may belong to anybody)' % (p, n, e)))
                if prev is not None and not owned:
                    out.append(('C06:soft-signal-without-running-job',
                                'USR1 sent to pid %d at event %d %s although no unresolved job is owned by it '
                                '(its result had already been handled)' % (p, n, e)))
    return out


def mon_C06_owner_gone(case, obs):
    """no soft-limit callback for a job whose worker is not in the pool (the supervisor has reaped
    it): the limit cannot be enforced in the process that ran the job"""
    out = []
    for n, (e, o) in enumerate(zip(case['events'], obs)):
        if not n or e[0] not in ('scan', 'scan_step'):
            continue
        prev = obs[n - 1]
        inpool = {w[0] for w in prev['workers']}
        for k, j in _apply_jobs(o):
            if k < len(prev['jobs']):
                new = [t for t in j['cb'][3][len(prev['jobs'][k]['cb'][3]):] if t[0]]
                if new and j['wpids'] and j['wpids'][0] not in inpool:
                    out.append(('C06:soft-signal-to-worker-not-in-pool',
                                'job %d got the soft-limit callback %s at event %d %s although its worker %d had left the pool'
                                % (k, new, n, e, j['wpids'][0])))
    return out


def mon_C06_timing(case, obs):
    """the soft signal goes out at the first whole scan at or after acceptance + the job's
    effective soft limit (its own, else the pool's) and before the hard limit; never earlier;
    the callback is told that limit"""
    out = []
    params = job_params(case, obs)
    # jobs about which this monitor expects nothing: acknowledged more than once (no real worker
    # does that: a task is received by one worker), or already visited by a scan at or after their
    # deadline while their worker was not in the pool (nobody to signal; the scan remembers them)
    excused = set()
    acks = {}
    for n, (e, o) in enumerate(zip(case['events'], obs)):
        if e[0] == 'ack':
            acks[e[1]] = acks.get(e[1], 0) + 1
            if acks[e[1]] > 1:
                excused.add(e[1])
        if not n:
            continue
        prev = obs[n - 1]['jobs']
        live = {w[0] for w in obs[n - 1]['workers']}
        if e[0] in ('scan', 'scan_step') and not o['exc']:
            for k, j in _apply_jobs(obs[n - 1]):
                if k < len(params) and params[k][0] and j['extra'][0] and o['now'] >= j['extra'][0] + params[k][0] \
                        and not (j['wpids'] and j['wpids'][0] in live):
                    excused.add(k)
        for k, j in _apply_jobs(o):
            if k >= len(params) or k >= len(prev):
                continue
            soft, hard, _ = params[k]
            t = prev[k]['extra'][0]
            new = j['cb'][3][len(prev[k]['cb'][3]):]
            for sft, lim in new:
                if not sft:
                    continue
                if lim != soft:
                    out.append(('C06:soft-callback-wrong-limit', 'job %d: callback told %s, effective soft limit %s' % (k, lim, soft)))
                if not soft or t is None or o['now'] < t + soft:
                    out.append(('C06:soft-signal-early',
                                'job %d soft-signalled at %s, accepted %s, effective soft limit %s (event %d %s)'
                                % (k, o['now'], t, soft, n, e)))
            if e[0] == 'scan' and not o['exc'] and o['ret'] != 'NoScanner' and soft and t and not prev[k]['ready'] \
                    and prev[k]['incache'] and o['now'] >= t + soft and not (hard and o['now'] >= t + hard) \
                    and prev[k]['wpids'] and prev[k]['wpids'][0] in live and k not in excused \
                    and not any(x[0] for x in j['cb'][3]):
                out.append(('C06:soft-limit-not-signalled',
                            'job %d accepted %s with effective soft limit %s got no soft signal from the scan at %s (event %d)'
                            % (k, t, soft, o['now'], n)))
    return out


def mon_C07_credit(case, obs):
    """a handled result of an apply job is credited to the worker that owns it (if it is still in
    the pool): otherwise that worker waits out the 30 s consumption guard when it exits"""
    out = []
    expect = {}
    for n, (e, o) in enumerate(zip(case['events'], obs)):
        if e[0] == 'ready' and n and e[1] < len(obs[n - 1]['jobs']):
            pj = obs[n - 1]['jobs'][e[1]]
            live = {w[0] for w in obs[n - 1]['workers']}
            if pj['kind'] == 'apply' and pj['incache'] and pj['wpids'] and pj['wpids'][0] in live:
                expect[pj['wpids'][0]] = expect.get(pj['wpids'][0], 0) + 1
        for w in o['workers']:
            if w[4] is not None and w[4] < expect.get(w[0], 0):
                out.append(('C07:consumed-result-not-credited',
                            'worker %d sent %d results of apply jobs that were handled, but is credited only %d (event %d %s)'
                            % (w[0], expect[w[0]], w[4], n, e)))
                return out
    return out


def mon_C09(case, obs):
    out = []
    for n, (e, o) in enumerate(zip(case['events'], obs)):
        idx = [w[1] for w in o['workers']]
        if len(set(idx)) != len(idx):
            out.append(('C09:duplicate-slot-index', 'indices %s after event %d %s' % (idx, n, e)))
        if e[0] == 'tick' and not o['exc'] and o['state'] == 0:
            prev = obs[n - 1] if n else None
            if len(o['workers']) < o['nprocs']:
                out.append(('C09:pool-below-size-after-pass', '%d workers, size %d at event %d' % (len(o['workers']), o['nprocs'], n)))
            if prev is not None and len(o['workers']) > max(o['nprocs'], len(prev['workers'])):
                out.append(('C09:pool-above-size-after-pass', '%d workers, size %d' % (len(o['workers']), o['nprocs'])))
            exited = {ev[1]: ev[2] for ev in case['events'][:n] if ev[0] == 'exit'}
            dead = [w[0] for w in o['workers'] if w[0] in exited]
            if dead:
                out.append(('C09:dead-worker-left-in-pool', 'worker(s) %s have exited (status %s) and are still in the pool after the pass at event %d'
                            % (dead, [exited[d] for d in dead], n)))
            free = [w for w in o['workers'] if not w[2]]
            if len(free) > o['nprocs']:
                out.append(('C09:more-workers-than-size',
                            '%d workers not being stopped for a configured size of %d after the pass at event %d'
                            % (len(free), o['nprocs'], n)))
        if e[0] not in ('tick', 'tick_close') and n and len(o['workers']) > len(obs[n - 1]['workers']):
            out.append(('C09:worker-started-outside-supervision', 'event %s' % e))
        if e[0] == 'tick' and o['exc'] == 'RestartFreqExceeded' and not any(ev[0] in ('exit', 'scan', 'terminate_job', 'scan_begin') for ev in case['events'][:n]) \
                and not any(ob['sigs'] for ob in obs[:n]):
            out.append(('C09:pass-refused-although-no-worker-ever-exited',
                        'the supervision pass at event %d raised RestartFreqExceeded in a history without a single worker exit (pool size %s, %d workers)'
                        % (n, o['nprocs'], len(o['workers']))))
    return out


def mon_C10(case, obs):
    out = []
    for n, (e, o) in enumerate(zip(case['events'], obs)):
        v, b = o['sem']
        if e[0] == 'tick' and n and not o['exc']:
            gone = {w[0] for w in obs[n - 1]['workers']} - {w[0] for w in o['workers']}
            if v - obs[n - 1]['sem'][0] > len(gone):
                out.append(('C10:slots-released-without-worker-exit',
                            'the supervision pass at event %d raised the semaphore from %d to %d although only %d worker(s) were replaced'
                            % (n, obs[n - 1]['sem'][0], v, len(gone))))
        if e[0] == 'ready' and n and e[1] < len(obs[n - 1]['jobs']) and obs[n - 1]['jobs'][e[1]]['ready'] \
                and obs[n - 1]['jobs'][e[1]]['kind'] == 'apply' and v > obs[n - 1]['sem'][0]:
            out.append(('C10:slot-released-for-resolved-job',
                        'a result for the already resolved job %d released a slot (%d -> %d) at event %d'
                        % (e[1], obs[n - 1]['sem'][0], v, n)))
        if e[0] == 'tick' and n and not o['exc'] and o['state'] == 0 and obs[n - 1]['state'] == 0:
            gone = {w[0] for w in obs[n - 1]['workers']} - {w[0] for w in o['workers']}
            want = min(b, obs[n - 1]['sem'][0] + len(gone))
            if v < want:
                out.append(('C10:slot-not-given-back-for-reaped-worker',
                            'the supervision pass at event %d reaped %d worker(s) %s but the semaphore went from %d to %d (bound %d)'
                            % (n, len(gone), sorted(gone), obs[n - 1]['sem'][0], v, b)))
        if e[0] == 'apply_unsendable' and n and (v != obs[n - 1]['sem'][0] or o['ncache'] != obs[n - 1]['ncache']):
            out.append(('C10:slot-leaked-by-failed-send',
                        'apply_async whose write to the pipe raised (event %d, it %s) left %d -> %d free slots and %d -> %d cache entries'
                        % (n, 'raised ' + o['exc'] if o['exc'] else 'returned %s' % o['ret'], obs[n - 1]['sem'][0], v,
                           obs[n - 1]['ncache'], o['ncache'])))
        if e[0] == 'feed' and n and not o['exc']:
            failed = [k for k, j in _apply_jobs(o) if j['ready'] and j['val'] and j['val'][0] == 'putfailed'
                      and k < len(obs[n - 1]['jobs']) and not obs[n - 1]['jobs'][k]['ready']]
            if failed and v < min(b, obs[n - 1]['sem'][0] + len(failed)):
                out.append(('C10:slot-leaked-by-failed-send',
                            'the task(s) of apply job(s) %s could not be sent at event %d; free slots went %d -> %d (bound %d)'
                            % (failed, n, obs[n - 1]['sem'][0], v, b)))
            stuck = [k for k in failed if o['jobs'][k]['incache']]
            if stuck:
                out.append(('C10:unsent-job-stays-in-cache', 'apply job(s) %s failed because the task could not be sent and are still in the cache (nobody will ever acknowledge them)' % stuck))
        if e[0] == 'ready' and n and not o['exc']:
            for k, j in _apply_jobs(o):
                if k < len(obs[n - 1]['jobs']) and not obs[n - 1]['jobs'][k]['ready'] and j['ready'] \
                        and j.get('sem_at_cb') is not None and j['sem_at_cb'] != v:
                    out.append(('C10:slot-not-back-when-callback-runs',
                                'job %d: its result callback ran (event %d) while %d slots were free; %d are free once the result has been handled -- a callback that submits the next job would wait for the slot it is about to be given'
                                % (k, n, j['sem_at_cb'], v)))
        if v < 0 or v > b:
            out.append(('C10:semaphore-out-of-bounds', 'value %d bound %d after event %d %s' % (v, b, n, e)))
        if b != o['nprocs']:
            out.append(('C10:bound-differs-from-size', 'bound %d size %d after %s' % (b, o['nprocs'], e)))
    return out


def mon_C11(case, obs):
    out = []
    mr = case['cfg'].get('max_restarts')
    clean_exit = {}
    signalled = set()
    for n, (e, o) in enumerate(zip(case['events'], obs)):
        if mr and (o['R'] < 0 or o['R'] > mr):
            out.append(('C11:counter-out-of-budget', 'R=%d max_restarts=%d after %s' % (o['R'], mr, e)))
        for p, sg in o['sigs']:
            signalled.add(p)
        if e[0] == 'exit' and e[1] not in signalled:
            clean_exit.setdefault(e[1], e[2] in (0, 155))
        if e[0] in ('ack', 'stale_ack') and o['R'] != 0 and o['exc'] != 'Hang':
            # "the count starts afresh when ... a job has been accepted": every acknowledgement a
            # worker sends, whatever has become of the handle in the parent
            out.append(('C11:acceptance-did-not-restore-budget', 'R=%d after the acknowledgement at event %d %s' % (o['R'], n, e)))
        if e[0] == 'tick' and n and not o['exc']:
            before = {w[0] for w in obs[n - 1]['workers']}
            after = {w[0] for w in o['workers']}
            gone = before - after
            started = after - before
            if not gone and o['R'] > obs[n - 1]['R']:
                out.append(('C11:budget-charged-although-no-worker-exited',
                            'the pass at event %d reaped nobody (started %d worker(s)) and R went %d -> %d'
                            % (n, len(started), obs[n - 1]['R'], o['R'])))
            if gone and all(clean_exit.get(p) is True for p in gone) and len(started) <= len(gone) \
                    and o['R'] > obs[n - 1]['R']:
                out.append(('C11:clean-exit-consumed-budget', 'workers %s exited clean/recycle, R %d -> %d at event %d'
                            % (sorted(gone), obs[n - 1]['R'], o['R'], n)))
    return out


def part_books(case, obs):
    """per multi-part job: which pid acknowledged each part, which parts have a handled result"""
    acked, done = {}, {}
    for e, o in zip(case['events'], obs):
        if e[0] == 'ack' and e[2] is not None:
            acked.setdefault(e[1], {})[e[2]] = e[3]
        if e[0] == 'ready' and e[2] is not None:
            done.setdefault(e[1], set()).add(e[2])
        yield acked, done


def mon_known_C04(case, obs):
    """recorded defects of the pinned tree around worker loss (see known_findings.json)"""
    out = []
    had_marker = set()
    ever_acked = {}        # job -> every worker that ever acknowledged a part of it (a part may be acknowledged twice)
    for n, ((e, o), (acked, done)) in enumerate(zip(zip(case['events'], obs), part_books(case, obs))):
        if e[0] == 'ack':
            ever_acked.setdefault(e[1], set()).add(e[3])
        live = {w[0] for w in o['workers']}
        for k, j in enumerate(o['jobs']):
            # D4: ordered imap stores the loss under the key None: the consumer is never told
            if j['kind'] == 'imap' and 'None' in j['extra'][3]:
                out.append(('C04:imap-loss-not-delivered', 'imap job %d: the failure sits in _unsorted[None] (event %d)' % (k, n)))
            # D3: a multi-part job is marked lost although the exited owner had finished its parts
            if j['kind'] in ('map', 'imap', 'imapu') and j['lost'] and k not in had_marker:
                had_marker.add(k)
                gone = [p for p in j['wpids'] if p not in live]
                unfinished = [i for i, p in acked.get(k, {}).items() if p in gone and i not in done.get(k, set())]
                foreign = [p for p in gone if p not in ever_acked.get(k, set())]
                if foreign and not unfinished:
                    # not D3: the handle lists a worker that never acknowledged any part of THIS job
                    out.append(('C04:job-marked-lost-for-a-worker-that-never-accepted-it',
                                '%s job %d is marked lost at event %d because of the exit of worker(s) %s, which never acknowledged a part '
                                'of it (its parts were acknowledged by %s)' % (j['kind'], k, n, foreign, sorted(ever_acked.get(k, set())))))
                elif gone and not unfinished:
                    out.append(('C04:spurious-loss-finished-parts',
                                '%s job %d marked lost at event %d although workers %s had finished every part they accepted'
                                % (j['kind'], k, n, gone)))
            # D11: the ACK was handled after its sender had been reaped: never marked
            if e[0] == 'tick' and not o['exc'] and j['kind'] == 'apply' and j['incache'] and not j['ready'] \
                    and j['acc'] and j['wpids'] and j['wpids'][0] not in live and not j['lost']:
                out.append(('C04:owner-gone-but-no-marker',
                            'job %d is owned by pid %d which left the pool, yet the supervision pass at event %d set no marker'
                            % (k, j['wpids'][0], n)))
    return out


def mon_known_C05(case, obs):
    out = []
    params = job_params(case, obs)
    for n, (e, o) in enumerate(zip(case['events'], obs)):
        if e[0] == 'scan' and o['ret'] == 'NoScanner':
            for k, j in _apply_jobs(o):
                t = j['extra'][0]
                if k < len(params) and params[k][1] and t and not j['ready'] and o['now'] >= t + params[k][1]:
                    out.append(('C05:limit-without-scanner',
                                'job %d has hard limit %s (accepted %s, now %s) but the pool has no timeout scanner'
                                % (k, params[k][1], t, o['now'])))
    return out


def hook_cases(res, pid):
    """interleavings INSIDE one handler that the event grain of the model does not have: the timeout
    scan runs while ApplyResult._ack is in its on_timeout_set hook (result handler and timeout handler
    are different threads) with the soft limit already elapsed.  Judged on the implementation's own
    observations (not compared with the model): the job's worker gets the soft-limit signal exactly
    once -- during that scan or a later one -- and never a second time."""
    cases = []
    for n in (1, 2):
        for soft_job in (None, 2):
            for dt in (3, 5):
                for later in (0, 1, 2):
                    cfg = dict(n=n, soft=None if soft_job else 2, hard=30, enable_timeouts=True)
                    ev = [['apply', soft_job, None, None, None], ['ack_scan', 0, None, n - 1, dt, False]]
                    ev += [['advance', 1], ['scan', False]] * later
                    ev += [['ready', 0, None, True, 4], ['advance', 1], ['scan', False]]
                    cases.append(dict(cfg=cfg, events=ev))
    # ... and the scan runs while ApplyResult._set is in the job's (slow) result callback: the result has been
    # processed, the soft limit elapses during the callback: nothing may be signalled on behalf of that job
    for n in (1, 2):
        for ok in (True, False):
            for soft_job in (None, 2):
                cfg = dict(n=n, soft=None if soft_job else 2, hard=30, enable_timeouts=True)
                ev = [['apply', soft_job, None, None, None], ['ack', 0, None, n - 1], ['advance', 1],
                      ['ready_scan', 0, None, ok, 5, 3, False], ['advance', 1], ['scan', False]]
                cases.append(dict(cfg=cfg, events=ev, expect_soft=0))
    outs = run_impl([dict(cfg=c['cfg'], events=c['events']) for c in cases], timeout=300)
    for c, o in zip(cases, outs):
        obs = o['obs']
        if 'expect_soft' in c:
            n_soft = sum(1 for ob in obs for p_, sg in ob['sigs'] if sg == 10)
            hook = next((ob for e, ob in zip(o['events'], obs) if e[0] == 'ready_scan'), None)
            if hook is not None and hook['exc']:
                res.alarms.append(dict(signature='%s:scan-inside-result-callback-raises' % pid, what='%s raised %s' % (c['events'][3], hook['exc']),
                                       replay=dict(kind='pool-hook', case=dict(cfg=c['cfg'], events=c['events']), expect_soft=0)))
            elif n_soft != 0:
                res.alarms.append(dict(signature='%s:soft-signal-for-a-job-whose-result-was-processed' % pid,
                                       what='job 0 finished inside its soft limit; the timeout handler scanned while its result callback was still running '
                                            '(the limit had elapsed by then) and sent the soft-limit signal %d time(s) to its worker; history %s'
                                            % (n_soft, json.dumps(c['events'])),
                                       replay=dict(kind='pool-hook', case=dict(cfg=c['cfg'], events=c['events']), expect_soft=0)))
            continue
        n_soft = 0
        where = []
        for k, (e, ob) in enumerate(zip(o['events'], obs)):
            for p_, sg in ob['sigs']:
                if sg == 10:
                    n_soft += 1
                    where.append(k)
        if obs and obs[1]['exc']:
            res.alarms.append(dict(signature='%s:scan-inside-ack-raises' % pid, what='%s raised %s' % (c['events'][1], obs[1]['exc']),
                                   replay=dict(kind='pool-hook', case=c)))
        elif n_soft != 1:
            res.alarms.append(dict(signature='%s:soft-limit-elapsed-but-worker-signalled-%d-times' % (pid, n_soft),
                                   what='the soft limit of job 0 had elapsed when the timeout handler scanned during its acknowledgement (and in %d later scans '
                                        'before its result): its worker was sent the soft-limit signal %d times (events %s); history %s'
                                        % (sum(1 for e in c['events'][2:] if e[0] == 'scan') - 1, n_soft, where, json.dumps(c['events'])),
                                   replay=dict(kind='pool-hook', case=c)))
    res.add_cov(evaluations=len(cases), traces=len(cases), hook_cases=len(cases))


def hook_cases_C09(res, pid='C09'):
    """a supervision pass interleaved INSIDE shrink() (the supervisor is another thread; shrink waits for
    the semaphore in the middle): afterwards the pool has its new size, not one worker more.  Judged on the
    implementation's observations only."""
    cases = []
    for n in (2, 3, 4):
        for k in (1, 2):
            if k >= n:
                continue
            cases.append(dict(cfg=dict(n=n, putlocks=True, max_restarts=100), events=[['shrink_tick', k], ['tick'], ['tick']], want=n - k))
    outs = run_impl([dict(cfg=c['cfg'], events=c['events']) for c in cases], timeout=300)
    for c, o in zip(cases, outs):
        last = o['obs'][-1]
        if any(ob['exc'] for ob in o['obs']):
            res.alarms.append(dict(signature='%s:shrink-with-interleaved-pass-raises' % pid, what='%s: %s' % (json.dumps(c['events']), [ob['exc'] for ob in o['obs']]),
                                   replay=dict(kind='pool-hook-size', case=dict(cfg=c['cfg'], events=c['events']), want=c['want'])))
            continue
        free = [w for w in last['workers'] if not w[2]]
        if len(free) != c['want'] or last['nprocs'] != c['want']:
            res.alarms.append(dict(signature='%s:pool-above-size-after-shrink-with-interleaved-pass' % pid,
                                   what='Pool(%d).shrink(%d) with a supervision pass while shrink() waits for the semaphore: configured size %s, %d workers not being stopped (%d expected)'
                                        % (c['cfg']['n'], c['events'][0][1], last['nprocs'], len(free), c['want']),
                                   replay=dict(kind='pool-hook-size', case=dict(cfg=c['cfg'], events=c['events']), want=c['want'])))
    res.add_cov(evaluations=len(cases), traces=len(cases), hook_cases_shrink=len(cases))


def mon_known_C10_two_jobs(case, obs):
    """recorded defect: the pass gives ONE slot back per reaped worker; a worker that held two
    slot-holding jobs whose slots were still out (one failed by the timeout scan or still
    unresolved, and a second one it had gone on to) leaks the other slot for good"""
    out = []
    owner = {}
    slot = set()
    released = set()
    k = 0
    for n, (e, o) in enumerate(zip(case['events'], obs)):
        if e[0] in ('apply', 'applyq', 'map', 'imap', 'imapu') and o['ret'] is None and not o['exc']:
            if e[0] in ('apply', 'applyq'):
                a = list(e[1:]) + [None] * 4
                if (case['cfg'].get('putlocks', False) if a[3] is None else a[3]):
                    slot.add(k)
            k += 1
        if e[0] == 'ack' and e[2] is None and n and e[1] < len(obs[n - 1]['jobs']) and obs[n - 1]['jobs'][e[1]]['incache']:
            owner.setdefault(e[1], e[3])
        if e[0] == 'ready' and n and e[1] < len(obs[n - 1]['jobs']):
            pj = obs[n - 1]['jobs'][e[1]]
            if pj['incache'] and not pj['ready']:
                released.add(e[1])             # its slot came back with the result
        if e[0] == 'tick' and n and not o['exc']:
            gone = {w[0] for w in obs[n - 1]['workers']} - {w[0] for w in o['workers']}
            for p in gone:
                held = [j for j in sorted(slot) if owner.get(j) == p and j not in released]
                if len(held) >= 2:
                    out.append(('C10:slot-leaked-when-a-reaped-worker-held-two-jobs',
                                'the pass at event %d reaps worker %d, which held the slots of jobs %s, and gives one slot back'
                                % (n, p, held)))
                for j in held:
                    released.add(j)
    return out


def mon_known_C10(case, obs):
    """D13: more slot-holding jobs in flight than slots, without any worker exit"""
    out = []
    holders = set()
    k = 0
    disturbed = False
    for n, (e, o) in enumerate(zip(case['events'], obs)):
        if e[0] in ('exit', 'terminate_job', 'shrink', 'death', 'close', 'discard') or any(s[1] in (15, 9) for s in o['sigs']):
            disturbed = True
        if e[0] in ('apply', 'applyq', 'map', 'imap', 'imapu') and o['ret'] is None and not o['exc']:
            if e[0] in ('apply', 'applyq'):
                a = list(e[1:]) + [None] * 4
                wait = case['cfg'].get('putlocks', False) if a[3] is None else a[3]
                if wait:
                    holders.add(k)
            k += 1
        inflight = [h for h in holders if h < len(o['jobs']) and not o['jobs'][h]['ready']]
        if not disturbed and len(inflight) > o['sem'][1]:
            out.append(('C10:more-slot-holders-than-slots',
                        '%d slot-holding jobs in flight on %d slots after event %d %s, no worker exit so far'
                        % (len(inflight), o['sem'][1], n, e)))
            break
    return out


def mon_known_C09(case, obs):
    """D19: supervision stops at close(): recycled workers are not replaced while jobs are pending"""
    out = []
    for n, (e, o) in enumerate(zip(case['events'], obs)):
        if e[0] == 'tick' and not o['exc'] and o['state'] == 1 and len(o['workers']) < o['nprocs'] \
                and any(j['incache'] and not j['ready'] for j in o['jobs']):
            out.append(('C09:no-replacement-after-close',
                        'pool closed with unresolved jobs: %d workers for size %d after the pass at event %d'
                        % (len(o['workers']), o['nprocs'], n)))
            break
    return out


MONITORS = dict(C01=[mon_C01], C04=[mon_C04, mon_result_dropped, mon_known_C04], C05=[mon_C05, mon_C05_jobs, mon_C05_after_result, mon_C05_stopped, mon_known_C05], C06=[mon_C06, mon_C06_timing, mon_C06_owner_gone],
                C09=[mon_C09, mon_known_C09], C10=[mon_C10, mon_known_C10], C11=[mon_C11])


# ------------------------------------------------------------------ systematic sweeps
def sweep_loss():
    """two (or three) jobs on different workers; the workers die at every combination of a few
    instants, in both orders, with equal and different lost-worker timeouts; one supervision
    pass per second for long enough to see every deadline.  Small-scope exhaustive support for
    the random histories (never a proof)."""
    out = []
    for la in (None, 3):
        for lb in (None, 3):
            for ta in (1, 4, 8):
                for tb in (1, 4, 8):
                    for third in (False, True):
                        if third and (ta, tb) not in ((1, 4), (8, 1)):
                            continue
                        ev = [['apply', None, None, la, None], ['apply', None, None, lb, None],
                              ['ack', 0, None, 0], ['ack', 1, None, 1]]
                        if third:
                            ev += [['apply', None, None, 3, None], ['ack', 2, None, 2]]
                        for t in range(1, 23):
                            ev.append(['advance', 1])
                            if t == ta:
                                ev.append(['exit', 0, -11])
                            if t == tb:
                                ev.append(['exit', 1, 155 if lb else -9])
                            if third and t == 2:
                                ev.append(['exit', 2, 1])
                            ev.append(['tick'])
                        out.append(dict(cfg=dict(n=3), events=ev))
    return out


def sweep_limits():
    """one or two accepted jobs under a grid of (pool soft, pool hard, job soft, job hard); a scan
    every second past every limit; the result arriving never / before a scan / in the middle of
    a scan (between the snapshot and the job's step)"""
    out = []
    grid = [(None, None), (2, None), (None, 4), (2, 4), (3, 3), (4, 2), (0, 5)]
    for pool_lim in ((None, None), (3, 6)):
        for so, ha in grid:
            for result in (None, ('before', 3), ('before', 5), ('mid', 2), ('mid', 4), ('mid', 6)):
                if pool_lim == (None, None) and (so, ha) == (None, None):
                    continue
                cfg = dict(n=2, soft=pool_lim[0], hard=pool_lim[1], enable_timeouts=True)
                ev = [['apply', so, ha, None, None], ['apply', None, None, None, None],
                      ['ack', 0, None, 0], ['ack', 1, None, 1]]
                for t in range(1, 9):
                    ev.append(['advance', 1])
                    if result and result[0] == 'before' and result[1] == t:
                        ev.append(['ready', 0, None, True, 7])
                    if result and result[0] == 'mid' and result[1] == t:
                        ev += [['scan_begin'], ['ready', 0, None, True, 7], ['scan_step', t % 2 == 0],
                               ['scan_step', False], ['scan_end']]
                    else:
                        ev.append(['scan', t % 3 == 0])
                    if t in (5, 8):
                        ev.append(['tick'])
                out.append(dict(cfg=cfg, events=ev))
    return out


def sweep_resize():
    """exits, shrinks and grows in every short order, a supervision pass at every position"""
    import itertools
    out = []
    ops = [['exit', 0, 155], ['exit', 1, -9], ['shrink', 1], ['shrink', 1], ['grow', 1], ['tick']]
    seen = set()
    for k in (3, 4):
        for perm in itertools.permutations(range(len(ops)), k):
            ev = [ops[i] for i in perm]
            key = json.dumps(ev)
            if key in seen:
                continue
            seen.add(key)
            out.append(dict(cfg=dict(n=3), events=ev + [['tick'], ['tick']]))
    return out[::3]


def sweep_terminate_job():
    """three jobs on three workers; terminate_job() on one of them (each signal), a second worker
    crashes; the two exits are reaped by the same pass or by different passes, in both orders;
    late results for the third job"""
    out = []
    for sig in (None, 9, 10, 15):
        for same_pass in (True, False):
            for order in (0, 1):
                for lost in (None, 2):
                    ev = [['apply', None, None, lost, None], ['apply', None, None, lost, None], ['apply', None, None, lost, None],
                          ['ack', 0, None, 0], ['ack', 1, None, 1], ['ack', 2, None, 2],
                          ['terminate_job', 0, sig]]
                    exits = [['exit', 0, -(sig or 15)], ['exit', 1, -11]]
                    if order:
                        exits.reverse()
                    if same_pass:
                        ev += exits + [['tick']]
                    else:
                        ev += [exits[0], ['tick'], exits[1], ['tick']]
                    ev += [['ready', 2, None, True, 9]]
                    for _ in range(4):
                        ev += [['advance', 4], ['tick']]
                    ev += [['ready', 1, None, True, 8]]
                    out.append(dict(cfg=dict(n=3, max_restarts=100), events=ev))
    return out


def sweep_late_result():
    """the result of a job is handled AFTER its worker has exited: before the pass that reaps it,
    right after that pass, or later inside the grace period; the worker had finished, so the job
    keeps its own result and nothing is reported lost; other workers (and the replacement) are there"""
    out = []
    for n in (2, 3):
        for kind in ('apply', 'map', 'imap'):
            for code in (-9, 155, 0):
                for ok in (True, False):
                    for when in (0, 1, 2):
                        sub = dict(apply=['apply', None, None, 5, None], map=['map', 2, 1], imap=['imap', 2])[kind]
                        ev = [sub, ['apply', None, None, None, None]]
                        if kind == 'apply':
                            acks, readys = [['ack', 0, None, 0]], [['ready', 0, None, ok, 42]]
                        else:
                            ev += [['feed'], ['feed']]
                            acks = [['ack', 0, 0, 0], ['ack', 0, 1, 0]]
                            readys = [['ready', 0, 0, ok, 42], ['ready', 0, 1, True, 43]]
                        ev += acks + [['ack', 1, None, 1], ['exit', 0, code]]
                        if when == 0:
                            ev += readys + [['tick']]
                        elif when == 1:
                            ev += [['tick']] + readys
                        else:
                            ev += [['tick'], ['advance', 2], ['tick'], readys[0], ['advance', 1]] + readys[1:]
                        for _ in range(3):
                            ev += [['advance', 4], ['tick']]
                        ev += [['ready', 1, None, True, 8]]
                        if kind == 'imap':
                            ev += [['next', 0], ['next', 0], ['next', 0]]
                        out.append(dict(cfg=dict(n=n, max_restarts=100), events=ev))
    return out


def sweep_two_handles():
    """two handles of the same kind alive at once (also one after the other); the worker of ONE of
    them dies: the other one, acknowledged by a live worker or by nobody yet, is not touched and
    completes with its own results"""
    out = []
    for kind in ('imap', 'imapu', 'map', 'apply'):
        for b_acked in (True, False):
            for sequential in (False, True):
                mk = lambda: dict(imap=['imap', 2], imapu=['imapu', 2], map=['map', 2, 1], apply=['apply', None, None, None, None])[kind]
                part = (lambda i: None) if kind == 'apply' else (lambda i: i)
                ev = [mk()]
                if not sequential:
                    ev += [mk()]
                ev += [['feed'], ['ack', 0, part(0), 0]]
                if sequential:
                    # the first handle is finished by worker 0 before the second one exists
                    ev += [['ready', 0, part(0), True, 1]] + ([] if kind == 'apply' else [['ack', 0, 1, 0], ['ready', 0, 1, True, 2]])
                    ev += [mk(), ['feed']]
                if b_acked:
                    ev += [['ack', 1, part(0), 1]]
                ev += [['exit', 0, -9], ['tick'], ['advance', 12], ['tick'], ['advance', 12], ['tick']]
                if not b_acked:
                    ev += [['ack', 1, part(0), 1]]
                ev += [['ready', 1, part(0), True, 7]]
                if kind != 'apply':
                    ev += [['ack', 1, 1, 1], ['ready', 1, 1, True, 8]]
                if kind in ('imap', 'imapu'):
                    ev += [['next', 1], ['next', 1], ['next', 1]]
                out.append(dict(cfg=dict(n=2, max_restarts=100), events=ev))
    return out


def sweep_empty_after():
    """an EMPTY imap / imap_unordered / map submitted after another job, both handed to the task
    handler in one go; then close() and the shutdown drain: the empty handle is told length 0 and is
    finished, nothing is left in the cache"""
    out = []
    firsts = [[['applyq', None, None, None, None]], [['map', 2, 1]], [['imap', 3]], [['imapu', 1]],
              [['applyq', None, None, None, None], ['applyq', None, None, None, None]]]
    for first in firsts:
        for empty in (['imap', 0], ['imapu', 0], ['map', 0, 1]):
            for n in (1, 2):
                ev = list(first) + [empty, ['feed']]
                k = len(first)
                if empty[0] != 'map':
                    ev += [['next', k]]
                ev += [['close'], ['join_shutdown']]
                out.append(dict(cfg=dict(n=n), events=ev))
    return out


def sweep_timeout_slots():
    """slot-holding jobs overrun their hard limit; their workers (process-group leaders and ordinary
    ones) die at TERM or linger until KILL; a late result may still arrive; then passes: at the quiet
    end every slot is back (cfg marker `quiet_end`, judged by mon_C10_quiet_end)"""
    out = []
    for n in (1, 2, 3):
        for lingers in (False, True):
            for late in (False, True):
                ev = [['apply', None, 3, None, True] for _ in range(n)] + [['ack', k, None, k] for k in range(n)]
                ev += [['advance', 4], ['scan', lingers], ['tick']]
                if late:
                    ev += [['ready', k, None, True, 5] for k in range(n)]
                ev += [['advance', 1], ['tick'], ['apply', None, None, None, True], ['ack', n, None, n], ['ready', n, None, True, 9], ['tick']]
                out.append(dict(cfg=dict(n=n, putlocks=True, hard=10, enable_timeouts=True, max_restarts=100, quiet_end=True), events=ev))
    return out


def mon_C10_quiet_end(case, obs):
    """histories built to end quietly (every job resolved, every dead worker reaped): all slots are back"""
    if not case['cfg'].get('quiet_end') or not obs:
        return []
    o = obs[-1]
    if o['exc'] or any(not j['ready'] for j in o['jobs']):
        return []
    evs = [e[0] for e in case['events'][:len(obs)]]
    last_disturbance = max([i for i, k in enumerate(evs) if k in ('scan', 'exit', 'terminate_job', 'shrink')] or [-1])
    if evs[-1] != 'tick' or evs[last_disturbance + 1:].count('tick') < 2:
        return []          # not (or no longer, after minimisation) a quiet end: two passes after the last disturbance
    if o['sem'][0] != o['sem'][1]:
        return [('C10:slot-never-comes-back', 'every job is resolved and the supervision passes have run, yet %d of %d slots are free '
                 '(workers in the pool: %s)' % (o['sem'][0], o['sem'][1], [w[0] for w in o['workers']]))]
    return []


def sweep_grow_budget():
    """grow() on a pool with a small restart budget, supervised by passes that reap nobody (and by
    passes that reap a clean / an abnormal exit at the same time): added workers are not restarts"""
    out = []
    for mr in (1, 2, 3):
        for k in (1, 2, 4):
            for extra in ([], [['exit', 0, 155]], [['exit', 0, -9]], [['shrink', 1]]):
                ev = [['grow', k]] + extra + [['tick'], ['tick'], ['grow', 1], ['tick']]
                out.append(dict(cfg=dict(n=2, max_restarts=mr, max_restart_freq=60), events=ev))
    return out


def sweep_drain_loop():
    """the result handler's drain loop of a closed pool (ONE real call of finish_at_shutdown, its poll
    scripted): a worker has died with a job; the other worker keeps sending results, one per round,
    idle rounds in between; the loop runs the supervision pass after every round, so the loss is
    detected and, once the grace period is over, reported -- also while messages keep arriving"""
    out = []
    for lost in (2, 3):
        for busy in (True, False, 'never-idle'):
            for code in (-9, 1):
                ev = [['apply', None, None, lost, None]] + [['apply', None, None, None, None] for _ in range(6)]
                ev += [['ack', 0, None, 0], ['ack', 1, None, 1], ['close'], ['exit', 0, code], ['drain_begin']]
                for k in range(1, 7):
                    if busy == 'never-idle':
                        # the other worker's messages arrive one second apart: no round ever finds the pipe idle
                        if k < 6:
                            ev += [['wait', 1], ['ready', k, None, True, k], ['join_shutdown']]
                            ev += [['wait', 1], ['ack', k + 1, None, 1], ['join_shutdown']]
                        continue
                    if busy:
                        ev += [['ready', k, None, True, k], ['join_shutdown']]
                        if k < 6:
                            ev += [['ack', k + 1, None, 1], ['join_shutdown']]
                    if not (busy and k == 6):
                        ev += [['advance', 1], ['join_shutdown']]
                ev += [['drain_end']]
                out.append(dict(cfg=dict(n=2, max_restarts=100, drain_case=True), events=ev))
    return out


def mon_C04_owner_exited(case, obs):
    """judged from the history alone (not from the implementation's own marker): an apply job that was
    acknowledged by worker p while it was waiting, whose worker p then exits before any result of the job is
    handled, is resolved by the time the passes have run more than its lost-worker timeout (+ slack) after
    the pass that reaped p.  (An acknowledgement handled AFTER p was reaped is the recorded finding D11.)"""
    out = []
    params = job_params(case, obs)
    owner = {}
    reaped_at = {}
    exited = set()
    flagged = set()
    ambiguous = set()
    for n, (e, o) in enumerate(zip(case['events'], obs)):
        if e[0] == 'ack' and e[2] is None and n and not o['exc'] and e[1] < len(obs[n - 1]['jobs']):
            pj = obs[n - 1]['jobs'][e[1]]
            if pj['kind'] == 'apply' and pj['incache'] and not pj['ready'] and e[3] not in exited and e[1] not in owner \
                    and e[1] not in ambiguous:
                owner[e[1]] = e[3]
            elif e[1] in owner and owner[e[1]] != e[3]:
                ambiguous.add(e[1])          # acknowledged a second time by somebody else: whose job it is is not ours to say
                del owner[e[1]]
        if e[0] == 'exit':
            exited.add(e[1])
        if e[0] in ('tick', 'join_shutdown') and n and o['exc'] in (None, 'WorkersJoined'):
            gone = {w[0] for w in obs[n - 1]['workers']} - {w[0] for w in o['workers']}
            for p_ in gone:
                reaped_at.setdefault(p_, o['now'])
            for k, p_ in owner.items():
                if p_ in reaped_at and k < len(o['jobs']) and k < len(params) and k not in flagged:
                    j = o['jobs'][k]
                    if j['incache'] and not j['ready'] and o['now'] - reaped_at[p_] > params[k][2] + 1:
                        flagged.add(k)
                        out.append(('C04:job-of-exited-worker-never-reported',
                                    'job %d was acknowledged by worker %d, which exited and was reaped at %s; at %s (lost-worker timeout %s) '
                                    'a pass has run and the job is still unresolved (marker: %s)' % (k, p_, reaped_at[p_], o['now'], params[k][2], j['lost'])))
    return out


def mon_C04_drain(case, obs):
    """a job whose worker exited is failed by the drain loop once its grace period (plus one round) is
    over, whatever else the loop is busy with"""
    if not case['cfg'].get('drain_case') or not obs:
        return []
    out = []
    exits = {}
    owner = {}
    for n, (e, o) in enumerate(zip(case['events'], obs)):
        if e[0] == 'exit':
            exits[e[1]] = (o['now'], e[2])
        if e[0] == 'ack' and e[2] is None:
            owner.setdefault(e[1], e[3])
    params = job_params(case, obs)
    last = obs[-1]
    for k, j in enumerate(last['jobs']):
        p_ = owner.get(k)
        if j['kind'] == 'apply' and p_ in exits and k < len(params):
            te, st = exits[p_]
            if not j['ready'] and last['now'] - te > params[k][2] + 2:
                skipped = sum(1 for o in obs if o['ret'] == 'PassSkipped')
                out.append(('C04:loss-not-reported-by-the-drain-loop',
                            'job %d: its worker exited (status %s) at %s, lost-worker timeout %s; the drain loop of the closed pool has run until %s '
                            'and the job is still unresolved (%d supervision passes the loop should have run were skipped)'
                            % (k, st, te, params[k][2], last['now'], skipped)))
    return out


def sweep_raising_accept_loss():
    """the accept callback of a job raises (every second job of these histories); afterwards the job's
    worker dies mid-task: the job is still reported lost after its grace period, like any other"""
    out = []
    for n in (1, 2):
        for code in (-9, 1):
            for lost in (None, 2):
                ev = [['apply', None, None, lost, None], ['apply', None, None, lost, None]]
                ev += [['ack', 0, None, 0], ['ack', 1, None, n - 1]]
                if n == 1:
                    ev = [['apply', None, None, lost, None], ['apply', None, None, lost, None], ['ack', 1, None, 0]]
                ev += [['exit', n - 1, code], ['tick'], ['advance', 12], ['tick'], ['advance', 12], ['tick']]
                out.append(dict(cfg=dict(n=n, max_restarts=100, accept_raises=True), events=ev))
    return out


def sweep_shutdown_loss():
    """a worker dies with a job while the pool is closed (before or after close()); the result
    handler's drain loop (join_shutdown) is what turns the expired marker into a failure, also when no
    worker is left at all"""
    out = []
    for n in (1, 2):
        for close_first in (True, False):
            for lost in (None, 2):
                for others_exit in (True, False):
                    ev = [['apply', None, None, lost, None], ['ack', 0, None, 0]]
                    if close_first:
                        ev += [['close']]
                    ev += [['exit', 0, -9], ['tick']]
                    if not close_first:
                        ev += [['close']]
                    if others_exit:
                        ev += [['exit', i, 1] for i in range(1, n)]
                    for _ in range(5):
                        ev += [['join_shutdown'], ['advance', 3]]
                    ev += [['join_shutdown'], ['tick']]
                    out.append(dict(cfg=dict(n=n, max_restarts=100), events=ev))
    return out


def sweep_close_in_pass():
    """some workers have exited; the pass that replaces them is interrupted by close() after the
    first, second or third replacement; more passes follow"""
    out = []
    for n in (2, 3, 4):
        for dead in range(1, n + 1):
            for k in range(0, dead + 1):
                for busy in (False, True):
                    ev = []
                    if busy:
                        ev += [['apply', None, None, None, None], ['ack', 0, None, n - 1]]
                    ev += [['exit', i, [155, -9, 1, 0][i % 4]] for i in range(dead)]
                    ev += [['tick_close', k], ['tick'], ['apply', None, None, None, None], ['tick']]
                    if busy:
                        ev += [['ready', 0, None, True, 5]]
                    out.append(dict(cfg=dict(n=n, max_restarts=100), events=ev))
    return out


def mon_C01_feed(case, obs):
    """every task of every queued sequence is sent by the task handler, except the one that
    could not be sent (and everything after an IOError, which stops the handler)"""
    out = []
    pending = []
    for n, (e, o) in enumerate(zip(case['events'], obs)):
        if e[0] == 'applyq' and o['ret'] is None and not o['exc']:
            pending.append(1)
        if e[0] in ('map', 'imap', 'imapu') and o['ret'] is None and not o['exc']:
            if e[0] == 'map':
                pending.append(0 if e[1] == 0 or e[2] <= 0 else (e[1] + e[2] - 1) // e[2])
            else:
                pending.append(e[1])
        if e[0] == 'feed' and not o['exc'] and isinstance(o['ret'], list) and o['ret'][0] == 'fed':
            total = sum(pending)
            fail_at = e[1] if len(e) > 1 else None
            kind = e[2] if len(e) > 2 else None
            if fail_at is not None and fail_at < total:
                if kind == 'io':
                    # the handler stops at the sequence that hit the IOError
                    acc, expect = 0, fail_at
                    rest = []
                    for k, cnt in enumerate(pending):
                        if acc + cnt > fail_at:
                            rest = pending[k + 1:]
                            break
                        acc += cnt
                    pending = rest
                else:
                    expect = total - 1
                    pending = []
            else:
                expect = total
                pending = []
            if o['ret'][1] != expect:
                out.append(('C01:queued-tasks-not-sent',
                            'the task handler sent %d of the %d tasks it should have sent at event %d %s'
                            % (o['ret'][1], expect, n, e)))
    return out


def mon_C01_result_dropped(case, obs):
    return [('C01:result-handled-but-job-not-resolved-with-it', w) for _, w in mon_result_dropped(case, obs)]


def mon_C01_foreign_loss(case, obs):
    return [('C01:job-failed-for-a-worker-that-never-accepted-it', w) for s_, w in mon_known_C04(case, obs)
            if s_ == 'C04:job-marked-lost-for-a-worker-that-never-accepted-it']


def mon_C01_lost_unresolved(case, obs):
    """every submitted job resolves: a job whose worker exited is failed once its grace period is over"""
    return [('C01:job-of-exited-worker-never-resolved', w) for s_, w in mon_C04(case, obs) if s_ == 'C04:loss-not-reported-in-time']


def mon_C01_unresolved(case, obs):
    return [('C01:job-unresolved-past-hard-limit', w) for s_, w in mon_C05_jobs(case, obs) if s_ == 'C05:not-timed-out-by-scan']


SWEEPS = dict(C01=lambda: sweep_loss()[::3] + sweep_limits()[::3] + sweep_terminate_job() + sweep_late_result()[::2] + sweep_two_handles() + sweep_shutdown_loss(), C04=lambda: sweep_loss() + sweep_terminate_job() + sweep_shutdown_loss() + sweep_late_result() + sweep_two_handles() + sweep_drain_loop() + sweep_raising_accept_loss(), C05=sweep_limits, C06=sweep_limits,
              C07=lambda: sweep_close_in_pass() + sweep_shutdown_loss() + sweep_empty_after() + sweep_drain_loop()[::2],
              C08=lambda: sweep_loss()[::6] + sweep_terminate_job()[::2] + sweep_close_in_pass()[::3], C09=lambda: sweep_loss()[::6] + sweep_resize() + sweep_close_in_pass()[::2] + sweep_grow_budget(), C11=sweep_grow_budget,
              C10=lambda: sweep_resize() + sweep_timeout_slots())


def pool_check(res, pid, n, focus=None, cfg=None, length=(5, 45), extra_cases=()):
    """corpus + state-aware random histories: implementation vs proved model, plus the
    property monitors on the implementation traces"""
    rng = random.Random(res.seed * 65537 + sum(map(ord, pid)))
    corpus = json.load(open(core.VERIF + '/corpus/pool.json'))
    reqs = [dict(cfg=c['cfg'], events=c['events']) for c in corpus] + list(extra_cases)
    sweep = SWEEPS.get(pid)
    nsweep = 0
    if sweep:
        sw = sweep()
        nsweep = len(sw)
        reqs += sw
    reqs += gen_requests(rng, n, length=length, focus=focus, cfg=cfg)
    outs = []
    for part in core.chunks(reqs, 400):
        outs += run_impl(part, timeout=600)
    cases = [dict(cfg=r['cfg'], events=o['events']) for r, o in zip(reqs, outs)]
    terms = [case_coq(c, o['obs']) for c, o in zip(cases, outs)]
    codes, _ = core.coq_eval(pid + 'pool', HEADER, core.chunks(terms, 60), timeout=900)
    hist = {}
    distinct = set()
    for c in cases:
        kinds = set()
        for e in c['events']:
            hist[e[0]] = hist.get(e[0], 0) + 1
            kinds.add(e[0])
        if len(kinds) >= 4:
            distinct.add(json.dumps(c['events']))
    nalarm = 0
    for c, o in zip(cases, outs):
        for mon in MONITORS.get(pid, []):
            for sig, what in mon(c, o['obs']):
                nalarm += 1
                if nalarm <= 50:
                    res.alarms.append(dict(signature=sig, what=what, replay=dict(case=c, kind='pool-history')))
    # shrink the first alarm of every signature that is not a recorded finding
    known = {k['signature'] for k in core.load_known() if k.get('status') == 'known'}
    done = set()
    for a in res.alarms:
        sig = a['signature']
        if sig in known or sig in done or a['replay'].get('kind') != 'pool-history':
            continue
        done.add(sig)
        small = shrink_history(pid, a['replay']['case'], sig)
        if small is not None:
            a['replay'] = dict(case=small, kind='pool-history', shrunk_from=len(a['replay']['case']['events']))
            a['what'] += '   [minimised history: %s]' % json.dumps(small['events'])
    for i, code in codes:
        k = code - 1000
        c = cases[i]
        res.broken.append(dict(kind='correspondence',
                               name='Model/Pool.v vs billiard.pool at event %d %s' % (k, c['events'][k] if 0 <= k < len(c['events']) else '?'),
                               detail=json.dumps(dict(cfg=c['cfg'], events=c['events'][:k + 1]))))
        if len(res.broken) > 20:
            break
    res.add_cov(evaluations=len(cases), distinct=len(distinct), traces=len(cases),
                samples=[dict(cfg=cases[-1]['cfg'], events=cases[-1]['events'][:12], first_obs=outs[-1]['obs'][0])],
                rule='corpus of defect witnesses + state-aware random pool histories (harness/pool_gen.py) driven through the '
                     'real parent-side code with fake processes and a fake clock; every observation compared with the proved '
                     'model inside Coq; property monitors on the implementation trace; non-trivial = at least 4 distinct event kinds',
                event_histogram=hist, events_total=sum(hist.values()), model_mismatches=len(codes),
                systematic_sweep_histories=nsweep, corpus_histories=len(corpus))
    return cases, outs


HEADER_SYS = '''From Coq Require Import ZArith List Bool.
From BV Require Import Lib.Cases Model.Pool Model.PoolSys.
Import ListNotations. Open Scope Z_scope.
Definition check_case := PoolSys.check_sys_case.'''


def sstep_coq(st):
    k = st[0]
    if k == 'submit':
        return 'SSubmit'
    if k == 'put':
        return 'SPut'
    if k == 'take':
        return '(STake %d%%nat)' % st[1]
    if k == 'finish':
        return '(SFinish %d%%nat)' % st[1]
    if k == 'close':
        return 'SClose'
    return 'SRecv'


def closed_check(res, pid, n):
    """the closed crash-free composition (coq/Model/PoolSys.v; completion and slot conservation
    are proved of it in Props/C01.v and Props/C10.v): random schedules of client, task queue,
    pipe, workers and result pipe with the REAL parent-side code as the parent; the model must
    allow every step the implementation took, agree on being stuck, and agree on every
    observation.  At the end of every maximal schedule the implementation must show what the
    theorem says: every job resolved with its own value, one success callback, all slots back."""
    rng = random.Random(res.seed * 104729 + sum(map(ord, pid)))
    reqs = []
    for k in range(n):
        cfg = dict(n=rng.choice([1, 2, 2, 3, 4]), putlocks=rng.random() < 0.7)
        spec = dict(seed=rng.randrange(1 << 30), n=rng.choice([0, 1, 2, 3, 5, 8, 12]))
        if rng.random() < 0.25:
            spec['stop_after'] = rng.randrange(0, 6 * spec['n'] + 1)
        if rng.random() < 0.5:
            spec['bad'] = sorted(rng.sample(range(spec['n']), rng.randrange(0, spec['n'] + 1))) if spec['n'] else []
        if rng.random() < 0.6:
            spec['may_close'] = True
            spec['close_early'] = rng.choice([0.0, 0.02, 0.1])
        reqs.append(dict(cfg=cfg, closed=spec))
    outs = []
    for part in core.chunks(reqs, 200):
        outs += run_impl(part, timeout=600)
    terms = []
    steps = 0
    nmax = 0
    for r, o in zip(reqs, outs):
        steps += len(o['sched'])
        nmax += bool(o['maximal'])
        terms.append('(%s, %d%%nat, %s, %s, %s, %s, %s)' % (
            cfg_coq(r['cfg']), r['closed']['n'], clist(r['closed'].get('bad', []), cz), clist(o['sched'], sstep_coq), clist(o['events'], ev_coq),
            clist(o['obs'], obs_coq), cbool(o['maximal'])))
        if o['maximal']:
            last = o['obs'][-1] if o['obs'] else None
            bad = []
            if last is not None:
                accepted = sum(1 for e, ob in zip(o['events'], o['obs']) if e[0] == 'apply' and ob['ret'] is None and not ob['exc'])
                if len(last['jobs']) != accepted or (last['state'] == 0 and accepted != r['closed']['n']):
                    bad.append('%d jobs exist, %d calls were accepted, %d made' % (len(last['jobs']), accepted, r['closed']['n']))
                for k, j in enumerate(last['jobs']):
                    isbad = k in r['closed'].get('bad', ())
                    if not j['ready'] or j['val'] != (['exc', k] if isbad else ['ok', k]) or j['cb'][0] != (0 if isbad else 1) or j['cb'][1] != (1 if isbad else 0):
                        bad.append('job %d: ready=%s value=%s callbacks=%s' % (k, j['ready'], j['val'], j['cb'][:2]))
                if r['cfg']['putlocks'] and last['state'] == 0 and last['sem'][0] != last['sem'][1]:
                    bad.append('slots free %s of %s' % (last['sem'][0], last['sem'][1]))
            elif r['closed']['n']:
                bad.append('nothing happened')
            for b in bad[:3]:
                sig = 'C10:slots-not-all-back-when-nothing-failed' if b.startswith('slots') else 'C01:job-unresolved-when-nothing-failed'
                res.alarms.append(dict(signature=sig, what='closed system, maximal schedule: ' + b,
                                       replay=dict(kind='pool-closed', cfg=r['cfg'], closed=r['closed'], sched=o['sched'], events=o['events'])))
    codes, _ = core.coq_eval(pid + 'sys', HEADER_SYS, core.chunks(terms, 60), timeout=900)
    for i, code in codes:
        r, o = reqs[i], outs[i]
        what = {7001: 'the implementation took a step that is not enabled in the model',
                7002: 'the parent events issued differ from the model\'s for this schedule',
                7003: 'the implementation is stuck where the model can still move',
                7004: 'the model is at its end where the implementation can still move'}.get(code, 'observation differs at event %d' % (code - 1000))
        res.broken.append(dict(kind='correspondence', name='Model/PoolSys.v vs billiard.pool (closed system): ' + what,
                               detail=json.dumps(dict(cfg=r['cfg'], closed=r['closed'], sched=o['sched'], events=o['events']))[:3000]))
        if len(res.broken) > 20:
            break
    res.add_cov(closed_system_schedules=len(reqs), closed_system_steps=steps, closed_system_maximal=nmax,
                closed_system_mismatches=len(codes))


HEADER_CRASH = '''From Coq Require Import ZArith List Bool.
From BV Require Import Lib.Cases Model.Pool Model.PoolSys Model.PoolCrash.
Import ListNotations. Open Scope Z_scope.
Definition check_case := PoolCrash.check_crash_case.'''


def cstep_coq(st):
    k = st[0]
    if k == 'submit':
        return 'CSubmit'
    if k == 'put':
        return 'CPut'
    if k == 'take':
        return '(CTake %s)' % cz(st[1])
    if k == 'finish':
        return '(CFinish %s)' % cz(st[1])
    if k == 'recv':
        return 'CRecv'
    if k == 'kill':
        return '(CKill %s %s)' % (cz(st[1]), cz(st[2]))
    if k == 'tick':
        return 'CTick'
    if k == 'tick_early':
        return 'CTickEarly'
    if k == 'advance':
        return '(CAdvance %s)' % cz(st[1])
    raise ValueError(st)


def crash_closed_check(res, prop, n, allow_early=True):
    """the closed composition WITH WORKER CRASHES (coq/Model/PoolCrash.v; invariant, liveness and
    timing are proved of it in Proofs/PoolCrashProofs.v): random schedules of client, task queue,
    pipe, live workers, result pipe, kills of executing workers, supervision passes and clock
    advances, with the REAL parent-side code as the parent (fake processes of pool_driver).  The
    model must allow every step the implementation took, issue the same parent events, agree on
    whether anything is left to do, and agree on every observation
    (signature `<prop>:crash-closed-system-differs`).  Property monitors on the implementation's own
    observations: a job of a killed worker unresolved at a complete end, or stuck with nothing
    useful left to do (without an early pass: a violation; after an early pass: the recorded
    finding C04:owner-gone-but-no-marker); a job of a worker that was not killed failed as lost;
    a lost job reported with the wrong exit status or job id; slots / pool size not restored."""
    rng = random.Random(res.seed * 7919 + sum(map(ord, prop)) + 17)
    reqs = []
    for k in range(n):
        cfg = dict(n=rng.choice([1, 2, 2, 3, 4]), putlocks=rng.random() < 0.7,
                   lost=rng.choice([None, 1, 3, 3]))
        nj = rng.choice([1, 2, 3, 5, 8])
        spec = dict(seed=rng.randrange(1 << 30), n=nj, kills=rng.choice([0, 1, 1, 2, 3, 5]),
                    kill_prob=rng.choice([0.2, 0.5, 0.9]), early=allow_early and rng.random() < 0.3,
                    idle_prob=rng.choice([0.0, 0.03, 0.08]), stop_after=rng.choice([60, 150, 400, 400]))
        if rng.random() < 0.4:
            spec['bad'] = sorted(rng.sample(range(nj), rng.randrange(0, nj + 1)))
        reqs.append(dict(cfg=cfg, crash=spec))
    outs = []
    for part in core.chunks(reqs, 200):
        outs += run_impl(part, timeout=600)
    terms = []
    steps = nmax = nkills = nearly = ndoomed = 0

    def alarm(sig, what, r, o):
        res.alarms.append(dict(signature=sig, what='closed system with crashes: ' + what,
                               replay=dict(kind='pool-closed', cfg=r['cfg'], crash=r['crash'], sched=o['sched'],
                                           events=o['events'])))

    for r, o in zip(reqs, outs):
        sp = r['crash']
        steps += len(o['sched'])
        nmax += bool(o['maximal'])
        early = any(st[0] == 'tick_early' for st in o['sched'])
        nearly += early
        ndoomed += bool(o['doomed'])
        killed = dict((j, (ref, code)) for j, ref, code in o['killed'])
        nkills += len(killed)
        terms.append('((%s, %d%%nat, %s, %d%%nat, %s, %s, %s, %s) : PoolCrash.crash_case)' % (
            cfg_coq(r['cfg']), sp['n'], clist(sp.get('bad', []), cz), sp.get('kills', 0),
            clist(o['sched'], cstep_coq), clist(o['events'], ev_coq), clist(o['obs'], obs_coq), cbool(o['maximal'])))
        # ---- monitors (schedules WITHOUT an early pass: what the theorems promise)
        last = o['obs'][-1] if o['obs'] else None
        if o['doomed']:
            stuck = [k for k in killed if last is not None and k < len(last['jobs']) and not last['jobs'][k]['ready']]
            alarm(prop + ':owner-gone-but-no-marker' if early else prop + ':job-of-killed-worker-never-resolved',
                  'jobs %s of killed workers are unresolved and no pass or wait can change that%s' % (
                      stuck, ' (a pass overtook the result handler)' if early else ''), r, o)
        if early:
            continue
        seen = set()
        for ob in o['obs']:
            for k, j in enumerate(ob['jobs']):
                if k in seen or not j['ready'] or not j['val'] or j['val'][0] != 'lost':
                    continue
                seen.add(k)
                if k not in killed:
                    alarm(prop + ':job-of-live-worker-failed-as-lost',
                          'job %d is reported lost (%s) but its worker was never killed' % (k, j['val']), r, o)
                elif j['val'][1] != killed[k][1] or j['val'][2] != k:
                    alarm(prop + ':lost-job-reported-with-wrong-exit-status',
                          'job %d of worker %d (exit status %s) is reported as %s' % (k, killed[k][0], killed[k][1], j['val']), r, o)
        if o['maximal'] and last is not None:
            bad = []
            if len(last['jobs']) != sp['n']:
                bad.append('%d jobs exist, %d calls made' % (len(last['jobs']), sp['n']))
            for k, j in enumerate(last['jobs']):
                if not j['ready']:
                    bad.append('job %d%s is unresolved at a complete end' % (k, ' (of killed worker %d)' % killed[k][0] if k in killed else ''))
                elif k in killed:
                    if j['val'] != ['lost', killed[k][1], k] or j['cb'][0] != 0 or j['cb'][1] != 1:
                        bad.append('job %d of killed worker: value %s callbacks %s' % (k, j['val'], j['cb'][:2]))
                else:
                    isbad = k in sp.get('bad', ())
                    if j['val'] != (['exc', k] if isbad else ['ok', k]) or j['cb'][0] != (0 if isbad else 1) or j['cb'][1] != (1 if isbad else 0):
                        bad.append('job %d: value %s callbacks %s' % (k, j['val'], j['cb'][:2]))
            if len(last['workers']) != r['cfg']['n']:
                bad.append('%d workers for size %d' % (len(last['workers']), r['cfg']['n']))
            if r['cfg']['putlocks'] and last['sem'][0] != last['sem'][1]:
                bad.append('slots free %s of %s' % (last['sem'][0], last['sem'][1]))
            for b_ in bad[:3]:
                sig = (prop + ':job-of-killed-worker-never-resolved' if 'of killed worker' in b_ and 'unresolved' in b_
                       else prop + ':crash-closed-end-not-complete')
                alarm(sig, 'complete end: ' + b_, r, o)
    codes, _ = core.coq_eval(prop + 'crash', HEADER_CRASH, core.chunks(terms, 20), timeout=900)
    for i, code in codes:
        r, o = reqs[i], outs[i]
        what = {7001: 'the implementation took a step that is not enabled in the model',
                7002: 'the parent events issued differ from the model\'s for this schedule',
                7003: 'the implementation has nothing left to do where the model has work left',
                7004: 'the model has no work left where the implementation can still move'}.get(code, 'observation differs at event %d' % (code - 1000))
        alarm(prop + ':crash-closed-system-differs', 'Model/PoolCrash.v vs billiard.pool: ' + what, r, o)
        if len(res.alarms) > 20:
            break
    res.add_cov(crash_closed_schedules=len(reqs), crash_closed_steps=steps, crash_closed_complete=nmax,
                crash_closed_kills=nkills, crash_closed_with_early_pass=nearly, crash_closed_doomed=ndoomed,
                crash_closed_mismatches=len(codes))


HEADER_LIMIT = '''From Coq Require Import ZArith List Bool.
From BV Require Import Lib.Cases Model.Pool Model.PoolSys Model.PoolCrash Model.PoolLimit.
Import ListNotations. Open Scope Z_scope.
Definition check_case := PoolLimit.check_limit_case.'''


def lstep_coq(st):
    k = st[0]
    if k == 'submit':
        return 'LSubmit'
    if k == 'put':
        return 'LPut'
    if k == 'take':
        return '(LTake %s)' % cz(st[1])
    if k == 'finish':
        return '(LFinish %s)' % cz(st[1])
    if k == 'recv':
        return 'LRecv'
    if k == 'scan':
        return '(LScan %s)' % cbool(st[1])
    if k == 'scan_racy':
        return '(LScanRacy %s)' % cbool(st[1])
    if k == 'tick':
        return 'LTick'
    if k == 'advance':
        return '(LAdvance %s)' % cz(st[1])
    raise ValueError(st)


def limit_closed_check(res, prop, n, allow_racy=True):
    """the closed composition WITH HARD TIME LIMITS (coq/Model/PoolLimit.v; invariant, exactness of
    the scan, liveness are proved of it in Proofs/PoolLimitProofs.v): random schedules of client
    (every call with its own limit or none), queues, live workers, result pipe, passes of the REAL
    timeout handler (lingering or not), supervision passes and clock advances, pool sizes from one,
    with the real parent-side code as the parent.  The model must allow every step, issue the same
    parent events, agree on whether anything is left to do and on every observation
    (`<prop>:limit-closed-system-differs`).  Monitors on the implementation's own observations, for
    schedules without a racy scan: an overdue accepted job a scan did not fail; a job timed out by
    something that is not a scan, before its limit, without a limit, or with a limit that is not its
    own; signals other than TERM (+KILL iff lingering) to the owners of the jobs just failed; pool not
    at its size after a pass; a complete end with a job unresolved / with the wrong outcome, a slot
    missing or the pool not at its size.  Schedules with a racy scan (allow_racy) are only compared
    with the model; what the racy scan costs is counted in the coverage (limit_closed_racy_*)."""
    rng = random.Random(res.seed * 6151 + sum(map(ord, prop)) + 29)
    reqs = []
    for k in range(n):
        hard = rng.choice([None, None, 3, 6])
        cfg = dict(n=rng.choice([1, 1, 2, 2, 3]), putlocks=rng.random() < 0.7, hard=hard,
                   enable_timeouts=(hard is None and rng.random() < 0.8), lost=rng.choice([None, 3]))
        nj = rng.choice([1, 2, 3, 5, 8])
        spec = dict(seed=rng.randrange(1 << 30), lims=[rng.choice([None, None, 2, 4, 7, 0]) for _ in range(nj)],
                    racy=allow_racy and rng.random() < 0.3, idle_prob=rng.choice([0.0, 0.03, 0.08]),
                    scan_prob=rng.choice([0.3, 0.7, 1.0]), adv_prob=rng.choice([0.2, 0.5, 0.8]),
                    stop_after=rng.choice([60, 150, 400, 400]))
        if rng.random() < 0.3:
            spec['bad'] = sorted(rng.sample(range(nj), rng.randrange(0, nj + 1)))
        reqs.append(dict(cfg=cfg, limit=spec))
    outs = []
    for part in core.chunks(reqs, 200):
        outs += run_impl(part, timeout=600)
    terms = []
    steps = nmax = nscans = ntl = nracy = nleak = ninnocent = 0

    def alarm(sig, what, r, o):
        res.alarms.append(dict(signature=sig, what='closed system with hard limits: ' + what,
                               replay=dict(kind='pool-closed', cfg=r['cfg'], limit=r['limit'], sched=o['sched'],
                                           events=o['events'])))

    for r, o in zip(reqs, outs):
        sp = r['limit']
        cfg = r['cfg']
        steps += len(o['sched'])
        nmax += bool(o['maximal'])
        nracy += bool(o['racy'])
        nscans += len(o['marks'])
        terms.append('((%s, %s, %s, %s, %s, %s, %s) : PoolLimit.limit_case)' % (
            cfg_coq(cfg), clist(sp['lims'], copt), clist(sp.get('bad', []), cz),
            clist(o['sched'], lstep_coq), clist(o['events'], ev_coq), clist(o['obs'], obs_coq), cbool(o['maximal'])))
        eff = [(h or cfg['hard']) for h in sp['lims']]
        last = o['obs'][-1] if o['obs'] else None
        timed = set(k for k, j in enumerate(last['jobs']) if j['val'] and j['val'][0] == 'timelimit') if last else set()
        ntl += len(timed)
        if o['racy']:
            if o['maximal'] and last is not None:
                leak = bool(cfg['putlocks'] and last['sem'][0] != last['sem'][1])
                nleak += leak
                ninnocent += sum(1 for j in last['jobs'] if j['val'] and j['val'][0] == 'lost')
                if leak:
                    # the recorded defect (one slot back per reaped worker, whatever it held)
                    alarm('C10:slot-leaked-when-a-reaped-worker-held-two-jobs',
                          'after a racy scan (the worker it killed had finished the overdue job and gone on to the next one) the quiet end has %d of %d slots free'
                          % (last['sem'][0], last['sem'][1]), r, o)
            continue
        # ---- monitors (schedules without a racy scan: what the theorems promise)
        scan_at = dict((m[0], m) for m in o['marks'])
        seen = set()
        for i, ob in enumerate(o['obs']):
            m = scan_at.get(i)
            for k, j in enumerate(ob['jobs']):
                if j['val'] and j['val'][0] == 'timelimit' and k not in seen:
                    seen.add(k)
                    if m is None or k not in [d[0] for d in m[2]]:
                        alarm(prop + ':job-timed-out-early-or-without-limit',
                              'job %d (limit %s, pool default %s) is failed with TimeLimitExceeded by event %d %s' % (
                                  k, sp['lims'][k], cfg['hard'], i, o['events'][i]), r, o)
                    elif j['val'][1] != eff[k] or j['cb'][1] != 1 or j['cb'][0] != 0:
                        alarm(prop + ':time-limit-error-names-wrong-limit',
                              'job %d (own limit %s, default %s) reports %s callbacks %s' % (k, sp['lims'][k], cfg['hard'], j['val'], j['cb'][:2]), r, o)
                if j['val'] and j['val'][0] == 'lost':
                    alarm(prop + ':job-lost-without-crash', 'job %d is reported lost (%s): nobody crashed' % (k, j['val']), r, o)
            if m is not None:
                lingers = bool(o['events'][i][1])
                for k, owner in m[2]:
                    j = ob['jobs'][k]
                    if not (j['ready'] and j['val'] and j['val'][0] == 'timelimit'):
                        alarm(prop + ':overdue-job-not-failed-by-scan',
                              'job %d (accepted, limit %s elapsed at %s) is left as %s by the scan at event %d' % (k, eff[k], m[4], j['val'], i), r, o)
                want = []
                for k, owner in m[2]:
                    want.append([owner, 15])
                    if lingers:
                        want.append([owner, 9])
                if ob['sigs'] != want:
                    alarm(prop + ':scan-signals-wrong-worker',
                          'scan at event %d (overdue jobs and owners %s, lingers=%s) sent %s' % (i, m[2], lingers, ob['sigs']), r, o)
            elif ob['sigs']:
                alarm(prop + ':scan-signals-wrong-worker', 'event %d %s sent signals %s' % (i, o['events'][i], ob['sigs']), r, o)
            if o['events'][i][0] == 'tick' and len(ob['workers']) != cfg['n']:
                alarm(prop + ':pool-not-at-size-after-pass', '%d workers for size %d after the pass at event %d' % (len(ob['workers']), cfg['n'], i), r, o)
        if o['maximal'] and last is not None:
            bad = []
            if len(last['jobs']) != len(sp['lims']):
                bad.append('%d jobs exist, %d calls made' % (len(last['jobs']), len(sp['lims'])))
            for k, j in enumerate(last['jobs']):
                if not j['ready']:
                    bad.append('job %d is unresolved at a complete end (later job not served)' % k)
                elif k in timed:
                    if j['val'] != ['timelimit', eff[k]]:
                        bad.append('job %d: %s for limit %s' % (k, j['val'], eff[k]))
                else:
                    isbad = k in sp.get('bad', ())
                    if j['val'] != (['exc', k] if isbad else ['ok', k]) or j['cb'][0] != (0 if isbad else 1) or j['cb'][1] != (1 if isbad else 0):
                        bad.append('job %d: value %s callbacks %s' % (k, j['val'], j['cb'][:2]))
            if len(last['workers']) != cfg['n']:
                bad.append('%d workers for size %d' % (len(last['workers']), cfg['n']))
            if cfg['putlocks'] and last['sem'][0] != last['sem'][1]:
                bad.append('slots free %s of %s' % (last['sem'][0], last['sem'][1]))
            for b_ in bad[:3]:
                alarm(prop + ':limit-closed-end-not-complete', 'complete end: ' + b_, r, o)
    codes, _ = core.coq_eval(prop + 'limit', HEADER_LIMIT, core.chunks(terms, 20), timeout=900)
    for i, code in codes:
        r, o = reqs[i], outs[i]
        what = {7001: 'the implementation took a step that is not enabled in the model',
                7002: 'the parent events issued differ from the model\'s for this schedule',
                7003: 'the implementation has nothing left to do where the model has',
                7004: 'the model has nothing left to do where the implementation has'}.get(code, 'observation differs at event %d' % (code - 1000))
        alarm(prop + ':limit-closed-system-differs', 'Model/PoolLimit.v vs billiard.pool: ' + what, r, o)
        if len(res.alarms) > 20:
            break
    res.add_cov(limit_closed_schedules=len(reqs), limit_closed_steps=steps, limit_closed_complete=nmax,
                limit_closed_scans=nscans, limit_closed_timed_out_jobs=ntl, limit_closed_with_racy_scan=nracy,
                limit_closed_racy_slot_leaks=nleak, limit_closed_racy_innocent_jobs_lost=ninnocent,
                limit_closed_mismatches=len(codes))


HEADER_PARTS = '''From Coq Require Import ZArith List Bool.
From BV Require Import Lib.Cases Model.Pool Model.PoolSys Model.PoolParts.
Import ListNotations. Open Scope Z_scope.
Definition check_case := PoolParts.check_parts_case.'''


def pstep_coq(st):
    k = st[0]
    if k == 'submit':
        return 'PSubmit'
    if k == 'feed':
        return 'PFeed'
    if k == 'take':
        return '(PTake %d%%nat)' % st[1]
    if k == 'finish':
        return '(PFinish %d%%nat)' % st[1]
    if k == 'recv':
        return 'PRecv'
    if k == 'next':
        return '(PNext %s)' % cz(st[1])
    raise ValueError(st)


def pcall_coq(c):
    if c[0] == 'apply':
        return 'CApply'
    if c[0] == 'map':
        return '(CMap %d%%nat %d%%nat)' % (c[1], c[2])
    if c[0] == 'imap':
        return '(CIMap %d%%nat)' % c[1]
    return '(CIMapU %d%%nat)' % c[1]


def parts_closed_check(res, prop, n):
    """the crash-free closed composition for MULTI-PART jobs (coq/Model/PoolParts.v): random calls
    (apply / map_async with a chunk size / imap / imap_unordered, some parts raising), one pass of
    the REAL task handler at a time, workers taking the parts in pipe order and completing them in
    any order, the real result handler, a consumer calling next() whenever it would not block.
    The model must allow every step, issue the same parent events, agree on being finished and on
    every observation (`<prop>:parts-closed-system-differs`).  Monitors on the implementation's
    own observations: a map job's value is not the list a sequential map gives / resolves before
    its last part / callbacks not exactly once / does not fail with the first failing part handled;
    imap does not yield the items in input order with the error at the failing item's position;
    imap_unordered does not yield the multiset in arrival order; StopIteration before all items;
    a complete end with something unresolved or an iterator not drained."""
    rng = random.Random(res.seed * 9973 + sum(map(ord, prop)) + 41)
    reqs = []
    for k in range(n):
        cfg = dict(n=rng.choice([1, 2, 2, 3, 4]), putlocks=rng.random() < 0.3)
        calls = []
        for _ in range(rng.choice([1, 1, 2, 3, 4])):
            kind = rng.choice(['apply', 'map', 'map', 'imap', 'imap', 'imapu'])
            if kind == 'apply':
                calls.append(['apply'])
            elif kind == 'map':
                calls.append(['map', rng.choice([0, 1, 2, 3, 5, 7]), rng.choice([1, 1, 2, 3])])
            else:
                calls.append([kind, rng.choice([0, 1, 2, 3, 5])])
        bad = []
        if rng.random() < 0.5:
            for j, c in enumerate(calls):
                if c[0] == 'apply':
                    np_ = 1
                elif c[0] == 'map':
                    np_ = 0 if c[1] == 0 else (c[1] + c[2] - 1) // c[2]
                else:
                    np_ = c[1]
                for i in range(np_):
                    if rng.random() < 0.25:
                        bad.append([j, None if c[0] == 'apply' else i])
        spec = dict(seed=rng.randrange(1 << 30), calls=calls, bad=bad, stop_after=rng.choice([40, 150, 600, 600]))
        reqs.append(dict(cfg=cfg, parts=spec))
    outs = []
    for part in core.chunks(reqs, 200):
        outs += run_impl(part, timeout=600)
    terms = []
    steps = nmax = nparts = nnext = 0

    def alarm(sig, what, r, o):
        res.alarms.append(dict(signature=sig, what='closed system with multi-part jobs: ' + what,
                               replay=dict(kind='pool-closed', cfg=r['cfg'], parts=r['parts'], sched=o['sched'],
                                           events=o['events'])))

    def cpart(b):
        return '(%s, %s)' % (cz(b[0]), copt(b[1]))

    for r, o in zip(reqs, outs):
        sp = r['parts']
        calls = sp['calls']
        bad = set((b[0], b[1]) for b in sp['bad'])
        steps += len(o['sched'])
        nmax += bool(o['maximal'])
        nnext += len(o['nexts'])
        terms.append('((%s, %s, %s, %s, %s, %s, %s) : PoolParts.parts_case)' % (
            cfg_coq(r['cfg']), clist(calls, pcall_coq), clist(sp['bad'], cpart),
            clist(o['sched'], pstep_coq), clist(o['events'], ev_coq), clist(o['obs'], obs_coq), cbool(o['maximal'])))
        # ---- monitors
        handled = {}                       # job -> list of (index, ok) in the order the parent handled them
        first_ready = {}                   # job -> index of the event after which it was first seen ready
        for i, (e, ob) in enumerate(zip(o['events'], o['obs'])):
            if e[0] == 'ready':
                handled.setdefault(e[1], []).append((e[2], bool(e[3])))
                nparts += 1
            for k, j in enumerate(ob['jobs']):
                if j['ready'] and k not in first_ready:
                    first_ready[k] = i
        last = o['obs'][-1] if o['obs'] else None
        for k, c in enumerate(calls):
            if last is None or k >= len(last['jobs']):
                continue
            j = last['jobs'][k]
            hd = handled.get(k, [])
            if c[0] == 'map':
                n_, cs = c[1], c[2]
                nc = 0 if n_ == 0 else (n_ + cs - 1) // cs
                fails = [ix for ix, ok in hd if not ok]
                if j['ready']:
                    # when did it resolve: with the first failing part handled, else with the last part
                    seen = 0
                    want_at = None
                    for i, e in enumerate(o['events']):
                        if e[0] == 'ready' and e[1] == k:
                            seen += 1
                            if not e[3] or seen == nc:
                                want_at = i
                                break
                    if nc and first_ready.get(k) != want_at:
                        alarm(prop + ':map-job-resolved-at-the-wrong-moment',
                              'map job %d (%d parts) is ready after event %s, expected after event %s' % (k, nc, first_ready.get(k), want_at), r, o)
                    if fails:
                        if j['val'] != ['exc', k * 100 + fails[0]] or j['cb'][:2] != [0, 1]:
                            alarm(prop + ':map-failure-not-the-first-failing-part',
                                  'map job %d: first failing part handled %d, job shows %s callbacks %s' % (k, fails[0], j['val'], j['cb'][:2]), r, o)
                    else:
                        want = []
                        for ix in range(nc):
                            want += [k * 100 + ix] * max(0, min(cs, n_ - ix * cs))
                        if j['val'] != ['ok', want] or j['cb'][:2] != [(1 if nc else 0), 0]:      # an empty map is born resolved: no callback (C01_empty_map)
                            alarm(prop + ':map-value-not-the-sequential-list',
                                  'map job %d (n=%d chunk %d, parts handled in order %s): value %s callbacks %s, sequential %s' % (
                                      k, n_, cs, [ix for ix, _ in hd], j['val'], j['cb'][:2], want), r, o)
                elif o['maximal']:
                    alarm(prop + ':job-unresolved-when-nothing-failed', 'map job %d unresolved at a complete end' % k, r, o)
            elif c[0] in ('imap', 'imapu'):
                got = [x[1] for x in o['nexts'] if x[0] == k]
                body = [g for g in got if g and g[0] != 'stop']
                if c[0] == 'imap':
                    want = [(['item', k * 100 + ix] if (k, ix) not in bad else ['raised', ['exc', k * 100 + ix]]) for ix in range(c[1])]
                    if body != want[:len(body)]:
                        alarm(prop + ':imap-items-out-of-input-order', 'imap job %d yielded %s, input order is %s' % (k, body, want), r, o)
                else:
                    arrival = [(['item', k * 100 + ix] if ok else ['raised', ['exc', k * 100 + ix]]) for ix, ok in hd]
                    if body != arrival[:len(body)]:
                        alarm(prop + ':imap-unordered-not-the-multiset-in-arrival-order',
                              'imap_unordered job %d yielded %s, arrival order is %s' % (k, body, arrival), r, o)
                if ['stop'] in got and (got.index(['stop']) != c[1] or len(got) != c[1] + 1):
                    alarm(prop + ':stop-iteration-before-all-items', 'iterator %d (%d items) returned %s' % (k, c[1], got), r, o)
                if o['maximal'] and got[-1:] != [['stop']]:
                    alarm(prop + ':iterator-not-drained-at-a-complete-end', 'iterator %d returned %s' % (k, got), r, o)
            else:
                if j['ready']:
                    isbad = (k, None) in bad
                    if j['val'] != (['exc', k * 100] if isbad else ['ok', k * 100]) or j['cb'][:2] != ([0, 1] if isbad else [1, 0]):
                        alarm(prop + ':apply-job-wrong-outcome', 'apply job %d: %s callbacks %s' % (k, j['val'], j['cb'][:2]), r, o)
                elif o['maximal']:
                    alarm(prop + ':job-unresolved-when-nothing-failed', 'apply job %d unresolved at a complete end' % k, r, o)
    codes, _ = core.coq_eval(prop + 'parts', HEADER_PARTS, core.chunks(terms, 20), timeout=900)
    for i, code in codes:
        r, o = reqs[i], outs[i]
        what = {7001: 'the implementation took a step that is not enabled in the model',
                7002: 'the parent events issued differ from the model\'s for this schedule',
                7003: 'the implementation has nothing left to do where the model has',
                7004: 'the model has nothing left to do where the implementation has'}.get(code, 'observation differs at event %d' % (code - 1000))
        alarm(prop + ':parts-closed-system-differs', 'Model/PoolParts.v vs billiard.pool: ' + what, r, o)
        if len(res.alarms) > 20:
            break
    res.add_cov(parts_closed_schedules=len(reqs), parts_closed_steps=steps, parts_closed_complete=nmax,
                parts_closed_parts_handled=nparts, parts_closed_next_calls=nnext, parts_closed_mismatches=len(codes))


def shrink_history(pid, case, sig, rounds=40):
    """greedy one-event-removal minimisation of a history that triggers alarm `sig` on the
    implementation (every round: all one-event-shorter candidates in ONE driver run)"""
    def fires(c, obs):
        return any(s_ == sig for mon in MONITORS.get(pid, []) for s_, _ in mon(c, obs))
    cur = dict(cfg=case['cfg'], events=list(case['events']))
    try:
        for _ in range(rounds):
            cands = []
            n = len(cur['events'])
            removals = [(i, i + 1) for i in range(n)]
            # whole scan blocks can only go as a unit
            for i in range(n):
                if cur['events'][i][0] == 'scan_begin':
                    j = next((k for k in range(i, n) if cur['events'][k][0] == 'scan_end'), None)
                    if j is not None:
                        removals.insert(0, (i, j + 1))
            for a, b in removals:
                ev = cur['events'][:a] + cur['events'][b:]
                # keep scan blocks well formed
                depth = 0
                ok = True
                for e in ev:
                    if e[0] == 'scan_begin':
                        ok = ok and depth == 0
                        depth += 1
                    elif e[0] == 'scan_end':
                        depth -= 1
                        ok = ok and depth == 0
                    elif e[0] == 'scan_step':
                        ok = ok and depth == 1
                if ok and depth == 0:
                    cands.append(dict(cfg=cur['cfg'], events=ev))
            if not cands:
                break
            outs = run_impl(cands, timeout=300)
            nxt = next((c for c, o in zip(cands, outs) if len(o['obs']) == len(c['events']) and fires(c, o['obs'])), None)
            if nxt is None:
                break
            cur = nxt
    except Exception:      # minimisation is best effort
        pass
    return cur if len(cur['events']) < len(case['events']) else None


def pool_replay(path):
    d = json.load(open(path))
    rep = d.get('replay') or {}
    c = rep.get('case')
    if rep.get('kind') == 'pool-hook-size':
        out = run_impl([dict(cfg=c['cfg'], events=c['events'])])[0]
        last = out['obs'][-1]
        free = [w for w in last['workers'] if not w[2]]
        print('configured size %s, %d workers not being stopped, %d expected' % (last['nprocs'], len(free), rep['want']))
        return 0 if len(free) == rep['want'] == last['nprocs'] else 1
    if rep.get('kind') == 'pool-hook':
        out = run_impl([dict(cfg=c['cfg'], events=c['events'])])[0]
        n_soft = 0
        for e, o in zip(out['events'], out['obs']):
            print(json.dumps(e), '->', json.dumps(dict(ret=o['ret'], exc=o['exc'], sigs=o['sigs'])))
            n_soft += sum(1 for p_, sg in o['sigs'] if sg == 10)
        want = rep.get('expect_soft', 1)
        print('soft-limit signals sent: %d (%d is right)' % (n_soft, want))
        return 0 if n_soft == want else 1
    if not c and rep.get('kind') == 'pool-closed':
        c = dict(cfg=rep['cfg'], events=rep['events'])      # the parent events of the closed-system schedule
    if not c:
        print(json.dumps(d, indent=1)[:3000])
        return 1
    out = run_impl([dict(cfg=c['cfg'], events=c['events'])])[0]
    for e, o in zip(c['events'], out['obs']):
        print(json.dumps(e), '->', json.dumps(dict(ret=o['ret'], exc=o['exc'], sigs=o['sigs'], sem=o['sem'], R=o['R'],
                                                     workers=o['workers'],
                                                     jobs=[[j['kind'], j['incache'], j['ready'], j['val'], j['lost'], j['cb']] for j in o['jobs']])))
    codes, _ = core.coq_eval('poolreplay', HEADER, [[case_coq(c, out['obs'])]])
    print('model agrees with the implementation on this history' if not codes else
          'model and implementation differ at event %d' % (codes[0][1] - 1000))
    pid = d.get('property')
    al = [a for m in MONITORS.get(pid, []) for a in m(c, out['obs'])]
    for sig, what in al:
        print('ALARM', sig, what)
    return 1 if (codes or al) else 0


# ------------------------------------------------------------------ C07 monitor (fake driver)
def mon_known_C07(case, obs):
    """D7: the consumed-result counter is credited to the first owner of a multi-part job,
    not to the worker that sent the result"""
    out = []
    sent = {}
    owner = {}
    for n, ((e, o), (acked, done)) in enumerate(zip(zip(case['events'], obs), part_books(case, obs))):
        if e[0] == 'ack' and e[2] is None:
            owner[e[1]] = e[3]
        if e[0] == 'ready' and n:
            prev = obs[n - 1]['jobs']
            if e[1] < len(prev) and prev[e[1]]['incache']:
                p = owner.get(e[1]) if e[2] is None else acked.get(e[1], {}).get(e[2])
                if p is not None:
                    sent[p] = sent.get(p, 0) + 1
        for w in o['workers']:
            if w[4] is not None and w[4] > sent.get(w[0], 0):
                out.append(('C07:result-credited-to-other-worker',
                            'worker %d is credited %d consumed results but sent %d (event %d %s)'
                            % (w[0], w[4], sent.get(w[0], 0), n, e)))
                return out
    return out


def mon_C07_closed(case, obs):
    out = []
    for n, (e, o) in enumerate(zip(case['events'], obs)):
        if n and e[0] in ('apply', 'applyq', 'apply_unsendable', 'map', 'imap', 'imapu') and obs[n - 1]['state'] != 0:
            if o['exc'] or o['ret'] not in ('Refused', 'Blocked') or len(o['jobs']) != len(obs[n - 1]['jobs']):
                out.append(('C07:job-accepted-after-close',
                            '%s offered to a pool in state %d at event %d was not refused (returned %s%s)'
                            % (e[0], obs[n - 1]['state'], n, o['ret'], ', raised ' + o['exc'] if o['exc'] else '')))
    return out


def mon_C07_owner_recorded(case, obs):
    """an acknowledged apply job records the worker that acknowledged it, whatever its accept
    callback does: the consumed-result credit (and with it a prompt exit after close()) needs it"""
    out = []
    for n, (e, o) in enumerate(zip(case['events'], obs)):
        if e[0] == 'ack' and n and not o['exc'] and e[1] < len(obs[n - 1]['jobs']):
            pj = obs[n - 1]['jobs'][e[1]]
            if pj['kind'] == 'apply' and pj['incache'] and e[1] < len(o['jobs']) and o['jobs'][e[1]]['wpids'] != [e[3]]:
                out.append(('C07:owner-not-recorded-at-acceptance',
                            'apply job %d was acknowledged by worker %d at event %d but records %s as its workers'
                            % (e[1], e[3], n, o['jobs'][e[1]]['wpids'])))
    return out


def mon_C07_started_after_close(case, obs):
    """once close() has been called the pool starts no worker: it would never be sent a sentinel"""
    out = []
    seen = set()
    for n, (e, o) in enumerate(zip(case['events'], obs)):
        refs = {w[0] for w in o['workers']}
        new = refs - seen
        if n:
            if obs[n - 1]['state'] != 0 and new:
                out.append(('C07:worker-started-after-close', 'event %d %s started worker(s) %s in a pool in state %d'
                            % (n, e, sorted(new), obs[n - 1]['state'])))
            elif e[0] == 'tick_close' and o['state'] != 0 and len(new) > e[1] + 1:
                out.append(('C07:worker-started-after-close',
                            'event %d %s: close() came from the start-up hook of worker number %d of the pass, yet %d workers were started'
                            % (n, e, e[1] + 1, len(new))))
        seen |= refs
    return out


def mon_C01_terminated(case, obs):
    """a job carries Terminated only if terminate_job() was called on the worker running IT: the
    failure of one job is never attached to another"""
    return [('C01:failure-attached-to-other-job', w) for s_, w in mon_C04(case, obs) if s_ == 'C04:terminated-without-terminate-job']


def mon_C01_unsent(case, obs):
    """a job failed because its task could not be sent has left the cache (no worker will ever
    acknowledge it), and a refused-by-exception apply_async leaves no entry behind"""
    out = [('C01:unsent-job-never-leaves-cache', w) for s_, w in mon_C10(case, obs) if s_ == 'C10:unsent-job-stays-in-cache']
    for n, (e, o) in enumerate(zip(case['events'], obs)):
        if n and e[0] == 'apply_unsendable' and o['ncache'] != obs[n - 1]['ncache']:
            out.append(('C01:unsent-job-never-leaves-cache',
                        'apply_async whose write raised at event %d left a cache entry behind (%d -> %d) for a handle the caller never got'
                        % (n, obs[n - 1]['ncache'], o['ncache'])))
    return out


MONITORS['C01'].append(mon_C01_unsent)
MONITORS['C04'].append(mon_C04_drain)
MONITORS['C04'].append(mon_C04_owner_exited)
MONITORS['C10'].append(mon_C10_quiet_end)
MONITORS['C10'].append(mon_known_C10_two_jobs)
MONITORS['C01'].append(mon_C01_result_dropped)
MONITORS['C01'].append(mon_C01_lost_unresolved)
MONITORS['C01'].append(mon_C01_foreign_loss)
MONITORS['C01'].append(mon_C01_terminated)
MONITORS['C01'].append(mon_C01_unresolved)
MONITORS['C01'].append(mon_C01_feed)
MONITORS['C07'] = [mon_known_C07, mon_C01, mon_C07_closed, mon_C07_credit, mon_C07_started_after_close, mon_C07_owner_recorded]
MONITORS['C09'].append(mon_C07_started_after_close)


def mon_C09_credit(case, obs):
    """a replacement worker's handled results are credited to it: otherwise it waits out the 30 s
    guard when it is recycled and the jobs queued behind it are held up"""
    return [('C09:replacement-worker-not-credited', w) for s_, w in mon_C07_credit(case, obs)]


MONITORS['C09'].append(mon_C09_credit)
def mon_C08_started_after_shutdown(case, obs):
    """a worker started once the pool has left the RUN state is never signalled by terminate()"""
    return [('C08:worker-started-after-shutdown-began', w) for s_, w in mon_C07_started_after_close(case, obs)]


MONITORS['C08'] = [mon_C01, mon_C08_started_after_shutdown]


def mon_C02_length(case, obs):
    """an imap / imap_unordered handle over k inputs is told length k (and nothing else), so that
    iteration ends after exactly k items, whatever was submitted before it"""
    out = []
    want = {}
    njobs = 0
    for n, (e, o) in enumerate(zip(case['events'], obs)):
        if len(o['jobs']) > njobs:
            if e[0] in ('imap', 'imapu'):
                want[njobs] = e[1]
            njobs = len(o['jobs'])
        for k, j in enumerate(o['jobs']):
            if k in want and j['kind'] in ('imap', 'imapu') and j['extra'][1] is not None and j['extra'][1] != want[k]:
                out.append(('C02:imap-told-wrong-length', 'handle %d over %d inputs was told length %s at event %d %s'
                            % (k, want[k], j['extra'][1], n, e)))
                del want[k]
        if o['exc'] == 'Hang':
            break
    return out


MONITORS['C02'] = [mon_C02_length, mon_C01_feed]


def mon_C07_wrong_length(case, obs):
    """a handle told a wrong length can never finish: a job submitted before close() stays unresolved"""
    return [('C07:handle-submitted-before-close-can-never-finish', w) for _, w in mon_C02_length(case, obs)]


MONITORS['C07'].append(mon_C07_wrong_length)


# ------------------------------------------------------------------ real-pool scenarios
def real_scenarios(res, pid, specs):
    """run real pools (harness/realpool_driver.py) and judge the outcomes"""
    outs = core.run_driver('realpool_driver.py', specs, timeout=300)
    for sp, r in zip(specs, outs):
        k = r.get('kind')

        def alarm(sig, what):
            res.alarms.append(dict(signature=sig, what=what, replay=dict(kind='real-pool-scenario', spec=sp, observed=r)))
        if r.get('hang'):
            stacks = r.get('stacks') or ''
            if k == 'terminate' and sp.get('state') == 'lock_lost' and '_stop_task_handler' in stacks and 'tell_others' in stacks:
                # the PARENT's own sentinel put found the result queue's write lock lost (the worker
                # that took it at SIGTERM is gone): a different, recorded defect -- the worker side
                # of the lost lock (D25) shows as a hang in result_handler.stop() instead
                alarm('C08:terminate-hangs-parent-put-on-lost-write-lock',
                      'scenario %s: terminate() is blocked joining the task handler, which is blocked in tell_others -> outqueue.put(None) on the lost write lock' % json.dumps(sp))
                continue
            alarm('%s:real-pool-%s-hangs' % (pid, k), 'scenario %s did not finish within its watchdog' % json.dumps(sp))
            continue
        if r.get('error'):
            alarm('%s:real-pool-%s-error' % (pid, k), r['error'])
            continue
        cen = r.get('census') or {}
        if k == 'close_join':
            if r['results'] != r['expected']:
                missing = sum(1 for x in r['results'] if x[0] == 'unresolved')
                if sp.get('maxtasks') and missing and all(a == b for a, b in zip(r['results'], r['expected']) if a[0] != 'unresolved'):
                    alarm('C07:queued-jobs-dropped-after-close',
                          'Pool(%d, maxtasksperchild=%s): %d of %d jobs submitted before close() never resolved, join() took %ss'
                          % (sp.get('n', 2), sp.get('maxtasks'), missing, len(r['results']), r['join_s']))
                else:
                    alarm('C07:results-differ-after-close', 'got %s expected %s' % (r['results'], r['expected']))
            if r.get('map') is not None and r['map'] != r['map_expected']:
                alarm('C07:map-result-differs-after-close', 'got %s' % r['map'])
            if r.get('imap') is not None and r['imap'] != r['imap_expected']:
                alarm('C07:imap-result-differs-after-close', 'got %s' % r['imap'])
            if not r['late_refused']:
                alarm('C07:job-accepted-after-close', 'apply_async after close() returned a handle')
            if r['join_s'] > 20:
                multi = 'multipart' if (sp.get('map') or sp.get('imap')) else 'apply-only'
                alarm('C07:join-waits-out-consumption-guard-' + multi, 'join() took %ss with %s' % (r['join_s'], json.dumps(sp)))
            if cen.get('workers_alive') or cen.get('supervisor') or cen.get('task_handler') or cen.get('result_handler'):
                alarm('C07:left-behind-after-join', 'census after join(): %s' % cen)
        elif k == 'restart_budget':
            if sp.get('accept_between', True):
                if r['gave_up'] or any(not e.get('replaced') for e in r['log']):
                    alarm('C11:budget-not-restored-by-acceptance',
                          'real pool (max_restarts=%s): abnormal exits with an accepted job between any two of them: %s'
                          % (sp.get('max_restarts', 3), json.dumps(r['log'])))
                elif any(e.get('R_after_job') not in (0, None) for e in r['log']):
                    alarm('C11:budget-not-restored-by-acceptance', 'restart counter after an accepted job: %s' % json.dumps(r['log']))
            else:
                admitted = sum(1 for e in r['log'] if e.get('replaced'))
                # the property: at most max_restarts replacements inside the window, the next one is not forked.
                # That the supervisor then also tells the parent to stop (SIGTERM, `gave_up`) within the
                # scenario's deadlines is not part of it (under load it arrived late once: a false alarm)
                if admitted > sp.get('max_restarts', 3) or (not r['gave_up'] and len(r['log']) <= sp.get('max_restarts', 3)):
                    alarm('C11:limit-not-enforced-on-real-pool',
                          'real pool (max_restarts=%s): %d replacements admitted without any acceptance, gave up: %s'
                          % (sp.get('max_restarts', 3), admitted, r['gave_up']))
        elif k == 'closed_system':
            if r['results'] != r['expected']:
                alarm('C01:job-unresolved-when-nothing-failed', 'real pool, nothing failed: results %s' % r['results'])
            if r['callbacks'] != [[e[1]] for e in r['expected']] or r['error_callbacks']:
                alarm('C01:callbacks-not-exactly-once-when-nothing-failed', 'callbacks %s errors %s' % (r['callbacks'], r['error_callbacks']))
            if r['slots'] is not None and r['slots'][0] != r['slots'][1]:
                alarm('C10:slots-not-all-back-when-nothing-failed', 'real pool, every job resolved: free slots %s of %s' % tuple(r['slots']))
            if r['cache_left']:
                alarm('C01:resolved-jobs-left-in-cache', '%d cache entries left' % r['cache_left'])
        elif k == 'terminate':
            if r['terminate_s'] > 15:
                alarm('C08:terminate-slow', 'terminate() took %ss' % r['terminate_s'])
            if r['second_terminate_s'] > 2:
                alarm('C08:second-terminate-slow', 'second terminate() took %ss' % r['second_terminate_s'])
            if r['done_intact'] != ['ok', 42]:
                alarm('C08:delivered-result-changed', 'result delivered before terminate(): %s' % r['done_intact'])
            late = r.get('census_late') or {}
            if any(late.get(x) for x in ('workers_alive', 'supervisor', 'task_handler', 'result_handler', 'timeout_handler')):
                alarm('C08:left-behind-after-terminate', 'census 1.5 s after terminate(): %s' % late)
            elif any(cen.get(x) for x in ('workers_alive', 'task_handler', 'result_handler', 'timeout_handler')):
                alarm('C08:left-behind-at-terminate-return', 'census when terminate() returned: %s' % cen)
            elif cen.get('supervisor'):
                alarm('C08:supervisor-outlives-terminate', 'supervisor thread still alive when terminate() returned (gone 1.5 s later)')
        elif k == 'terminate_after_signal':
            if r['terminate_s'] > 15:
                alarm('C08:terminate-slow', 'terminate() took %ss after terminate_job(pid, %s)' % (r['terminate_s'], sp.get('sig')))
            late = r.get('census_late') or {}
            if any(late.get(x) for x in ('workers_alive', 'task_handler', 'result_handler', 'supervisor')):
                alarm('C08:left-behind-after-terminate', 'census 1.5 s after terminate(): %s' % late)
        elif k == 'hard_timeout':
            if r['outcome'][:2] != ['exc', 'TimeLimitExceeded']:
                alarm('C05:real-hard-limit-not-enforced', 'outcome %s' % r['outcome'])
            elif r['failed_after_s'] > sp.get('hard', 1) + 4:
                alarm('C05:real-hard-limit-late', 'failed after %ss' % r['failed_after_s'])
            if r['old_worker_alive'] is None:
                alarm('C05:real-accept-callback-not-run', 'the accept callback never ran for the timed-out job')
            elif r['old_worker_alive']:
                alarm('C05:timed-out-worker-still-alive', 'the worker that ran the job still exists')
            if r['later'] != ['ok', 10]:
                if r.get('task_unread') is True:
                    # nobody can read the task pipe any more: the timed-out worker went back to
                    # waiting for tasks after the termination signal and was killed holding the
                    # task queue's read lock (not the recorded KILL-during-exit race, where the
                    # replacement worker does take the task and cannot answer)
                    alarm('C05:pool-unusable-after-hard-limit-task-never-read',
                          'a later job on a %d-process pool (timed-out task: %s) stays unread in the task pipe: %s'
                          % (sp.get('n', 1), sp.get('task', 'sleep'), r['later']))
                else:
                    alarm('C05:pool-unusable-after-hard-limit', 'a later job on a %d-process pool: %s' % (sp.get('n', 1), r['later']))
        elif k == 'soft_timeout':
            if r['outcome'] != ['ok', 'caught']:
                alarm('C06:real-soft-limit-not-raised-in-task', 'outcome %s' % r['outcome'])
        elif k == 'worker_lost':
            # signals billiard's own handlers catch (TERM, ABRT, ...) end the worker through an
            # exit status; only uncaught ones are reported as 'signal N'
            uncaught = sp.get('sig', 9) in (9, 11, 4, 8)
            if r['outcome'][:2] != ['exc', 'WorkerLostError'] or \
                    (uncaught and 'signal %d' % sp.get('sig', 9) not in ' '.join(r['outcome'][2])):
                alarm('C04:real-loss-not-reported', 'outcome %s' % r['outcome'])
            if (r['other'][0] != 'ok' or r['later'] != ['ok', 14]) and (r.get('diag') or {}).get('out_wlock') == 'HELD':
                # the repaired defect D28, if it is back: the exiting worker was killed by the parent's answer to
                # its DEATH message while it held the result queue's write lock
                alarm('C04:pool-wedged-write-lock-lost-by-exiting-worker',
                      'after the death of one worker (signal %s) no result of any other job arrives: the result queue write lock is held by nobody alive; %s'
                      % (sp.get('sig', 9), json.dumps(r.get('diag'))))
            elif r['other'][0] != 'ok' or r['later'] != ['ok', 14] or r['size'] != 2:
                alarm('C04:real-other-jobs-affected', 'other %s later %s size %s' % (r['other'], r['later'], r['size']))
        elif k == 'recycle':
            if r['unresolved']:
                alarm('C09:real-jobs-lost-by-recycling', '%d jobs unresolved' % r['unresolved'])
            if r['max_jobs_per_pid'] > r['quota']:
                alarm('C09:real-quota-exceeded', 'a worker ran %d jobs, quota %d' % (r['max_jobs_per_pid'], r['quota']))
    res.add_cov(evaluations=len(specs), distinct=len({json.dumps(s, sort_keys=True) for s in specs}), traces=len(specs),
                samples=[dict(spec=specs[0], observed={k: v for k, v in outs[0].items() if k != 'spec'})],
                rule='real billiard pools with real processes (one interpreter per scenario, watchdog): outcomes, wall times, '
                     'process/thread census; validates runtime assumptions, never replaces a theorem',
                real_pool_scenarios=len(specs))
    return outs
