"""C02 -- results equal the sequential computation: value, order, exception.

Tie: K_reassembly is regenerated from pool.py on every run (chunk-size arithmetic of
_map_async, MapResult.__init__/_set/_ack index arithmetic and branch structure,
IMapIterator._set/_set_length and IMapUnorderedIterator._set incl. the reorder loop, pinned
text of _get_tasks/mapstar/starmapstar/IMapIterator.next/ApplyResult.get) and proved equal
to Model.Reassembly; the real
MapResult / IMapIterator / IMapUnorderedIterator / ApplyResult / Pool._get_tasks /
Pool._map_async / Pool.imap objects are driven on generated histories and compared with the
model inside Coq.  Independently of the model, property monitors judge the implementation's
own outputs against the sequential computation."""
import json
import os
import random
from vlib import core
from vlib.core import cz, copt, clist, cbool

MANIFEST = dict(
    text='Theorems (Coq, all inputs f, l, k >= 1 and all arrival orders): the chunks of _get_tasks concatenate to the input, '
         'all but the last have length k; the default chunk size is >= 1 and gives at most 4p chunks; folding MapResult._set over '
         'ANY permutation of the chunk indices with results map f (chunk i) leaves exactly map f l, number_left reaches 0 exactly at '
         'the last chunk and the callback fires once with map f l (end to end from Pool.map\'s arguments: default or explicit chunk size, any pool size); empty input resolves at construction with []; under cache-guarded '
         'delivery the reported failure is the payload of the first failing chunk handled (a chunk of this job) and later messages '
         'change nothing; IMapIterator: for every interleaving of arrivals (each index once), next() calls and set_length(n) at any '
         'point, next() returns obj_0..obj_{n-1} in order (error items raise at their own position, iteration continues) then '
         'StopIteration, never earlier; IMapUnorderedIterator releases exactly the arrived items in arrival order; starmap/apply '
         'corollaries. imap/imap_unordered with chunksize > 1 (positive theorem): for every interleaving of chunk arrivals, set_length and next() '
         'calls the consumer of the flattening generator sees the values of the chunks before the first failing one in input order '
         '(arrival order of chunks for imap_unordered), then that chunk\'s error, then only StopIteration, and StopIteration never '
         'before all of it / before every chunk arrived and the length was announced; all chunks good and pulled enough = exactly '
         'the sequential results. Failing map: with ACKs interleaved anywhere, get() re-raises the record of chunk j = the first '
         'failing chunk handled, j < number of chunks of this job, chunk j = inputs [j*k,(j+1)*k) of this call, error callback once. '
         'Independence of handles: no mutable class attributes, per-instance containers (structural theorem) and multi-handle interleavings judged per handle. The index arithmetic and branch structure of _map_async / MapResult.__init__/_set/_ack and the bodies of '
         'IMapIterator._set/_set_length, IMapUnorderedIterator._set are regenerated from pool.py on every run and proved equal to the model. REFUTED (proved by witness, reproduced on the real code): with '
         'chunksize > 1 an error chunk ends the imap/imap_unordered generator -- the remaining items are never delivered; '
         'outside the property but documented: an explicit chunksize <= 0 makes map return [None]*n.',
    note='Trusted: Coq kernel, translate/kernels/reassembly.py (statement slicing + pykernel expression translation), PyVal '
         'semantics, CPython list slice assignment / islice / generator semantics as modelled, pickle (values cross the process '
         'boundary unchanged), callbacks do not raise. All theorems Closed under the global context.',
    technique='Coq proof over translator-regenerated kernel + differential correspondence + property monitors on implementation traces',
    ref='5.2',
)

HEADER = '''From Coq Require Import ZArith List Bool.
From BV Require Import Lib.PyVal Lib.Cases Model.Reassembly.
Import ListNotations. Open Scope Z_scope.
Definition check_case := Reassembly.check_case.'''

SIG_FLAT = 'C02:imap-chunked-error-ends-iteration'


def fval(x):
    """the function mapped by the generated scenarios (None is a legitimate value)"""
    return None if x % 7 == 3 else 10 * x + 1


# ------------------------------------------------------------------ generators
def perm(rng, m):
    order = list(range(m))
    r = rng.random()
    if r < 0.15:
        pass
    elif r < 0.3:
        order.reverse()
    else:
        rng.shuffle(order)
    return order


def pick_n(rng, small):
    r = rng.random()
    if r < 0.55:
        return rng.randint(0, small)
    if r < 0.9:
        return rng.randint(0, 40)
    return rng.randint(41, 200)


def nchunks(n, k):
    return (n + k - 1) // k


def gen_chunks(rng):
    n = pick_n(rng, 9)
    size = rng.choice([rng.randint(1, n + 2), rng.randint(1, n + 2), rng.randint(1, 4), 0, -1, n, n + 1])
    base = rng.randint(0, 5)
    return dict(t='chunks', l=list(range(base, base + n)), size=size)


def gen_star(rng):
    n = rng.randint(0, 8)
    star = rng.random() < 0.5
    c = [[rng.randint(-5, 20), rng.randint(-5, 20)] for _ in range(n)] if star else [rng.randint(-5, 40) for _ in range(n)]
    return dict(t='star', star=star, a=rng.randint(-3, 9), b=rng.randint(-3, 9), c=c)


def gen_async(rng):
    n = pick_n(rng, 20)
    p = rng.choice([1, 1, 2, 3, 4, 5, 8, 16, rng.randint(1, 16), rng.randint(1, 16), 0])
    r = rng.random()
    if r < 0.5:
        cs = None
    elif r < 0.9:
        cs = rng.randint(1, n + 2)
    else:
        cs = rng.choice([0, -1, -3])
    return dict(t='async', l=list(range(n)), cs=cs, p=p, star=rng.random() < 0.3)


def gen_map(rng):
    n = pick_n(rng, 10)
    k = rng.randint(1, n + 2) if rng.random() < 0.7 else rng.randint(1, 4)
    if n == 0 and rng.random() < 0.5:
        k = 0                    # what _map_async passes for an empty input
    m = nchunks(n, k) if k else 0
    base = rng.randint(0, 9)
    l = list(range(base, base + n))
    kind = rng.choice(['clean', 'clean', 'clean', 'fail', 'fail', 'messy'])
    d = 'd' if rng.random() < 0.5 else ''
    order = perm(rng, m)
    failing = set()
    if kind != 'clean' and m:
        failing = set(rng.sample(range(m), min(m, rng.choice([1, 1, 2, 3]))))
    ops = []
    tok = 100
    for i in order:
        if rng.random() < 0.3:
            ops.append(['ack', i])
        if i in failing:
            tok += 1
            ops.append([d + 'fail', i, tok])
        else:
            ops.append([d + 'set', i, [fval(x) for x in l[i * k:(i + 1) * k]]])
        if rng.random() < 0.3:
            ops.append(['ack', i])
        if rng.random() < 0.15:
            ops.append(['get'])
    if kind == 'messy':
        if rng.random() < 0.3:
            k = rng.choice([0, -1, -2])
        for _ in range(rng.randint(1, 4)):
            pos = rng.randint(0, len(ops))
            r = rng.random()
            i = rng.choice([rng.randint(0, m + 1), rng.randint(0, m + 1), -1, -2, -3])
            if r < 0.4:      # wrong-length / duplicate chunk
                ops.insert(pos, [rng.choice(['set', 'dset']), i,
                                 [rng.randint(0, 99) for _ in range(rng.randint(0, k + 2 if k > 0 else 2))]])
            elif r < 0.6:
                ops.insert(pos, [rng.choice(['fail', 'dfail']), i, 900 + rng.randint(0, 9)])
            elif r < 0.85:
                ops.insert(pos, ['ack', i])
            else:
                ops.insert(pos, ['get'])
    ops.append(['get'])
    c = dict(t='map', n=n, k=k, cb=rng.random() < 0.7, ecb=rng.random() < 0.7, ops=ops, kind=kind)
    if kind == 'clean':
        c['expect'] = [fval(x) for x in l]
    return c


def gen_items(rng, n, base, badp):
    items = []
    for x in range(base, base + n):
        if rng.random() < badp:
            items.append(['bad', 500 + x])
        else:
            items.append(['good', fval(x)])
    return items


def interleave(rng, n, events, d):
    """arrivals in `events` order, set_length(n) anywhere, next() anywhere, then enough next()"""
    ops = [[d + 'set', i, it] for i, it in events]
    ops.insert(rng.randint(0, len(ops)), ['len', n])
    for _ in range(rng.choice([0, 1, 2, n, n + 2, rng.randint(0, 2 * n + 2)])):
        ops.insert(rng.randint(0, len(ops)), ['next'])
    return ops


def gen_imap(rng):
    unordered = rng.random() < 0.35
    n = rng.randint(0, 9) if rng.random() < 0.7 else rng.randint(0, 40)
    kind = rng.choice(['clean', 'clean', 'clean', 'messy'])
    items = gen_items(rng, n, rng.randint(0, 9), rng.choice([0, 0.15, 0.4]))
    d = 'd' if rng.random() < 0.5 else ''
    order = perm(rng, n)
    ops = interleave(rng, n, [(i, items[i]) for i in order], d)
    tail = n + 2
    if kind == 'messy':
        for _ in range(rng.randint(1, 3)):
            pos = rng.randint(0, len(ops))
            r = rng.random()
            if r < 0.5:
                ops.insert(pos, [rng.choice(['set', 'dset']), rng.randint(0, n + 2), ['good', rng.randint(0, 99)]])
            elif r < 0.8:
                ops.insert(pos, ['len', rng.randint(0, n + 1)])
            else:
                ops.insert(pos, ['next'])
        tail += 3
    ops += [['next']] * tail
    c = dict(t='imap', unordered=unordered, ops=ops, kind=kind)
    if kind == 'clean':
        seq = items if not unordered else [items[i] for i in order]
        c['expect'] = [['yield', v] if g == 'good' else ['raise', v] for g, v in seq]
    return c


def gen_flat(rng):
    unordered = rng.random() < 0.35
    n = rng.randint(0, 14) if rng.random() < 0.8 else rng.randint(0, 60)
    cs = rng.randint(2, 5)
    base = rng.randint(0, 9)
    l = list(range(base, base + n))
    m = nchunks(n, cs)
    badp = rng.choice([0, 0, 0.2, 0.5])
    items = []
    for i in range(m):
        chunk = l[i * cs:(i + 1) * cs]
        if rng.random() < badp:
            items.append(['bad', 700 + i])
        else:
            items.append(['good', [fval(x) for x in chunk]])
    d = 'd' if rng.random() < 0.5 else ''
    order = perm(rng, m)
    ops = interleave(rng, m, [(i, items[i]) for i in order], d)
    ops += [['next']] * (n + 2)
    seq = items if not unordered else [items[i] for i in order]
    expect = []
    for g, v in seq:        # what the property asks for: every item, errors in place
        expect += [['yield', x] for x in v] if g == 'good' else [['raise', v]]
    return dict(t='flat', unordered=unordered, input=l, cs=cs, ops=ops, kind='clean', expect=expect,
                nbad=sum(1 for g, _ in items if g == 'bad'))


def merges(seqs):
    """all interleavings of the given sequences (each keeps its own order)"""
    seqs = [q for q in seqs if q]
    if not seqs:
        yield []
        return
    for j, q in enumerate(seqs):
        rest = seqs[:j] + [q[1:]] + seqs[j + 1:]
        for m in merges(rest):
            yield [q[0]] + m


def handle_events(spec, order, len_first):
    """the state-changing operations of one handle, in its own order, and what it must show"""
    if spec['kind'] == 'map':
        n, k = spec['n'], spec['k']
        l = list(range(spec['base'], spec['base'] + n))
        evs = [['set', i, [fval(x) for x in l[i * k:(i + 1) * k]]] for i in order]
        return evs, [fval(x) for x in l]
    items = spec['items']
    evs = [['set', i, items[i]] for i in order]
    evs.insert(0 if len_first else len(evs), ['len', len(items)])
    seq = items if not spec['unordered'] else [items[i] for i in order]
    return evs, [['yield', v] if g == 'good' else ['raise', v] for g, v in seq]


def mk_multi(specs, seqs_expect, merged, probe):
    """merged: list of (handle, op); after every event every iterator is asked once (probe), and at
    the end every handle is drained / read"""
    ops = []
    for h, op in merged:
        ops.append([h] + op)
        if probe:
            for j, sp in enumerate(specs):
                ops.append([j, 'next'] if sp['kind'] != 'map' else [j, 'get'])
    for j, sp in enumerate(specs):
        if sp['kind'] == 'map':
            ops.append([j, 'get'])
        else:
            ops += [[j, 'next']] * (len(sp['items']) + 2)
    handles = []
    for sp, (_, exp) in zip(specs, seqs_expect):
        h = dict(sp)
        h['expect'] = exp
        handles.append(h)
    return dict(t='multi', handles=handles, ops=ops)


def imap_spec(tag, n, unordered=False, bad=None):
    items = [['good', 1000 * tag + 10 * i + 1] for i in range(n)]
    if bad is not None and bad < n:
        items[bad] = ['bad', 1000 * tag + 900 + bad]
    return dict(kind='imap', unordered=unordered, items=items)


def multi_enumerated(rng, tier):
    """TWO handles alive at once, 2 items each: every arrival order of each handle x set_length first or
    last x every interleaving of the two event sequences (ordered/ordered and ordered/unordered);
    THREE handles (ordered, ordered, MapResult): every arrival order x a seeded sample of the
    interleavings in the quick tier, all of them in the thorough tier.  Values of different handles
    are disjoint, so an item surfacing at the wrong handle is visible."""
    import itertools
    out = []
    for second_unordered in (False, True):
        specs = [imap_spec(1, 2, bad=1), imap_spec(2, 2, unordered=second_unordered)]
        for o0 in itertools.permutations(range(2)):
            for o1 in itertools.permutations(range(2)):
                for lf0 in (False, True):
                    for lf1 in (False, True):
                        se = [handle_events(specs[0], o0, lf0), handle_events(specs[1], o1, lf1)]
                        seqs = [[(h, e) for e in evs] for h, (evs, _) in enumerate(se)]
                        for m in merges(seqs):
                            out.append(mk_multi(specs, se, m, probe=True))
    specs = [imap_spec(1, 2), imap_spec(2, 2, bad=0), dict(kind='map', n=3, k=2, base=40, cb=True, ecb=True)]
    three = []
    for o0 in itertools.permutations(range(2)):
        for o1 in itertools.permutations(range(2)):
            for o2 in itertools.permutations(range(2)):
                se = [handle_events(specs[0], o0, False), handle_events(specs[1], o1, False),
                      handle_events(specs[2], o2, False)]
                seqs = [[(h, e) for e in evs] for h, (evs, _) in enumerate(se)]
                for m in merges(seqs):
                    three.append(mk_multi(specs, se, m, probe=False))
    if tier == 'quick':
        three = rng.sample(three, 150)
    return out + three


def gen_multi(rng):
    """random: 2-3 handles of random kinds and sizes, random arrival orders and interleaving"""
    specs = []
    for tag in range(1, rng.choice([2, 2, 3]) + 1):
        r = rng.random()
        if r < 0.55:
            specs.append(imap_spec(tag, rng.randint(0, 5), bad=rng.choice([None, None, 0, 1, 2])))
        elif r < 0.8:
            specs.append(imap_spec(tag, rng.randint(0, 5), unordered=True, bad=rng.choice([None, 1])))
        else:
            n = rng.randint(1, 7)
            k = rng.randint(1, n + 1)
            specs.append(dict(kind='map', n=n, k=k, base=100 * tag, cb=True, ecb=True))
    se = []
    for sp in specs:
        m = nchunks(sp['n'], sp['k']) if sp['kind'] == 'map' else len(sp['items'])
        se.append(handle_events(sp, perm(rng, m), rng.random() < 0.3))
    pools = [[(h, e) for e in evs] for h, (evs, _) in enumerate(se)]
    merged = []
    while any(pools):
        h = rng.choice([j for j, q in enumerate(pools) if q])
        merged.append(pools[h].pop(0))
    return mk_multi(specs, se, merged, probe=rng.random() < 0.5)


def project(c):
    """a multi case seen from each handle: an ordinary single-handle case (same format)"""
    res = []
    for j, h in enumerate(c['handles']):
        ops = [op[1:] for op in c['ops'] if op[0] == j]
        if h['kind'] == 'map':
            res.append(dict(t='map', n=h['n'], k=h['k'], cb=h['cb'], ecb=h['ecb'], ops=ops, kind='clean',
                            expect=h['expect']))
        else:
            res.append(dict(t='imap', unordered=h['unordered'], ops=ops, kind='clean', expect=h['expect']))
    return res


def gen_apply(rng):
    ops = []
    for _ in range(rng.randint(1, 6)):
        r = rng.random()
        if r < 0.4:
            it = ['good', fval(rng.randint(0, 20))] if rng.random() < 0.6 else ['bad', 300 + rng.randint(0, 9)]
            ops.append([rng.choice(['set', 'dset']), it])
        elif r < 0.65:
            ops.append(['ack'])
        else:
            ops.append(['get'])
    ops.append(['get'])
    return dict(t='apply', cb=rng.random() < 0.7, ecb=rng.random() < 0.7, ops=ops)


def boundary_cases():
    """systematically enumerated, present on every run"""
    out = []
    for n in range(0, 9):
        for size in range(-1, n + 3):
            out.append(dict(t='chunks', l=list(range(n)), size=size))
    for n in (0, 1, 2, 3, 4, 5, 7, 8, 9, 15, 16, 17, 31, 32, 33, 63, 64, 65, 200):
        for p in (1, 2, 3, 4, 16):
            out.append(dict(t='async', l=list(range(n)), cs=None, p=p, star=False))
    for n in (0, 1, 5):
        for cs in (-1, 0, 1, n, n + 1):
            out.append(dict(t='async', l=list(range(n)), cs=cs, p=2, star=False))
    # every arrival order of up to 4 chunks, every failure position, for a ragged last chunk
    import itertools
    for n, k in ((5, 2), (4, 2), (7, 3), (3, 1), (1, 3)):
        m = nchunks(n, k)
        l = list(range(n))
        for order in itertools.permutations(range(m)):
            for failpos in [None] + list(range(m)):
                for d in ('', 'd'):
                    ops = []
                    for i in order:
                        if i == failpos:
                            ops.append([d + 'fail', i, 100 + i])
                        else:
                            ops.append([d + 'set', i, [fval(x) for x in l[i * k:(i + 1) * k]]])
                        ops.append(['get'])
                    c = dict(t='map', n=n, k=k, cb=True, ecb=True, ops=ops,
                             kind='clean' if failpos is None else 'fail')
                    if failpos is None:
                        c['expect'] = [fval(x) for x in l]
                    out.append(c)
    # imap: every arrival order of 3 items x every position of set_length, next after every event
    for unordered in (False, True):
        items = [['good', 1], ['bad', 2], ['good', None]]
        for order in itertools.permutations(range(3)):
            for lenpos in range(4):
                ops = []
                evs = [['set', i, items[i]] for i in order]
                evs.insert(lenpos, ['len', 3])
                for e in evs:
                    ops += [e, ['next']]
                ops += [['next']] * 4
                seq = items if not unordered else [items[i] for i in order]
                out.append(dict(t='imap', unordered=unordered, ops=ops, kind='clean',
                                expect=[['yield', v] if g == 'good' else ['raise', v] for g, v in seq]))
    out.append(dict(t='imap', unordered=False, ops=[['len', 0], ['next'], ['next']], kind='clean', expect=[]))
    out.append(dict(t='imap', unordered=False, ops=[['next'], ['len', 0], ['next']], kind='clean', expect=[]))
    # chunked imap: failure in the first / middle / last chunk
    for badpos in (None, 0, 1, 2):
        l = list(range(5))
        items = [['good', [fval(x) for x in l[i * 2:(i + 1) * 2]]] for i in range(3)]
        if badpos is not None:
            items[badpos] = ['bad', 700 + badpos]
        ops = [['set', i, items[i]] for i in (1, 2, 0)] + [['len', 3]] + [['next']] * 7
        expect = []
        for g, v in items:
            expect += [['yield', x] for x in v] if g == 'good' else [['raise', v]]
        out.append(dict(t='flat', unordered=False, input=l, cs=2, ops=ops, kind='clean', expect=expect,
                        nbad=0 if badpos is None else 1))
    # chunked imap / imap_unordered (theorems C02_imap_chunked_in_order, C02_imapu_chunked_arrival_order):
    # every arrival order of 3 chunks x failing chunk none/first/middle/last x every position of
    # set_length, a next() after every event, direct and cache-guarded delivery
    for unordered in (False, True):
        for order in itertools.permutations(range(3)):
            for badpos in (None, 0, 1, 2):
                for lenpos in range(4):
                    l = list(range(5))
                    items = [['good', [fval(x) for x in l[i * 2:(i + 1) * 2]]] for i in range(3)]
                    if badpos is not None:
                        items[badpos] = ['bad', 700 + badpos]
                    d = 'd' if lenpos % 2 else ''
                    evs = [[d + 'set', i, items[i]] for i in order]
                    evs.insert(lenpos, ['len', 3])
                    ops = []
                    for e in evs:
                        ops += [e, ['next']]
                    ops += [['next']] * 7
                    seq = items if not unordered else [items[i] for i in order]
                    expect = []
                    for g, v in seq:
                        expect += [['yield', x] for x in v] if g == 'good' else [['raise', v]]
                    out.append(dict(t='flat', unordered=unordered, input=l, cs=2, ops=ops, kind='clean',
                                    expect=expect, nbad=0 if badpos is None else 1))
    out.append(dict(t='star', star=False, a=10, b=1, c=[1, 2, 3]))
    out.append(dict(t='star', star=True, a=100, b=1, c=[[1, 2], [3, 4], [5, 6]]))
    out.append(dict(t='star', star=False, a=1, b=0, c=[]))
    out.append(dict(t='apply', cb=True, ecb=True, ops=[['get'], ['ack'], ['set', ['good', 7]], ['get']]))
    out.append(dict(t='apply', cb=True, ecb=True, ops=[['set', ['bad', 9]], ['ack'], ['get'], ['dset', ['good', 1]], ['get']]))
    return out


GENS = [(gen_multi, 2), (gen_chunks, 1), (gen_star, 1), (gen_async, 2), (gen_map, 5), (gen_imap, 4), (gen_flat, 2), (gen_apply, 1)]


def gen_cases(rng, n):
    table = [g for g, w in GENS for _ in range(w)]
    return [rng.choice(table)(rng) for _ in range(n)]


# ------------------------------------------------------------------ rendering
def cval(v):
    return copt(v)


def cvals(vs):
    return clist(vs, cval)


def cout(o):
    k = o[0]
    if k == 'unit':
        return 'OUnit'
    if k == 'exn':
        return '(OExn %s)' % o[1]
    if k == 'list':
        return '(OList %s)' % cvals(o[1])
    if k == 'yield':
        return '(OYield %s)' % cval(o[1])
    if k == 'raise':
        return '(ORaise %s)' % cz(o[1])
    if k == 'stop':
        return 'OStop'
    if k == 'timeout':
        return 'OTimeout'
    raise ValueError(o)


def citem(it, fv=cval):
    return '(Good %s)' % fv(it[1]) if it[0] == 'good' else '(Bad %s)' % cz(it[1])


def cmop(op):
    k = op[0]
    if k in ('set', 'dset'):
        m = '(MOk %s %s)' % (cz(op[1]), cvals(op[2]))
    elif k in ('fail', 'dfail'):
        m = '(MFail %s %s)' % (cz(op[1]), cz(op[2]))
    elif k == 'ack':
        return '(MAck %s)' % cz(op[1])
    else:
        return 'MGet'
    return '(%s %s)' % ('MDeliver' if k[0] == 'd' else 'MSet', m)


def ciop(op, fv=cval):
    k = op[0]
    if k == 'set':
        return '(ISet %s %s)' % (cz(op[1]), citem(op[2], fv))
    if k == 'dset':
        return '(IDeliver %s %s)' % (cz(op[1]), citem(op[2], fv))
    if k == 'len':
        return '(ISetLen %s)' % cz(op[1])
    return 'INext'


def caop(op):
    k = op[0]
    if k == 'set':
        return '(ASet %s)' % citem(op[1])
    if k == 'dset':
        return '(ADeliver %s)' % citem(op[1])
    return 'AAck' if k == 'ack' else 'AGet'


def citer_final(o, fv):
    fo = '(%s, %s)' % (clist(o['items'], lambda it: citem(it, fv)), cbool(o['ready']))
    fi = '(%s, %s, %s, %s)' % (cz(o['index']), copt(o['length']),
                               clist(o['unsorted'], lambda kv: '(%s, %s)' % (cz(kv[0]), citem(kv[1], fv))),
                               cbool(o['incache']))
    return fo, fi


def to_coq(c, o):
    t = c['t']
    if t == 'chunks':
        b = 'None' if o['batches'] is None else '(Some %s)' % clist(o['batches'], clist)
        return '(CChunks %s %s %s)' % (clist(c['l']), cz(c['size']), b)
    if t == 'star':
        if c['star']:
            return '(CStarmapstar %s %s %s %s)' % (cz(c['a']), cz(c['b']),
                                                   clist(c['c'], lambda p: '(%s, %s)' % (cz(p[0]), cz(p[1]))), clist(o['out']))
        return '(CMapstar %s %s %s %s)' % (cz(c['a']), cz(c['b']), clist(c['c']), clist(o['out']))
    if t == 'async':
        if o['raised']:
            impl = 'None'
        else:
            b = 'None' if o['batches'] is None else '(Some %s)' % clist(o['batches'], clist)
            impl = '(Some (%s, %s, (%s, %s, %s, %s)))' % (
                cz(o['k']), b, cz(o['left']), cbool(o['ready']),
                cbool(o['incache']), cvals(o['value']))
        return '(CAsync %s %s %s %s)' % (clist(c['l']), copt(c['cs']), cz(c['p']), impl)
    if t == 'map':
        v = o['value']
        mv = '(VList %s)' % cvals(v[1]) if v[0] == 'list' else '(VErr %s)' % cz(v[1])
        fo = '(%s, %s, %s, %s, %s)' % (cbool(o['success']), mv, cbool(o['ready']),
                                       clist(o['cb'], cvals), clist(o['ecb']))
        fi = '(%s, %s, %s)' % (cz(o['left']), cbool(o['incache']), clist(o['accepted'], cbool))
        return '(CMap %s %s %s %s %s %s %s %s)' % (
            cz(c['n']), cz(c['k']), cbool(c['cb']), cbool(c['ecb']), clist(c['ops'], cmop),
            clist(o['outs'], cout), fo, fi)
    if t == 'imap':
        fo, fi = citer_final(o, cval)
        return '(CImap %s %s %s %s %s)' % (cbool(c['unordered']), clist(c['ops'], ciop),
                                           clist(o['outs'], cout), fo, fi)
    if t == 'flat':
        fo, fi = citer_final(o, cvals)
        return '(CFlat %s %s %s %s %s)' % (cbool(c['unordered']), clist(c['ops'], lambda x: ciop(x, cvals)),
                                           clist(o['outs'], cout), fo, fi)
    if t == 'apply':
        v = 'None' if o['value'] is None else '(Some %s)' % citem(o['value'])
        fo = '(%s, %s, %s, %s)' % (cbool(o['ready']), v, cvals(o['cb']), clist(o['ecb']))
        fi = '(%s, %s)' % (cbool(o['accepted']), cbool(o['incache']))
        return '(CApply %s %s %s %s %s %s)' % (cbool(c['cb']), cbool(c['ecb']), clist(c['ops'], caop),
                                               clist(o['outs'], cout), fo, fi)
    raise ValueError(t)


# ------------------------------------------------------- property monitors
def next_outputs(c, o):
    """what the consumer saw: outputs of the next() calls, would-block steps left out"""
    return [x for op, x in zip(c['ops'], o['outs']) if op[0] == 'next' and x[0] != 'timeout']


def monitor(c, o):
    """judge the implementation's own outputs against the sequential computation;
    returns None or (signature, what)"""
    t = c['t']
    if t == 'chunks' and c['size'] >= 1:
        b = o['batches']
        flat = [x for ch in (b or []) for x in ch]
        if b is None or flat != c['l'] or any(len(ch) != c['size'] for ch in b[:-1]) \
                or any(not 1 <= len(ch) <= c['size'] for ch in b):
            return ('C02:chunks-do-not-partition-input', '_get_tasks(%s, size=%s) -> %s' % (c['l'], c['size'], b))
    if t == 'async':
        n = len(c['l'])
        if (c['cs'] is None or c['cs'] >= 1) and c['p'] >= 1:
            if o['raised']:
                return ('C02:map-async-raised', 'map_async raised %s on %s' % (o['raised'], json.dumps(c)))
            flat = [x for ch in (o['batches'] or []) for x in ch]
            if o['batches'] is None or flat != c['l'] or o['left'] != len(o['batches']) or o['ready'] != (n == 0) \
                    or (c['cs'] is None and (len(o['batches']) > 4 * c['p'] or (n and o['k'] < 1))):
                return ('C02:map-async-batches-wrong',
                        'map_async(%d items, chunksize=%s, %d workers): chunksize %s, batches %s, number_left %s, ready %s'
                        % (n, c['cs'], c['p'], o['k'], o['batches'], o['left'], o['ready']))
    if t == 'map' and c.get('kind') == 'clean' and c['n'] > 0:
        v = o['value']
        want_cb = [c['expect']] if c['cb'] else []
        if v != ['list', c['expect']] or not o['ready'] or not o['success'] or o['outs'][-1] != ['list', c['expect']] \
                or o['cb'] != want_cb or o['ecb']:
            return ('C02:map-value-differs-from-sequential',
                    'MapResult(n=%d, k=%d) after all chunks arrived (order %s): value %s, get() %s, callbacks %s; sequential: %s'
                    % (c['n'], c['k'], [op[1] for op in c['ops'] if op[0] in ('set', 'dset')], v, o['outs'][-1],
                       o['cb'], c['expect']))
        nset = sum(1 for op in c['ops'] if op[0] in ('set', 'dset'))
        seen = 0
        for op, x in zip(c['ops'], o['outs']):
            if op[0] in ('set', 'dset'):
                seen += 1
            if op[0] == 'get' and seen < nset and x[0] != 'timeout':
                return ('C02:map-ready-before-last-chunk', 'get() returned %s after %d of %d chunks' % (x, seen, nset))
    if t == 'flat' and c.get('kind') == 'clean':
        # what the THEOREMS say the code does (C02_imap_chunked_in_order/_complete and the unordered
        # twins): the values of the chunks before the first failing one (input order, resp. arrival
        # order), then that chunk's error, then only StopIteration -- and StopIteration only after all
        # of it.  Computed here from the case alone, independently of the Coq model.
        thm = []
        for x in c['expect']:
            thm.append(x)
            if x[0] == 'raise':
                break
        got = next_outputs(c, o)
        k = 0
        while k < len(got) and got[k] != ['stop']:
            k += 1
        arrivals = [op[1] for op in c['ops'] if op[0] in ('set', 'dset')]
        tail = len(c['input']) + 2
        wellformed = len(set(arrivals)) == len(arrivals) and [op[1] for op in c['ops'] if op[0] == 'len'] == [len(arrivals)] \
            and sorted(arrivals) == list(range(nchunks(len(c['input']), c['cs'])))
        complete = len(c['ops']) >= tail and all(op[0] == 'next' for op in c['ops'][-tail:])
        bad = None
        if not wellformed:
            pass
        elif got[:k] != thm[:k] or any(x != ['stop'] for x in got[k:]):
            bad = 'is not a prefix of the expected sequence followed by StopIteration only'
        elif k < len(got) and k != len(thm):
            bad = 'StopIteration after %d of %d outputs' % (k, len(thm))
        elif complete and not (k == len(thm) and len(got) > k):
            bad = 'everything arrived and the consumer pulled %d more times, yet it saw only %d of %d outputs / no StopIteration' \
                  % (len(c['input']) + 2, k, len(thm))
        if bad:
            return ('C02:imap-chunked-differs-from-theorem',
                    '%s(chunksize=%d) over %s (ops %s): consumer saw %s, which %s; proved behaviour of the generator: %s then '
                    'StopIteration' % ('imap_unordered' if c['unordered'] else 'imap', c['cs'], c['input'],
                                       json.dumps(c['ops']), got, bad, thm))
    if t in ('imap', 'flat') and c.get('kind') == 'clean':
        got = next_outputs(c, o)
        want = c['expect'] + [['stop']]
        head = got[:len(want)]
        if head != want or any(x != ['stop'] for x in got[len(want):]):
            if t == 'flat' and c['nbad'] > 0:
                return (SIG_FLAT,
                        '%s(chunksize=%d) over %s with failing chunk(s): consumer saw %s, the property asks for %s '
                        '(every remaining item after the error)'
                        % ('imap_unordered' if c['unordered'] else 'imap', c['cs'], c['input'], got, want))
            return ('C02:imap-order-differs-from-sequential',
                    '%s iterator (ops %s): consumer saw %s, sequential order is %s'
                    % ('unordered' if c['unordered'] else 'ordered', json.dumps(c['ops']), got, want))
    return None


# ------------------------------------------------------------ correspondence
SIG_BY_TYPE = dict(chunks='C02:chunks-differ-from-model', map='C02:map-result-differs-from-model',
                   imap='C02:imap-output-differs-from-model', flat='C02:imap-chunked-output-differs-from-model',
                   apply='C02:apply-result-differs-from-model')
SIG_BY_TYPE['async'] = 'C02:map-async-differs-from-model'
SIG_BY_TYPE['star'] = 'C02:mapstar-differs-from-sequential'


def nontrivial(c):
    t = c['t']
    if t == 'star':
        return len(c['c']) >= 2
    if t == 'multi':
        return sum(1 for op in c['ops'] if op[1] not in ('get', 'next')) >= 2
    if t in ('chunks', 'async'):
        return len(c['l']) >= 2
    return sum(1 for op in c['ops'] if op[0] != 'get' and op[0] != 'next') >= 2


SIG_MULTI = 'C02:handles-not-independent'


def units_of(c, o):
    """(handle index or None, single-handle case, its observation) for every handle of a case"""
    if c['t'] != 'multi':
        return [(None, c, o)]
    if 'crashed' in o:
        return [(0, c, o)]
    return [(j, pc, po) for j, (pc, po) in enumerate(zip(project(c), o['handles']))]


def judge(units):
    """render every unit, evaluate the model in Coq, run the monitors.
    returns list of (unit index, 'alarm'|'internal', signature, text)"""
    terms, owner, found = [], [], []
    for u, (j, c, o) in enumerate(units):
        if 'crashed' in o:
            found.append((u, 'alarm', 'C02:case-raised', 'the real code raised outside the modelled operations: %s %s'
                          % (o['crashed'], o.get('where'))))
            continue
        try:
            terms.append(to_coq(c, o))
            owner.append(u)
        except Exception as exc:          # an observation of an unexpected shape is a finding, not a crash
            found.append((u, 'alarm', 'C02:observation-malformed',
                          'observation cannot be expressed in the model\'s types (%s: %s): %s'
                          % (type(exc).__name__, exc, json.dumps(o)[:500])))
            continue
        try:
            m = monitor(c, o)
        except Exception as exc:
            m = ('C02:observation-malformed', 'monitor could not read the observation (%s: %s)' % (type(exc).__name__, exc))
        if m:
            found.append((u, 'alarm', m[0], m[1]))
    codes, _ = core.coq_eval('C02', HEADER, core.chunks(terms, 300))
    for i, code in codes:
        u = owner[i]
        j, c, o = units[u]
        if code == 2:
            found.append((u, 'alarm', SIG_BY_TYPE[c['t']],
                          'real %s code and the proved model disagree on an observable: case %s impl %s'
                          % (c['t'], json.dumps(c)[:600], json.dumps(o)[:600])))
        else:
            found.append((u, 'internal', SIG_BY_TYPE[c['t']], json.dumps(dict(case=c, impl=o))[:3000]))
    return found, len(terms)


def correspond(res, n):
    rng = random.Random(res.seed * 7919 + 2)
    corpus = json.load(open(core.VERIF + '/corpus/C02.json'))
    multi = multi_enumerated(random.Random(res.seed * 31 + 5), res.tier)
    bnd = boundary_cases()
    cases = corpus + multi + bnd + gen_cases(rng, n)
    outs = core.run_driver('reasm_driver.py', cases)
    units, home = [], []
    for ci, (c, o) in enumerate(zip(cases, outs)):
        for un in units_of(c, o):
            units.append(un)
            home.append(ci)
    found, nterms = judge(units)
    canon = {json.dumps(c, sort_keys=True) for c in cases if nontrivial(c)}
    hist = {}
    for c in cases:
        key = c['t'] + ('/' + c['kind'] if 'kind' in c else '')
        if c['t'] == 'multi':
            key += '/' + '+'.join(('imapu' if h.get('unordered') else h['kind']) for h in c['handles'])
        hist[key] = hist.get(key, 0) + 1
    sizes = dict(max_input=max(len(c.get('l', c.get('input', []))) for c in cases),
                 max_ops=max(len(c.get('ops', [])) for c in cases))
    first_rand = len(corpus) + len(multi) + len(bnd)
    res.add_cov(evaluations=len(cases), distinct=len(canon), traces=len(cases),
                samples=[dict(case=cases[first_rand], impl=outs[first_rand]),
                         dict(case=cases[len(corpus)], impl=outs[len(corpus)])],
                rule='corpus + %d enumerated multi-handle cases (2 handles alive at once over one cache, 2 items each: every '
                     'arrival order x set_length first/last x EVERY interleaving, ordered/ordered and ordered/unordered; 3 handles '
                     'incl. a MapResult: every arrival order x %s interleavings; each handle judged against its own independent '
                     'model copy and its own sequential expectation) + %d enumerated single-handle boundary cases (all arrival orders '
                     'of <= 4 chunks x failure position, all orders of 3 imap items x set_length position, chunk sizes -1..n+2 for n<9, '
                     'default chunk size at multiples of 4p) + seeded random histories (single and multi handle) on the real '
                     'MapResult/IMapIterator/IMapUnorderedIterator/ApplyResult/_get_tasks/_map_async/imap generator; non-trivial = input '
                     'length >= 2 (chunks/async) or >= 2 state-changing ops; distinct by canonical JSON'
                     % (len(multi), 'a seeded sample of 150' if res.tier == 'quick' else 'all', len(bnd)),
                case_kinds=hist, sizes=sizes, model_evaluations=nterms, handles_judged=len(units))
    res.cov['monitor_evaluations'] = len(units)
    multi_alarms, single = [], []
    for u, kind, sig, text in found:
        ci = home[u]
        c, o = cases[ci], outs[ci]
        j = units[u][0]
        if c['t'] == 'multi':
            item = dict(signature=SIG_MULTI if kind == 'alarm' else sig,
                        what='with %d result handles alive at once, handle #%s (%s) does not behave like a handle on its own -- %s'
                             % (len(c['handles']), j, c['handles'][j or 0]['kind'], text[:900]),
                        replay=dict(case=c, impl=o))
            if kind == 'alarm':
                multi_alarms.append(item)
            else:
                res.broken.append(dict(kind='correspondence', name='internal fields of handle #%s in a multi-handle case' % j,
                                       detail=text))
        else:
            single.append((kind, sig, text, c, o))
    res.alarms += multi_alarms
    budget = 0 if multi_alarms else 6
    for kind, sig, text, c, o in single:
        if kind == 'alarm' and budget > 0 and sig != SIG_FLAT:
            budget -= 1
            alone = core.run_driver('reasm_driver.py', [c])[0]
            f2, _ = judge([(None, c, alone)])
            if not any(k == 'alarm' for _, k, _, _ in f2):
                res.broken.append(dict(kind='correspondence',
                                       name='a %s case fails inside the batch but not when run alone: result handles of one '
                                            'process are not independent' % c['t'],
                                       detail=text[:2000]))
                continue
        if kind == 'alarm':
            res.alarms.append(dict(signature=sig, what=text, replay=dict(case=c, impl=o)))
        else:
            res.broken.append(dict(kind='correspondence',
                                   name='Reassembly model vs code (internal fields) on a %s case' % c['t'], detail=text))
    # documented observation, outside the property (a chunk size is a positive integer): an explicit
    # chunksize <= 0 resolves the MapResult at construction with [None]*n (theorem C02_nonpositive_chunksize_observation)
    odd = [(c, o) for c, o in zip(cases, outs) if c['t'] == 'async' and 'crashed' not in o and c['cs'] is not None
           and c['cs'] <= 0 and c['l'] and not o['raised'] and o['ready']]
    if odd:
        c, o = odd[0]
        res.notes.append('observation (not an alarm): map_async with explicit chunksize=%d over %d items is resolved at '
                         'construction with %s; seen on %d cases' % (c['cs'], len(c['l']), o['value'], len(odd)))


def real_pools(res):
    """thorough tier: real worker processes, completion order perturbed by sleeps"""
    out = core.run_driver('reasm_driver.py', dict(mode='pool', seed=res.seed), timeout=900)
    res.add_cov(evaluations=out['runs'], traces=out['runs'], real_pool=out['summary'],
                rule='thorough: real billiard.Pool(n) runs of map/starmap/imap/imap_unordered/apply compared with list(map(f, xs))')
    for bad in out['bad']:
        res.alarms.append(dict(signature=bad['signature'], what=bad['what'], replay=dict(pool_case=bad['case'])))
    res.notes += out['observations']


def deep_failures(res):
    """both tiers: real worker processes, the function fails at the bottom of a deep call chain (beyond
    the frames the exception record keeps) or by runaway recursion"""
    out = core.run_driver('reasm_driver.py', dict(mode='deep'), timeout=300)
    res.add_cov(evaluations=out['runs'], traces=out['runs'],
                rule='real billiard.Pool(2): apply/map/imap of functions raising from 5..900 frames down and by runaway '
                     'recursion: same type and args, RemoteTraceback cause, imap raises at the position and goes on')
    for bad in out['bad']:
        res.alarms.append(dict(signature=bad['signature'], what=bad['what'], replay=dict(pool_case=bad['case'])))


def run(res):
    res.proof_step('Props/C02.v', extra_targets=['Model/Reassembly.vo', 'Model/Pool.vo', 'Model/PoolParts.vo'], kernels_needed=['K_reassembly'])
    n = 600 if res.tier == 'quick' else 20000
    if res.broken:
        n = max(n, 5000)      # failing-input search
    correspond(res, n)
    # the task handler's side of the same jobs (task sequences, the length an imap handle is told, put
    # failures) belongs to the pool model: histories of map/imap submissions, feeds and results
    from props import poolcommon as pc
    pc.pool_check(res, 'C02', 80 if res.tier == 'quick' else 2500,
                  focus={'map': 7, 'imap': 9, 'imapu': 6, 'feed': 12, 'ready': 12, 'ack': 6, 'next': 9, 'apply': 2,
                         'exit': 1, 'tick': 2, 'scan': 0.5, 'scan_block': 0.3, 'advance': 2, 'advance_deadline': 1,
                         'terminate_job': 0.3, 'grow': 0.2, 'shrink': 0.2, 'close': 0.2})
    # the crash-free closed system for multi-part jobs (Model/PoolParts.v): random closed schedules of submissions,
    # feeds, workers, results and next() calls on the real parent-side code, against the model and the sequential results
    pc.parts_closed_check(res, 'C02', 60 if res.tier == 'quick' else 1200)
    deep_failures(res)
    if res.tier != 'quick':
        real_pools(res)
    res.assumptions += [
        'values cross the process boundary unchanged (pickle is trusted); results are compared as Python ints / None',
        'callbacks passed to map_async do not raise (MapResult._set calls them unprotected)',
        'one message is handled at a time (the result handler is the only caller of _set; next() runs under the iterator\'s condition lock)',
        'CPython semantics of list slice assignment, itertools.islice and generator termination on exceptions, as modelled',
        'imap theorems: every index arrives exactly once; a worker that never reports is C04\'s subject',
    ]


def replay(path):
    d = json.load(open(path))
    r = d['replay']
    if r.get('kind') == 'pool-history':
        from props import poolcommon as pc
        return pc.pool_replay(path)
    if 'pool_case' in r:
        print('real-pool case (thorough tier): re-run ./check C02 --tier thorough;', json.dumps(r['pool_case']))
        return 1
    c = r['case']
    out = core.run_driver('reasm_driver.py', [c])[0]
    print('case:', json.dumps(c))
    print('implementation now:', json.dumps(out))
    units = units_of(c, out)
    found, _ = judge(units)
    if not found:
        print('every handle agrees with the model and with the sequential computation')
    for u, kind, sig, text in found:
        print('handle #%s: %s %s -- %s' % (units[u][0], kind, sig, text[:1500]))
    return 1 if found else 0
