"""C08 -- terminate() and termination signals always end workers promptly.  Pool family: theorems over Model/Pool.v (Props/C08.v), tied to
billiard/pool.py by differential correspondence on fake-process histories."""
import json
from vlib import core
from props import poolcommon as pc
from props import C03 as worker

MANIFEST = dict(
    text='Theorems: (worker model, tied to Worker.workloop) a task interrupted by the termination handler leaves the loop at once: no READY for that job, no further job, not counted; without a termination request nothing the task raises leaves the loop; (pool model) results delivered before the call stay intact in every continuation; a job owned by a worker stopped through terminate_job resolves Terminated. terminate() returning within a bound with no process or thread left is validated on real pools on every run (idle, busy, inside an exception handler, jobs queued), not proved.',
    note='Trusted: Coq kernel; Model/Pool.v and Model/Worker.v validated on every run against the real code; real-pool scenarios are timing-dependent validation (generous bounds), not proof. Partial: kernel signal delivery, Finalize once-only semantics and the _terminate_pool thread choreography are not modelled.',
    technique='Coq proof over executable pool and worker models + differential correspondence + real-pool validation scenarios',
    ref='5.8',
)

FOCUS = {'terminate_job': 6, 'apply': 12, 'ack': 12, 'tick': 10, 'ready': 8, 'exit': 4}

REAL_QUICK = [{'kind': 'terminate', 'state': 'lazy_imap', 'n': 2}, {'kind': 'terminate', 'state': 'busy', 'n': 2, 'job_limit': 60}, {'kind': 'terminate', 'state': 'idle', 'n': 1, 'hard': 60, 'job_soft': 30}, {'kind': 'terminate', 'state': 'busy', 'n': 2, 'maxtasks': 1, 'queued': 1}, {'kind': 'terminate_after_signal', 'n': 2, 'sig': 10}, {'kind': 'terminate', 'state': 'idle', 'n': 2}, {'kind': 'terminate', 'state': 'busy', 'n': 2, 'queued': 3}, {'kind': 'terminate', 'state': 'handler', 'n': 1}, {'kind': 'terminate', 'state': 'lock_lost', 'n': 2, 'jobs': 1}]
REAL_THOROUGH = [{'kind': 'terminate', 'state': 'lazy_imap', 'n': 2}, {'kind': 'terminate', 'state': 'lazy_imap', 'n': 1}, {'kind': 'terminate', 'state': 'lazy_imap', 'n': 4}, {'kind': 'terminate', 'state': 'busy', 'n': 2, 'job_limit': 60}, {'kind': 'terminate', 'state': 'idle', 'n': 1, 'job_soft': 30}, {'kind': 'terminate', 'state': 'handler', 'n': 2, 'hard': 60}, {'kind': 'terminate', 'state': 'idle', 'n': 1, 'hard': 60, 'job_soft': 30}, {'kind': 'terminate', 'state': 'busy', 'n': 2, 'maxtasks': 1, 'queued': 1}, {'kind': 'terminate', 'state': 'idle', 'n': 2, 'maxtasks': 1}, {'kind': 'terminate', 'state': 'handler', 'n': 3, 'maxtasks': 2, 'queued': 2}, {'kind': 'terminate', 'state': 'lock_lost', 'n': 2, 'jobs': 1}, {'kind': 'terminate', 'state': 'lock_lost', 'n': 2, 'jobs': 2, 'queued': 2}, {'kind': 'terminate_after_signal', 'n': 2, 'sig': 10}, {'kind': 'terminate_after_signal', 'n': 1, 'sig': 10}, {'kind': 'terminate_after_signal', 'n': 2, 'sig': 2}, {'kind': 'terminate', 'state': 'idle', 'n': 1, 'queued': 0}, {'kind': 'terminate', 'state': 'idle', 'n': 1, 'queued': 5}, {'kind': 'terminate', 'state': 'idle', 'n': 2, 'queued': 0}, {'kind': 'terminate', 'state': 'idle', 'n': 2, 'queued': 5}, {'kind': 'terminate', 'state': 'idle', 'n': 4, 'queued': 0}, {'kind': 'terminate', 'state': 'idle', 'n': 4, 'queued': 5}, {'kind': 'terminate', 'state': 'busy', 'n': 1, 'queued': 0}, {'kind': 'terminate', 'state': 'busy', 'n': 1, 'queued': 5}, {'kind': 'terminate', 'state': 'busy', 'n': 2, 'queued': 0}, {'kind': 'terminate', 'state': 'busy', 'n': 2, 'queued': 5}, {'kind': 'terminate', 'state': 'busy', 'n': 4, 'queued': 0}, {'kind': 'terminate', 'state': 'busy', 'n': 4, 'queued': 5}, {'kind': 'terminate', 'state': 'handler', 'n': 1, 'queued': 0}, {'kind': 'terminate', 'state': 'handler', 'n': 1, 'queued': 5}, {'kind': 'terminate', 'state': 'handler', 'n': 2, 'queued': 0}, {'kind': 'terminate', 'state': 'handler', 'n': 2, 'queued': 5}, {'kind': 'terminate', 'state': 'handler', 'n': 4, 'queued': 0}, {'kind': 'terminate', 'state': 'handler', 'n': 4, 'queued': 5}]


def term_in_put(res):
    """the termination signal lands INSIDE the put of a result (slow to pickle, full pipe, waiting for the
    write lock): the unsent result is not counted, so the exiting worker does not wait out the 30 s
    consumed-messages guard for an acknowledgement that cannot come.  Real Worker.workloop over the scripted
    queues of harness/worker_driver.py; judged on its own observation (not part of the worker model)."""
    cases = []
    for k in (1, 2, 3):
        ins = [['msg', 2, 10 + q, None, 100 + q, ['ret', q], [], 0, 0] for q in range(3)]
        cases.append(dict(kind='w', maxtasks=None, synfd=None, inqfd=7, pid=77, ospid=4242, maxmem=None,
                          counter=dict(reads=[], dflt=10 ** 6), ins=ins, term_in_put=k))
    outs = core.run_driver('worker_driver.py', cases, timeout=120)
    for c, o in zip(cases, outs):
        sent = sum(1 for e in o['log'] if e[0] == 'put' and e[1] == 1)     # READY messages really sent
        if o.get('completed') is None:
            res.alarms.append(dict(signature='C08:worker-did-not-leave-the-loop-when-terminated-inside-put',
                                   what='termination inside the put of result %d: %s' % (c['term_in_put'], json.dumps(o)[:300]), replay=dict(case=c, impl=o)))
        elif o['completed'] != sent:
            res.alarms.append(dict(signature='C08:unsent-result-counted-exiting-worker-waits-out-the-guard',
                                   what='the termination signal lands inside the put of result %d: %d results were sent, the exiting worker waits for %d '
                                        'to be acknowledged (up to 30 s, with SIGTERM back at its default action)' % (c['term_in_put'], sent, o['completed']),
                                   replay=dict(case=c, impl=o)))
    res.add_cov(evaluations=len(cases), traces=len(cases), term_in_put_cases=len(cases))


def run(res):
    res.proof_step('Props/C08.v', extra_targets=['Model/Pool.vo', 'Model/Worker.vo'], kernels_needed=['K_worker', 'G_pool_shape', 'G_pool_pins'])
    n = 150 if res.tier == 'quick' else 6000
    if res.broken:
        n = max(n, 1500)      # failing-input search on the implementation
    pc.pool_check(res, 'C08', n, focus=FOCUS)
    pc.real_scenarios(res, 'C08', REAL_QUICK if res.tier == 'quick' else REAL_THOROUGH)
    term_in_put(res)
    # worker side: the real Worker.workloop against the worker model the C08 theorems are about
    # (termination requests inside tasks are part of the generated scripts)
    before = len(res.alarms)
    worker.correspond(res, 120 if res.tier == 'quick' else 4000)
    # recorded findings of C03 (the worker protocol's own property) are reported by ./check C03,
    # not once more under this property; everything else the worker run raises counts here
    c03_known = {k['signature'] for k in core.load_known() if k.get('status') == 'known' and k.get('property') == 'C03'}
    kept = [a for a in res.alarms[before:] if a['signature'] not in c03_known]
    del res.alarms[before:]
    res.alarms.extend(kept)
    for a in res.alarms[before:]:
        a['signature'] = a['signature'].replace('C03:', 'C08:worker-')
    res.assumptions += pc_assumptions()


def pc_assumptions():
    return [
        'atomicity grain: one event = one message handled, one supervision pass, one full timeout scan, one user call; preemption inside these is not modelled',
        'worker processes, the clock, kill() and waitpid() are harness fakes; task values are abstract tags',
        'threads=False driving of the real handlers (handle_result_event, _maintain_pool, TimeoutHandler.handle_event, TaskHandler.body)',
    ]


def replay(path):
    d = json.load(open(path))
    c = (d.get('replay') or {}).get('case') or {}
    if c.get('kind') == 'w' and 'term_in_put' in c:
        o = core.run_driver('worker_driver.py', [c], timeout=120)[0]
        sent = sum(1 for e in o['log'] if e[0] == 'put' and e[1] == 1)
        print('results sent: %d; the exiting worker waits for %s' % (sent, o.get('completed')))
        return 0 if o.get('completed') == sent else 1
    return pc.pool_replay(path)
