"""C19 -- process exit status and liveness are reported faithfully.

Tie (a): K_exitstatus (Popen.poll decoding + cache, Popen.wait, forkserver poll, the
SystemExit handler and the two constants of _bootstrap, human_status) and K_procguard
(BaseProcess.start/join/is_alive/exitcode) are regenerated from /repo on every run and
proved equal to Model.ExitStatus.  Tie (b): correspondence of the real code with the
model on (1) scripted waitpid/sentinel/getpid histories of several process objects,
(2) all 65536 wait statuses, (3) real children for every exit path, (4) the forkserver
poll, (5) human_status."""
import json
import random
from vlib import core
from vlib.core import cz, cnat, cbool, copt, clist

MANIFEST = dict(
    text='Theorems (Coq): the code translated from popen_fork.py / popen_forkserver.py / process.py / common.py on '
         'every run equals the model (poll decode+cache, wait, forkserver poll, SystemExit->exit code, start/join/'
         'is_alive/exitcode guards). On the model: return=>0, raise=>1, sys.exit(n)=>n for 0<=n<=255 under every '
         'start method (n mod 256 for any C int under fork/spawn, n itself for 0<=n<2^64 under forkserver, else 255), '
         'signal s (1..126, with or without core flag)=>-s under fork/spawn and 255 under forkserver; decode is defined '
         'exactly on the non-stopped 16-bit statuses and inverts the kernel encoding (arithmetic proof and complete '
         '65536 sweep); for every history of start/join/is_alive/exitcode/active_children/getpid changes over every '
         'waitpid/sentinel oracle: a cached return code never changes and stops all further waitpid calls, exitcode is '
         'None and is_alive True exactly while nothing is cached, a code appears only as decode of a status waitpid '
         'reported for this pid, a join that saw the child end removes it from the children set, active_children '
         'returns only children without a code, a timed join whose sentinel is not ready never calls waitpid, start '
         'twice or from a foreign process raises AssertionError and changes nothing; Popen.wait over the waitpid/'
         'sentinel oracles equals the generated wait whenever the waitpid loop returns and hangs iff it made a blocking '
         'waitpid that is never answered; over every history a cached code of object i decodes a status its own oracle '
         'holds for its own pid, and a child that is never reported has exitcode None / is_alive True after every '
         'history. REFUTED (known finding C19:timed-join-blocks-after-child-closed-sentinel): "join(timeout) returns '
         'within the timeout" -- a timed join blocks iff the sentinel is ready, timeout<>0 and waitpid never reports '
         'the child (C19_timed_join_within_timeout_refuted, reproduced on a real child each run). Correspondence: '
         'real code vs model on scripted histories, all 65536 statuses, real children per exit path/signal (fork '
         'complete list, spawn and forkserver one per kind of ending in quick; all three complete in thorough), '
         'histories over several real children with descriptor reuse / garbage-collected process objects / orphaned '
         'sentinel judged by the world model (fork, spawn, forkserver).',
    note='Trusted: Coq kernel, translate/pykernel.py + translate/kernels/exitstatus.py (AST surgery with shape checks), '
         'Lib/PyVal.v, Lib/ExitStatusWait.v (glibc wait-status macros; validated against os.W* on all 65536 statuses '
         'each run), kernel behaviour (waitpid, signal delivery, pipe EOF) modelled as oracles; timing (join returns '
         'within the timeout when the sentinel is not ready) is sampled on real children only; in real-child histories '
         'the oracles are set from the driver-controlled state of each child (running / sentinel orphaned / ended); for '
         'forkserver histories the fork world automaton is the reference (status chosen to decode to `seen`). sys.exit()/sys.exit(None) report 1 (CPython: 0) and '
         'sys.exit("msg") reports 0 (CPython: 1): modelled as the code behaves, outside the property statement (D18). Grandchildren (a fork / spawn / forkserver child starting fork / spawn children) are validated on real processes only (harness/nested_driver.py); forkserver.py itself is not modelled.',
    technique='Coq proof over translator-regenerated kernels + differential correspondence + exhaustive status sweep + real children',
    ref='5.19',
)

HEADER = '''From Coq Require Import ZArith List Bool.
From BV Require Import Lib.Cases Model.ExitStatus.
Import ListNotations. Open Scope Z_scope.
Definition check_case := ExitStatus.%s.'''

FIRST_PID = 1000
FATAL_SIGNALS = [s for s in range(1, 32) if s not in (17, 18, 19, 20, 21, 22, 23, 28)]
SIGKILL, SIGTERM = 9, 15


# ------------------------------------------------------------------ generators
def gen_status(rng, allow_stopped):
    r = rng.random()
    if r < 0.5:
        return rng.choice([0, 1, 2, 3, 70, 127, 128, 255, rng.randint(0, 255)]) * 256
    if r < 0.9 or not allow_stopped:
        return rng.choice([1, 2, 6, 9, 11, 15, 31, 64, 126, rng.randint(1, 126)]) + rng.choice([0, 0, 128])
    return rng.choice([0x7f, 0x137f, 0xffff, 0x7f + 19 * 256, rng.randint(0, 65535)])


def gen_world(rng):
    n = rng.choice([1, 1, 2, 2, 3])
    cur0 = 100
    specs = []
    for i in range(n):
        me = FIRST_PID + i
        pre = []
        for _ in range(rng.choice([0, 0, 1, 2, 3, 4])):
            r = rng.random()
            if r < 0.2:
                pre.append(['eintr'])
            elif r < 0.33:
                pre.append(['err'])
            elif r < 0.75:
                pre.append(['ans', 0, 0])
            elif r < 0.87:
                pre.append(['ans', rng.choice([7, me + 1, me - 1]), gen_status(rng, False)])
            else:
                pre.append(['ans', me, gen_status(rng, n == 1)])
        r = rng.random()
        if r < 0.8:
            fin = ['ans', me, gen_status(rng, n == 1)]
        elif r < 0.92:
            fin = ['err']
        else:
            fin = ['ans', 0, 0]
        specs.append(dict(creator=rng.choice([100, 100, 100, 100, 200]), pre=pre, fin=fin,
                          rdy=[rng.random() < 0.5 for _ in range(rng.choice([0, 1, 2, 3]))]))
    ops = []
    for k in range(rng.randint(1, 12)):
        i = rng.randrange(n)
        r = rng.random()
        if k == 0 and r < 0.6 or r < 0.22:
            ops.append(['start', i])
        elif r < 0.45:
            ops.append(['join', i, rng.choice([None, 0, 0, 5, 5])])
        elif r < 0.62:
            ops.append(['alive', i])
        elif r < 0.8:
            ops.append(['code', i])
        elif r < 0.93:
            ops.append(['active'])
        else:
            ops.append(['setpid', rng.choice([100, 200])])
    return dict(kind='world', cur0=cur0, specs=specs, ops=ops)


def boundary_worlds():
    me = FIRST_PID
    out = []
    sp = lambda pre, fin, rdy=(), creator=100: dict(creator=creator, pre=pre, fin=fin, rdy=list(rdy))
    # polls before, at and after the exit; the second final answer must never be looked at
    out.append(dict(kind='world', cur0=100,
                    specs=[sp([['ans', 0, 0], ['ans', 0, 0], ['ans', me, 3 * 256]], ['ans', me, 9])],
                    ops=[['code', 0], ['alive', 0], ['start', 0], ['code', 0], ['alive', 0], ['active'],
                         ['code', 0], ['alive', 0], ['code', 0], ['active'], ['join', 0, None], ['start', 0]]))
    # timed joins: sentinel not ready / ready; zero timeout uses WNOHANG
    out.append(dict(kind='world', cur0=100,
                    specs=[sp([['ans', 0, 0], ['eintr'], ['ans', 0, 0]], ['ans', me, 15], rdy=[False, True, True])],
                    ops=[['start', 0], ['join', 0, 5], ['active'], ['join', 0, 0], ['join', 0, 0], ['join', 0, 5],
                         ['active'], ['code', 0]]))
    # foreign process: start / join / is_alive refuse, exitcode does not
    out.append(dict(kind='world', cur0=100,
                    specs=[sp([], ['ans', me, 0]), sp([], ['ans', me + 1, 256], creator=200)],
                    ops=[['start', 1], ['start', 0], ['setpid', 200], ['start', 0], ['join', 0, None], ['alive', 0],
                         ['code', 0], ['start', 1], ['setpid', 100], ['join', 1, 0], ['active']]))
    # ECHILD forever: never a code, join returns, child stays in the set
    out.append(dict(kind='world', cur0=100, specs=[sp([['err']], ['err'])],
                    ops=[['start', 0], ['join', 0, None], ['code', 0], ['alive', 0], ['active']]))
    # _cleanup on start reaps a finished sibling
    out.append(dict(kind='world', cur0=100,
                    specs=[sp([], ['ans', me, 11 + 128]), sp([['ans', 0, 0]], ['ans', me + 1, 255 * 256])],
                    ops=[['start', 0], ['start', 1], ['active'], ['join', 1, None], ['join', 1, None]]))
    # stopped status: the assert in poll fires
    out.append(dict(kind='world', cur0=100, specs=[sp([], ['ans', me, 0x137f])],
                    ops=[['start', 0], ['code', 0], ['alive', 0], ['join', 0, None], ['active']]))
    # unstarted: exitcode None, not alive, join refuses
    out.append(dict(kind='world', cur0=100, specs=[sp([], ['ans', me, 0])],
                    ops=[['code', 0], ['alive', 0], ['join', 0, None], ['active']]))
    return out


def sweep_cases():
    return [dict(kind='sweep', lo=lo, n=4096) for lo in range(0, 65536, 4096)]


def exit_paths(rng, full):
    ps = [['return'], ['raise'], ['sysexit0'], ['sysexit', ['none']]]
    ints = [0, 1, 2, 3, 127, 128, 255]
    ints += list(range(256)) if full else [rng.randint(4, 253) for _ in range(3)]
    ps += [['sysexit', ['int', n]] for n in sorted(set(ints))]
    ps += [['sysexit', ['int', n]] for n in ((256, 257, 511, -1, -256, 65536 + 7) if full else (256, -1))]
    ps += [['sysexit', ['bool', True]], ['sysexit', ['bool', False]], ['sysexit', ['str', 'bye']],
           ['sysexit', ['float']], ['sysexit', ['tuple', [['int', 7], ['int', 2]]]],
           ['sysexit', ['tuple', []]], ['sysexit', ['tuple', [['str', 'a']]]],
           ['sysexit', ['list', [['int', 4]]]],
           ['systemexit', []], ['systemexit', [['none']]], ['systemexit', [['int', 3], ['int', 4]]],
           ['systemexit', [['str', 'x'], ['int', 1]]]]
    ps += [['signal', s] for s in FATAL_SIGNALS]
    ps += [['killed', SIGKILL], ['killed', SIGTERM]]
    return ps


def real_cases(rng, tier):
    out = [dict(kind='real', method='fork', path=p) for p in exit_paths(rng, tier != 'quick')]
    if tier == 'quick':
        # every run validates the spawn / forkserver halves of `ending_of` on a few real children
        # (one per kind of ending; the complete list runs in the thorough tier)
        for m in ('spawn', 'forkserver'):
            out += [dict(kind='real', method=m, path=p) for p in (
                ['return'], ['raise'], ['sysexit', ['int', rng.randint(2, 255)]], ['sysexit', ['int', 256 + 7]],
                ['sysexit', ['int', -1]], ['sysexit', ['int', 2 ** 31]], ['signal', rng.choice([9, 15, 6, 11])])]
    if tier != 'quick':
        for m in ('spawn', 'forkserver'):
            out += [dict(kind='real', method=m, path=p) for p in exit_paths(rng, False)]
            out += [dict(kind='real', method=m, path=['sysexit', ['int', n]])
                    for n in (2 ** 31, 2 ** 32 + 5, 2 ** 63 - 1)]
    return out


SEQ_PATHS = [['return'], ['raise'], ['sysexit', ['int', 0]], ['sysexit', ['int', 3]], ['sysexit', ['int', 255]],
             ['signal', 15], ['signal', 9], ['signal', 6]]
SHORT = 0.05            # the positive timeout of timed joins in real histories


def seq_fd_reuse(method, paths=None):
    """join A, start B (its sentinel gets A's descriptor number), drop and collect A, look at B;
    the same once more with an unrelated file opened in between"""
    paths = paths or [['return'], ['sysexit', ['int', 3]], ['signal', 15]]
    ops = [['code', 0], ['alive', 0], ['start', 0], ['alive', 0], ['join', 0, SHORT], ['end', 0], ['join', 0, None],
           ['code', 0], ['start', 1], ['drop', 0], ['alive', 1], ['code', 1], ['join', 1, SHORT], ['join', 1, 0],
           ['active'], ['end', 1], ['join', 1, SHORT], ['code', 1], ['active'], ['start', 1]]
    if len(paths) > 2:
        ops += [['start', 2], ['drop', 1], ['openfile'], ['alive', 2], ['join', 2, 0], ['join', 2, SHORT], ['code', 2],
                ['end', 2], ['alive', 2], ['join', 2, None], ['code', 2], ['active']]
    return dict(kind='seq', method=method, paths=paths, ops=ops)


def seq_orphaned_sentinel(method):
    """the child closes its end of the sentinel pipe and goes on running: the sentinel is
    ready, a timed join then waits in a blocking waitpid"""
    return dict(kind='seq', method=method, paths=[['sysexit', ['int', 7]]],
                ops=[['start', 0], ['join', 0, SHORT], ['closefds', 0], ['alive', 0], ['code', 0], ['join', 0, 0],
                     ['join', 0, SHORT], ['code', 0], ['active'], ['end', 0], ['join', 0, SHORT], ['code', 0]])


def gen_seq(rng, method, nops=16):
    n = rng.choice([2, 3, 3, 4])
    paths = [rng.choice(SEQ_PATHS) for _ in range(n)]
    st = ['new'] * n              # new | run | ended
    inset = [False] * n
    dropped = [False] * n
    ops, hot = [], []             # hot: reaped objects that should be dropped while a newer child runs
    while len(ops) < nops:
        live = [i for i in range(n) if not dropped[i]]
        if not live:
            break
        running = [i for i in live if st[i] == 'run']
        if hot and running and rng.random() < 0.7:
            i = hot.pop(0)
            dropped[i] = True
            ops.append(['drop', i])
            if rng.random() < 0.3:
                ops.append(['openfile'])
            continue
        r = rng.random()
        i = rng.choice(live)
        if r < 0.22:
            new = [j for j in live if st[j] == 'new']
            if new and rng.random() < 0.9:
                i = new[0]
            ops.append(['start', i])
            if st[i] == 'new':               # (a second start() raises before anything else)
                st[i], inset[i] = 'run', True
                for j in range(n):           # _cleanup() reaps the finished ones
                    if st[j] == 'ended' and inset[j]:
                        inset[j] = False
                        if not dropped[j]:
                            hot.append(j)
        elif r < 0.36 and running:
            i = rng.choice(running)
            st[i] = 'ended'
            ops.append(['end', i])
        elif r < 0.60:
            if st[i] == 'ended':
                t = rng.choice([None, None, 0, SHORT])
                if inset[i]:
                    inset[i] = False
                    hot.append(i)
            else:
                t = rng.choice([0, SHORT])
            ops.append(['join', i, t])
        elif r < 0.74:
            ops.append(['alive', i])
        elif r < 0.88:
            ops.append(['code', i])
        else:
            ops.append(['active'])
            for j in range(n):
                if st[j] == 'ended' and inset[j]:
                    inset[j] = False
                    if not dropped[j]:
                        hot.append(j)
    for i in range(n):                   # nobody is left running: look at every end
        if st[i] == 'run' and not dropped[i]:
            ops += [['end', i], ['join', i, rng.choice([None, SHORT])], ['code', i]]
    return dict(kind='seq', method=method, paths=paths, ops=ops)


def seq_cases(rng, tier):
    out = [seq_fd_reuse('fork'), seq_orphaned_sentinel('fork'),
           seq_fd_reuse('spawn', [['raise'], ['signal', 9]]),
           seq_fd_reuse('forkserver', [['sysexit', ['int', 5]], ['signal', 15]])]
    nf, no = (5, 0) if tier == 'quick' else (40, 8)
    out += [gen_seq(rng, 'fork') for _ in range(nf)]
    for m in ('spawn', 'forkserver'):
        out += [gen_seq(rng, m, 12) for _ in range(no)]
    if tier != 'quick':
        out += [seq_fd_reuse('spawn'), seq_fd_reuse('forkserver'), seq_orphaned_sentinel('spawn')]
    return out


def gen_fs(rng):
    ops = []
    for _ in range(rng.randint(1, 6)):
        r = rng.random()
        if r < 0.6:
            rd = ['ok', rng.choice([0, 1, 2, 255, 256, 2 ** 32, 2 ** 64 - 1, rng.randint(0, 300)])]
        elif r < 0.85:
            rd = ['eof']
        else:
            rd = ['oserror']
        ops.append(['poll', rng.random() < 0.6, rng.random() < 0.7, rng.random() < 0.5, rd])
    return dict(kind='fs', ops=ops)


def human_cases():
    sts = [None, 0, 1, 2, 3, 70, 255, 256, -64, -100] + [-s for s in range(1, 32)]
    return [dict(kind='human', status=s) for s in sts]


# ------------------------------------------------------------------ rendering
def c_wans(a):
    if a[0] == 'eintr':
        return 'WEintr'
    if a[0] == 'err':
        return 'WErr'
    return '(WAns %s %s)' % (cz(a[1]), cz(a[2]))


def c_ans(a):
    return 'AErr' if a[0] == 'err' else '(AAns %s %s)' % (cz(a[1]), cz(a[2]))


def c_op(o):
    k = o[0]
    if k == 'start':
        return '(OStart %s)' % cnat(o[1])
    if k == 'join':
        return '(OJoin %s %s)' % (cnat(o[1]), copt(o[2]))
    if k == 'alive':
        return '(OAlive %s)' % cnat(o[1])
    if k == 'code':
        return '(OCode %s)' % cnat(o[1])
    if k == 'active':
        return 'OActive'
    return '(OSetPid %s)' % cz(o[1])


def c_sop(o):
    k = o[0]
    if k == 'end':
        return '(SEnd %s)' % cnat(o[1])
    if k == 'closefds':
        return '(SOrphan %s)' % cnat(o[1])
    if k in ('drop', 'openfile'):
        return 'SNop'
    if k == 'join':
        return '(SOp (OJoin %s %s))' % (cnat(o[1]), copt(None if o[2] is None else (0 if o[2] == 0 else 5)))
    return '(SOp %s)' % c_op(o)


def c_seq_path(p):
    k = p[0]
    if k == 'return':
        return 'PReturn'
    if k == 'raise':
        return 'PRaise'
    if k == 'signal':
        return '(PSignal %s false)' % cz(p[1])
    assert k == 'sysexit' and p[1][0] == 'int', p
    return '(PSysExit [VInt %s])' % cz(p[1][1])


def c_ores(r):
    k = r[0]
    if k == 'none':
        return 'ONone'
    if k == 'int':
        return '(OInt %s)' % cz(r[1])
    if k == 'bool':
        return '(OBool %s)' % cbool(r[1])
    if k == 'list':
        return '(OList %s)' % clist(r[1], cnat)
    if k == 'assert':
        return 'OAssert'
    if k == 'hang':
        return 'OHang'
    return 'OBad'


def c_argv(a):
    k = a[0]
    if k == 'int':
        return '(VInt %s)' % cz(a[1])
    if k == 'bool':
        return '(VBool %s)' % cbool(a[1])
    return dict(str='VStr', none='VNone').get(k, 'VOther')


def c_path(p, o):
    k = p[0]
    if k == 'return':
        return 'PReturn'
    if k == 'raise':
        return 'PRaise'
    if k in ('signal', 'killed'):
        return '(PSignal %s false)' % cz(p[1])
    return '(PSysExit %s)' % clist(o['args'], c_argv)


def to_coq(c, o):
    k = c['kind']
    if k == 'world':
        specs = clist(c['specs'], lambda s: '(%s, %s, %s, %s)' % (
            cz(s['creator']), clist(s['pre'], c_wans), c_ans(s['fin']), clist(s['rdy'], cbool)))
        obs = clist(o['obs'], lambda x: '(%s, (%s, %s))' % (
            c_ores(x['res']), clist(x['children'], cnat), clist(x['rcs'], copt)))
        return '(CWorld %s %s %s %s)' % (cz(c['cur0']), specs, clist(c['ops'], c_op), obs)
    if k == 'seq' and 'crash' in o:
        return '(CSeq %s [] [] [(OBad, ([], []))])' % c['method'].capitalize()
    if k == 'seq':
        obs = clist(o['obs'], lambda x: '(%s, (%s, %s))' % (
            c_ores(x['res']), clist(x['children'], cnat), clist(x['rcs'], copt)))
        return '(CSeq %s %s %s %s)' % (c['method'].capitalize(), clist(c['paths'], c_seq_path),
                                       clist(c['ops'], c_sop), obs)
    if k == 'sweep':
        return '(CSweep %s %s %s %s)' % (cz(c['lo']), cnat(c['n']), c_rle(o['decoded']), c_rle(o['macros']))
    if k == 'real' and 'crash' in o:
        return '(CReal %s PReturn None false false true true)' % c['method'].capitalize()
    if k == 'real':
        return '(CReal %s %s %s %s %s %s %s)' % (
            c['method'].capitalize(), c_path(c['path'], o), copt(o['code']),
            cbool(o['alive_before'] and o['child_before']), cbool(o['none_before']),
            cbool(o['child_after'] or o['active_after']), cbool(o['alive_after']))
    if k == 'fs':
        def rd(x):
            return '(Some %s)' % cz(x[1]) if x[0] == 'ok' else 'None'
        return '(CFs %s %s)' % (
            clist(c['ops'], lambda x: '(FsPoll %s %s %s %s)' % (cbool(x[1]), cbool(x[2]), cbool(x[3]), rd(x[4]))),
            clist(o['res'], c_ores))
    if k == 'human':
        return '(CHuman %s %s %s)' % (copt(c['status']), cbool(bool(o['is_sig'])), copt(o['num']))
    raise ValueError(k)


def delta_rle(xs):
    runs, prev = [], 0
    for x in xs:
        d = x - prev
        if runs and runs[-1][1] == d:
            runs[-1][0] += 1
        else:
            runs.append([1, d])
        prev = x
    return runs


def c_rle(xs):
    return clist(delta_rle(xs), lambda r: '(%s, %s)' % (cnat(r[0]), cz(r[1])))


SIGNATURES = dict(world='C19:liveness-or-cache-differs', seq='C19:real-history-differs', sweep='C19:status-decode-differs',
                  real='C19:exit-code-differs', fs='C19:forkserver-poll-differs',
                  human='C19:human-status-differs')


def describe(c, o, where):
    k = c['kind']
    if k == 'world':
        i = max(where - 1, 0)
        if where and i < len(c['ops']):
            return 'op #%d %s of %s: real code gave %s' % (where, c['ops'][i], json.dumps(c), json.dumps(o['obs'][i]))
        return 'history %s: real code gave %s' % (json.dumps(c), json.dumps(o['obs']))
    if k == 'seq' and 'crash' in o:
        return '%s children %s, history %s: the scenario failed with %s' % (c['method'], c['paths'], c['ops'], o['crash'])
    if k == 'seq':
        i = max(where - 1, 0)
        if where and i < len(c['ops']):
            return ('real %s children ending by %s, history %s: op #%d %s gave %s (children set %s, cached codes %s); '
                    'results so far %s' % (c['method'], json.dumps(c['paths']), json.dumps(c['ops']), where,
                                           json.dumps(c['ops'][i]), json.dumps(o['obs'][i]['res']),
                                           o['obs'][i]['children'], o['obs'][i]['rcs'],
                                           json.dumps([x['res'] for x in o['obs'][:i]])))
        return 'real %s children, history %s: real code gave %s' % (c['method'], json.dumps(c), json.dumps(o['obs']))
    if k == 'sweep':
        if where:
            s = c['lo'] + where - 1
            d = o['decoded'][where - 1]
            return 'wait status %d (0x%04x): Popen.poll reports %s' % (
                s, s, 'AssertionError' if d == 0 else d - 1000)
        return 'wait statuses %d..%d' % (c['lo'], c['lo'] + c['n'] - 1)
    if k == 'real' and 'crash' in o:
        return '%s child ending by %s: the parent-side calls failed with %s' % (c['method'], c['path'], o['crash'])
    if k == 'real':
        return '%s child ending by %s: exitcode %r, alive/None before: %s/%s, still a child after join: %s, alive after: %s' % (
            c['method'], c['path'], o['code'], o['alive_before'] and o['child_before'], o['none_before'],
            o['child_after'] or o['active_after'], o['alive_after'])
    if k == 'fs':
        return 'forkserver poll sequence %s gave %s' % (json.dumps(c['ops']), json.dumps(o['res']))
    return 'human_status(%r) = %r' % (c['status'], o['text'])


def nontrivial(c):
    k = c['kind']
    if k == 'world':
        kinds = {o[0] for o in c['ops']}
        return 'start' in kinds and len(kinds) >= 3
    if k == 'fs':
        return len(c['ops']) >= 2
    if k == 'seq':
        return len({o[0] for o in c['ops']}) >= 4
    return True


def direct_monitors(res, c, o):
    """property clauses evaluated directly on the observation of a real child"""
    if c['kind'] not in ('real', 'seq') or o.get('skipped'):
        return
    rp = dict(case=c, impl=o)
    if c['kind'] == 'seq':
        seq_monitors(res, c, o, rp)
        return
    if 'crash' in o:
        timed = 'ScenarioTimeout' in o['crash'] and 'join(0' in o['crash']
        res.alarms.append(dict(signature='C19:timed-join-wrong' if timed else 'C19:real-child-scenario-failed',
                               replay=rp, what='%s child ending by %s: %s' % (c['method'], c['path'], o['crash'])))
        return
    if o['start_twice'] != 'assert':
        res.alarms.append(dict(signature='C19:start-twice-allowed', replay=rp,
                               what='a second start() of a %s process did not raise' % c['method']))
    if o['start_foreign'] != 'assert':
        res.alarms.append(dict(signature='C19:foreign-start-allowed', replay=rp,
                               what='start() of a process object created by another process did not raise'))
    if not o['timed_join_ok']:
        res.alarms.append(dict(signature='C19:timed-join-wrong', replay=rp,
                               what='join(%s) on a running %s child took %.3fs or changed its status' % (
                                   c.get('short', 0.02), c['method'], o['timed_join_s'])))
    if o['code_unstarted'] != ['none'] or o['alive_unstarted']:
        res.alarms.append(dict(signature='C19:unstarted-status', replay=rp,
                               what='an unstarted process reports exitcode %s / is_alive %s' % (
                                   o['code_unstarted'], o['alive_unstarted'])))


ORPHAN_SIG = 'C19:timed-join-blocks-after-child-closed-sentinel'


def seq_monitors(res, c, o, rp):
    """the clause 'join(timeout) returns within the timeout', on every timed join of a real history
    (liveness / exit codes of the same history are judged by the world model: CSeq)"""
    if 'crash' in o:
        res.alarms.append(dict(signature='C19:real-child-scenario-failed', replay=rp,
                               what='%s children, history %s: %s' % (c['method'], json.dumps(c['ops']), o['crash'])))
        return
    orphaned = set()
    for n, (op, x, secs) in enumerate(zip(c['ops'], o['obs'], o['timing'])):
        if op[0] == 'closefds':
            orphaned.add(op[1])
        if op[0] != 'join' or op[2] is None:
            continue
        late = x['res'] == ['hang'] or secs > op[2] + 1.5
        if not late:
            continue
        if op[1] in orphaned:
            res.alarms.append(dict(
                signature=ORPHAN_SIG, replay=rp,
                what='%s child: after the child closed its end of the sentinel pipe and went on running, join(%s) '
                     '(op #%d) did not return (interrupted after %.2fs inside a blocking os.waitpid)' % (
                         c['method'], op[2], n + 1, secs)))
        else:
            res.alarms.append(dict(signature='C19:timed-join-wrong', replay=rp,
                                   what='%s children, history %s: join(%s) (op #%d) took %.2fs%s' % (
                                       c['method'], json.dumps(c['ops']), op[2], n + 1, secs,
                                       ' and had to be interrupted' if x['res'] == ['hang'] else '')))
        return


def evaluate(tag, cases, outs):
    terms = [to_coq(c, o) for c, o in zip(cases, outs)]
    if not terms:
        return [], {}
    order = list(range(len(terms)))
    chunks = core.chunks(terms, 150)
    codes, _ = core.coq_eval(tag, HEADER % 'check_case', chunks)
    bad = [(order[i], code) for i, code in codes]
    # most readable witnesses first: a single wait status, a real child, then histories
    prio = dict(sweep=0, real=1, human=2, fs=3, seq=4, world=5)
    bad.sort(key=lambda b: (prio[cases[b[0]]['kind']], len(json.dumps(cases[b[0]])) if cases[b[0]]['kind'] in ('world', 'seq') else 0, b[0]))
    where = {}
    if bad:
        pick = bad[:24]
        loc, _ = core.coq_eval(tag + 'loc', HEADER % 'locate_case', [[terms[i] for i, _ in pick]])
        where = {pick[j][0]: v for j, v in loc}
    return bad, where


def correspond(res, tier, nworld, nfs):
    rng = random.Random(res.seed * 6151 + 19)
    corpus = json.load(open(core.VERIF + '/corpus/C19.json'))
    cases = list(corpus) + boundary_worlds()
    cases += [gen_world(rng) for _ in range(nworld)]
    cases += [gen_fs(rng) for _ in range(nfs)]
    cases += human_cases()
    cases += sweep_cases()
    reals = real_cases(rng, tier)
    cases += reals
    cases += seq_cases(rng, tier)
    outs = core.run_driver('proc_driver.py', cases, timeout=1500)
    bad, where = evaluate('C19', cases, outs)
    for c, o in zip(cases, outs):
        if c['kind'] != 'seq':
            direct_monitors(res, c, o)
    bad = [b for b in bad if 'crash' not in outs[b[0]]]      # those are reported by direct_monitors
    for i, code in bad[:24]:
        c, o = cases[i], outs[i]
        entry = dict(case=c, impl=o, first_difference=where.get(i, 0))
        if c['kind'] == 'sweep' and where.get(i):
            # minimise: replay only the offending status
            entry = dict(case=dict(kind='sweep', lo=c['lo'] + where[i] - 1, n=1), first_difference=1,
                         impl=dict(decoded=[o['decoded'][where[i] - 1]], macros=[o['macros'][where[i] - 1]]))
        if code == 2:
            res.alarms.append(dict(signature=SIGNATURES[c['kind']],
                                   what=describe(c, o, where.get(i, 0)), replay=entry))
        else:
            res.broken.append(dict(kind='correspondence', name='ExitStatus model vs implementation (%s)' % c['kind'],
                                   detail=describe(c, o, where.get(i, 0))[:1500]))
    for c, o in zip(cases, outs):          # after the model's verdicts on the same histories
        if c['kind'] == 'seq':
            direct_monitors(res, c, o)
    if len(bad) > 24:
        res.notes.append('%d further cases disagree with the model (not listed)' % (len(bad) - 24))
    hist = {}
    for c in cases:
        if c['kind'] == 'world':
            for o in c['ops']:
                hist[o[0]] = hist.get(o[0], 0) + 1
    kinds = {}
    for c in cases:
        kinds[c['kind']] = kinds.get(c['kind'], 0) + 1
    paths = {}
    for c in reals:
        key = '%s:%s' % (c['method'], c['path'][0])
        paths[key] = paths.get(key, 0) + 1
    seqm, seqh = {}, {}
    for c in cases:
        if c['kind'] == 'seq':
            seqm[c['method']] = seqm.get(c['method'], 0) + 1
            for o in c['ops']:
                seqh[o[0]] = seqh.get(o[0], 0) + 1
    distinct = len({json.dumps(c, sort_keys=True) for c in cases if nontrivial(c)})
    nstat = sum(c['n'] for c in cases if c['kind'] == 'sweep')
    codes_seen = sorted({o['code'] for c, o in zip(cases, outs) if c['kind'] == 'real' and o.get('code') is not None})
    wi = next(i for i, c in enumerate(cases) if c['kind'] == 'world' and i >= len(corpus) + 7)
    ri = next(i for i, c in enumerate(cases) if c['kind'] == 'real' and c['path'][0] == 'signal')
    res.add_cov(evaluations=len(cases) - kinds.get('sweep', 0) + nstat, distinct=distinct + nstat - kinds.get('sweep', 0),
                traces=len(cases),
                samples=[dict(case=cases[wi], impl=outs[wi]), dict(case=cases[ri], impl=outs[ri])],
                rule='scripted histories over 1-3 process objects (ops start/join(None|0|5)/is_alive/exitcode/'
                     'active_children/getpid change; waitpid answers EINTR/ECHILD/not-yet/foreign pid/own pid with exit, '
                     'signal(+core) and stopped statuses; sentinel readiness) -- non-trivial = contains a start and at '
                     'least 3 op kinds; forkserver poll sequences (non-trivial = 2+ polls); every wait status 0..65535 '
                     'counted once; real children one per (method, exit path); real histories over 1-4 children '
                     '(start/join(None|0|0.05)/is_alive/exitcode/active_children, child ends, child closes its sentinel, '
                     'joined object dropped + gc, unrelated file opened; non-trivial = 4+ op kinds); distinct by canonical JSON',
                case_kinds=kinds, world_op_histogram=hist, real_children_by_method_and_path=paths,
                statuses_swept=nstat, real_exit_codes_observed=len(codes_seen),
                real_histories_by_method=seqm, real_history_op_histogram=seqh,
                max_timed_join_s=max([o.get('timed_join_s', 0) for c, o in zip(cases, outs) if c['kind'] == 'real'] or [0]))


def nested_children(res):
    """grandchildren: a process started under fork / spawn / forkserver starts children of its own under an
    explicit fork / spawn context: exit(3), normal return and SIGKILL are reported as 3, 0, -9, the child is no
    longer alive or listed after join() -- whatever signal dispositions the intermediate process inherited"""
    outs = core.run_driver('nested_driver.py', dict(), timeout=400)
    want = dict(exit3=3, kill9=-9)
    n = 0
    for r in outs:
        g = r['grandchildren']
        if not isinstance(g, list):
            res.alarms.append(dict(signature='C19:nested-child-report-missing', what='%s child starting %s children: %s (middle exit %s)'
                                   % (r['outer'], r['inner'], g, r['middle_exit']), replay=dict(case=dict(kind='nested', outer=r['outer'], inner=r['inner']), impl=r)))
            continue
        for x in g:
            n += 1
            exp = want.get(x['how'], 0)
            if x['exitcode'] != exp or x['alive'] or x['listed']:
                res.alarms.append(dict(signature='C19:exit-status-of-grandchild-not-reported',
                                       what='a %s child starts a %s child that ends by %s: after join() exitcode is %s (expected %s), is_alive() %s, '
                                            'listed among the active children: %s' % (r['outer'], r['inner'], x['how'], x['exitcode'], exp, x['alive'], x['listed']),
                                       replay=dict(case=dict(kind='nested', outer=r['outer'], inner=r['inner']), impl=r)))
                break
    res.add_cov(evaluations=n, traces=n, nested_children=n)


def run(res):
    res.proof_step('Props/C19.v', extra_targets=['Model/ExitStatus.vo'],
                   kernels_needed=['K_exitstatus', 'K_procguard'])
    nworld, nfs = (300, 40) if res.tier == 'quick' else (12000, 1500)
    if res.broken:
        nworld, nfs = max(nworld, 4000), max(nfs, 400)      # failing-input search
    correspond(res, res.tier, nworld, nfs)
    nested_children(res)
    res.assumptions += [
        'os.waitpid, the sentinel wait and os.getpid are oracles (any answer sequence); the kernel reports exit(n) as '
        '(n mod 256)<<8 and death by signal s as s (+128 with core) -- Lib/ExitStatusWait.v, compared with os.W* on all '
        '65536 statuses on every run',
        'join(timeout) returning within the timeout: with the sentinel not ready it is kernel behaviour (poll(2)), sampled '
        'on real children (bound 5 s for a 20 ms timeout; 1.5 s slack in real histories) -- proved: no waitpid call is '
        'made then; with the sentinel ready and the child still running the clause is false (known finding, proved '
        'C19_timed_join_blocks / _refuted, observed on a real fork child on every run)',
        'process objects are not shared between threads (no interleaving inside poll/join/_cleanup is modelled)',
        'exit codes outside a C int under fork are excluded (os._exit raises OverflowError in the child, which then '
        'leaves Popen._launch with an exception: see docs/C19.md)',
    ]


def replay(path):
    d = json.load(open(path))
    if 'replay' not in d:
        print(json.dumps(d.get('broken'), indent=1)[:3000])
        return 1
    c = d['replay']['case']
    if c.get('kind') == 'nested':
        bad = 0
        for r in core.run_driver('nested_driver.py', dict(), timeout=400):
            if r['outer'] == c['outer'] and r['inner'] == c['inner']:
                print(json.dumps(r))
                g = r['grandchildren']
                bad += (not isinstance(g, list)) or any(x['exitcode'] != dict(exit3=3, kill9=-9).get(x['how'], 0) or x['alive'] or x['listed'] for x in g)
        return 1 if bad else 0
    out = core.run_driver('proc_driver.py', [c])[0]
    print('case:', json.dumps(c))
    print('implementation then:', json.dumps(d['replay'].get('impl')))
    print('implementation now :', json.dumps(out))
    bad, where = evaluate('C19r', [c], [out])
    rc = 0
    if bad:
        print('model disagrees (code %d): %s' % (bad[0][1], describe(c, out, where.get(0, 0))))
        rc = 1
    else:
        print('model agrees')

    class R:
        alarms = []
    direct_monitors(R, c, out)
    for a in R.alarms:
        print('monitor:', a['signature'], a['what'])
        rc = 1
    return rc
