#!/bin/sh
# Build the whole Coq development from /repo's current working tree (offline).
set -e
cd "$(dirname "$0")"
/venv/bin/python - <<'PY'
import sys
sys.path.insert(0, '.')
from vlib import core
r = core.translate()
bad = {k: v for k, v in r.items() if v}
if bad:
    print('translator errors (will surface in the checks):', bad)
core.ensure_makefile()
PY
cd coq && timeout 3000 make -j16 2>&1 | grep -v '^Closed under' | tail -30
